"""X02 (not a listed property; growth of the specification, DESIGN.md section 7) - the Session's view of the cluster after
membership changes.

Topology.tla: four node slots; a node joins, leaves, is replaced by another node at the same address (new host id), comes back
in the other datacenter. After a metadata refresh the nodes the session knows are exactly the members, each with its current
host id, datacenter, rack and address (ViewIsTruth), and requests go to members only (NoGhosts).
TLC generates the scripts (MC_Topology: every enabled operation sequence up to the bound, a check after every operation); each
is played by the mock cluster (system.peers follows the membership; listeners stopped / started; TOPOLOGY_CHANGE events) to a
real Session; Trace_Topology.tla replays the operations on the model and judges every check.
"""
import json
import os
import random
import re

from common import ToolError, Verdict, read_ndjson, run_harness, seed, tlc, validate_trace, workdir, write_ndjson

PID = "X02"


def run(tier):
    v = Verdict(PID, tier, "exploration")
    wd = workdir(PID)
    cfg = os.path.join(wd, "MC_Topology.cfg")
    with open(cfg, "w") as f:
        f.write("SPECIFICATION Spec\nCONSTANTS MaxOps = %d\nINVARIANTS Emit\nCHECK_DEADLOCK FALSE\n" % (3 if tier == "quick" else 4))
    g = tlc("MC_Topology", cfg, workers=2, timeout=600)
    if not g.ok() or not g.finished:
        raise ToolError("MC_Topology failed: %s" % g.out[-300:])
    scripts = sorted(g.json_prints("TOPO"), key=lambda x: json.dumps(x, sort_keys=True))
    total = len(scripts)
    if total < 300:
        raise ToolError("too few scripts: %d" % total)
    keep = 300 if tier == "quick" else 2500
    rng = random.Random(seed())
    if total > keep:
        longest = max(len(s["ops"]) for s in scripts)
        long_ones = [s for s in scripts if len(s["ops"]) == longest]
        scripts = rng.sample(long_ones, min(len(long_ones), keep * 3 // 4)) + rng.sample(scripts, keep // 4)
    for k, s in enumerate(scripts):
        s["id"] = k
    sin, sout = os.path.join(wd, "scripts.ndjson"), os.path.join(wd, "out.ndjson")
    write_ndjson(sin, scripts)
    run_harness("vh-driver", ["x02", "run", sin, sout], timeout=3400)
    rows = read_ndjson(sout)
    if len(rows) != len(scripts):
        raise ToolError("x02: %d of %d" % (len(rows), len(scripts)))
    herr = [c for r in rows for c in r.get("checks", []) if "harness_err" in c]
    if herr or any(r.get("start_err") for r in rows):
        raise ToolError("x02 harness: %s" % (herr[:1] or [r["start_err"] for r in rows if r.get("start_err")][:1]))
    for r, s in zip(rows, scripts):
        r["init"], r["ops"] = s["init"], s["ops"]
    jp = os.path.join(wd, "j.ndjson")
    write_ndjson(jp, rows)
    acc, rr, rej = validate_trace("Trace_Topology", "Trace_Topology.cfg", jp, timeout=900)
    if not acc:
        raise ToolError("Trace_Topology did not consume its input (line %s)" % rej)
    for b in sorted({int(m.group(1)) - 1 for m in re.finditer(r'<<"BAD", (\d+)>>', rr.out)})[:6]:
        x = rows[b]
        v.violation("members at start %s, operations %s: at the checks the session saw %s" % (
            [0] + x["init"], [(o["op"], o["n"]) for o in x["ops"]],
            [(c["at"], [(n["slot"], n["gen"], n["dc"]) for n in c["view"]], "requests to", c["frames_to"], "errors", c["req_err"], "refresh ok", c["refresh_ok"]) for c in x["checks"]]), [x])
    nchecks = sum(len(r["checks"]) for r in rows)
    v.add(evaluations=nchecks, distinct_nontrivial=len(rows),
          rule="evaluation = one refresh + view + 12 requests judged against the model's membership; distinct = scripts executed",
          scripts_enumerated=total, scripts_executed=len(rows), checks=nchecks, trace_validation_states=rr.distinct)
    v.sample(rows[0])
    if not v.violations:
        base = next(r for r in rows if len(r["checks"]) >= 2 and len(r["checks"][-1]["view"]) >= 2)
        b1 = json.loads(json.dumps(base))
        b1["checks"][-1]["view"][-1]["gen"] += 1
        b2 = json.loads(json.dumps(base))
        b2["checks"][-1]["frames_to"] = [0, 1, 2, 3]
        b2["checks"][-1]["view"] = b2["checks"][-1]["view"][:1]
        pth = os.path.join(wd, "self.ndjson")
        write_ndjson(pth, [b1, b2])
        out = validate_trace("Trace_Topology", "Trace_Topology.cfg", pth)[1].out
        if '<<"BAD", 1>>' not in out or '<<"BAD", 2>>' not in out:
            raise ToolError("binding self-test failed")
        v.add(binding_selftest="a view with a stale host id and a view lacking members are both rejected")
    v.assumptions += ["the check refreshes explicitly (refresh_metadata); how soon the driver refreshes on its own after an event is not judged",
                      "whether every member receives one of the 12 requests is not judged (random plan order); only that no non-member does"]
    return v.finish()


def replay(path):
    for r in read_ndjson(path)[:3]:
        print(json.dumps(r)[:2000])
    return 0
