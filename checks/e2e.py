"""End-to-end phase shared by C06 and C13: ONE request through a real Session against the 3-node mock cluster whose nodes answer
the successive frames of the request from a TLC-generated script (MC_RetryE2E); the frames the cluster saw (node, consistency,
arrival / answer time) and the caller's outcome are judged by TLC (Trace_RetryE2E: RetryE2E.RetryOK / SpecOK; the decision
table itself is compared as drift)."""
import json
import os
import re

from common import ToolError, read_ndjson, run_harness, tlc, validate_trace, write_ndjson


def run_e2e(v, wd, tier, which):
    """which = "retry" (speculation off) | "spec" (speculation on). Adds violations / coverage to the Verdict v."""
    cfg = os.path.join(wd, "MC_RetryE2E.cfg")
    with open(cfg, "w") as f:
        f.write("SPECIFICATION Spec\nCONSTANTS Full = %s\nINVARIANTS Emit\nCHECK_DEADLOCK FALSE\n" % ("TRUE" if tier == "thorough" and which == "retry" else "FALSE"))
    g = tlc("MC_RetryE2E", cfg, workers=4, timeout=900, xmx="6g")
    if not g.ok() or not g.finished:
        raise ToolError("MC_RetryE2E failed: %s" % g.out[-400:])
    scen = [s for s in g.json_prints("SCEN") if (s["spec"]["max"] > 0) == (which == "spec")]
    scen.sort(key=lambda s: json.dumps(s, sort_keys=True))
    if tier == "quick" and which == "retry":
        scen = scen[::2] + [s for s in scen[1::2] if s.get("orphans")]
    if tier == "thorough" and len(scen) > 3000:
        import random
        from common import seed
        scen = random.Random(seed()).sample(scen, 3000)
    if len(scen) < 40:
        raise ToolError("too few e2e scenarios (%s): %d" % (which, len(scen)))
    for i, s in enumerate(scen):
        s["id"] = i
    sin, sout = os.path.join(wd, "e2e-%s.in.ndjson" % which), os.path.join(wd, "e2e-%s.out.ndjson" % which)
    write_ndjson(sin, scen)
    run_harness("vh-driver", ["e2e", "run", sin, sout], timeout=3400)
    outs = read_ndjson(sout)
    if len(outs) != len(scen):
        raise ToolError("e2e harness: %d of %d" % (len(outs), len(scen)))
    rows = []
    for s, o in zip(scen, outs):
        if o.get("start_err"):
            raise ToolError("e2e scenario could not be set up: %s" % o["start_err"][:200])
        o.update(kind=s["kind"], idem=s["idem"], policy=s["policy"], clname=s["cl"], spec=s["spec"], script=s["script"])
        rows.append(o)
    jp = os.path.join(wd, "e2e-%s.j.ndjson" % which)
    write_ndjson(jp, rows)
    acc, rr, rej = validate_trace("Trace_RetryE2E", "Trace_RetryE2E.cfg", jp, timeout=1800)
    if not acc:
        raise ToolError("Trace_RetryE2E did not consume its input (line %s)" % rej)
    bad = sorted({int(m.group(1)) - 1 for m in re.finditer(r'<<"BAD", (\d+)>>', rr.out)})
    drift = sorted({int(m.group(1)) - 1 for m in re.finditer(r'<<"DRIFT", (\d+)>>', rr.out)})
    for b in bad[:8]:
        x = rows[b]
        v.violation("end to end: %s statement, %sidempotent, %s policy, consistency %s, speculation %s, nodes scripted to answer %s: the cluster received (node, consistency, answer, in us, out us) %s and the caller got %s" % (
            x["kind"], "" if x["idem"] else "NOT ", x["policy"], x["clname"], x["spec"], [(s["r"], s["delay_ms"]) for s in x["script"]],
            [(f["node"], f["cl"], f["reply"], f["t_in"], f["t_out"]) for f in x["frames"]], "success" if x["ok"] else "an error (%s)" % x["err"][:80]), [x])
    if which == "retry":
        orph = [x for s, x in zip(scen, rows) if s.get("orphans")]
        live = sum(1 for x in orph if (x["idem"] == 0 and "orphan" in x["err"].lower()) or (x["idem"] == 1 and len(x["frames"]) >= 2))
        if orph and live == 0 and not bad:
            raise ToolError("e2e: in none of the %d orphan scenarios did the driver break the connection under the request (%s)" % (len(orph), [x["err"][:60] for x in orph]))
        v.add(e2e_orphan_break_scenarios=len(orph), e2e_orphan_break_scenarios_live=live)
    v.add(**{"e2e_%s_scenarios" % which: len(rows), "e2e_%s_frames" % which: sum(len(x["frames"]) for x in rows), "e2e_%s_table_drift" % which: len(drift)})
    if not bad:
        base = next(x for x in rows if len(x["frames"]) >= 2)
        b1 = json.loads(json.dumps(base))
        if which == "retry":
            b1["idem"] = 0
            b1["frames"][0]["reply"] = "overloaded"            # a re-send after 'overloaded' of a request that is not idempotent
            b1["frames"][-1]["reply"] = "ok"
            b1["ok"] = 1
        else:
            b1["idem"] = 0
            b1["frames"][1]["t_in"] = b1["frames"][0]["t_in"] + 1        # two frames in flight at once, not idempotent
            b1["frames"][0]["t_out"] = b1["frames"][0]["t_in"] + 100000
        pth = os.path.join(wd, "e2e-self.ndjson")
        write_ndjson(pth, [b1])
        if '<<"BAD", 1>>' not in validate_trace("Trace_RetryE2E", "Trace_RetryE2E.cfg", pth)[1].out:
            raise ToolError("binding self-test (e2e %s) failed" % which)
    return rows
