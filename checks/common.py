"""Shared machinery for /verif checks: cargo build of the harness, TLC runs,
trace validation, evidence and verdict handling.

Exit codes: 0 held, 1 VIOLATION (line printed), 2 tool error / vacuity / timeout.
"""
import json
import os
import re
import shutil
import subprocess
import sys
import time

VERIF = os.path.dirname(os.path.dirname(os.path.abspath(__file__)))
SPEC = os.path.join(VERIF, "spec")
HARNESS = os.path.join(VERIF, "harness")
WORK = os.path.join(VERIF, "work")
EVID = os.path.join(VERIF, "evidence")
REPLAY = os.path.join(VERIF, "replay")
KNOWN = os.path.join(VERIF, "known_findings.json")


class ToolError(Exception):
    pass


def log(*a):
    print("[check]", *a, file=sys.stderr, flush=True)


def seed():
    try:
        return int(os.environ.get("VERIF_SEED", "1"))
    except ValueError:
        return 1


def workdir(pid):
    d = os.path.join(WORK, pid)
    shutil.rmtree(d, ignore_errors=True)
    os.makedirs(d, exist_ok=True)
    return d


def cleanup(pid):
    if os.environ.get("VERIF_KEEP_WORK"):
        return
    shutil.rmtree(os.path.join(WORK, pid), ignore_errors=True)


_built = set()


def cargo_build(crate):
    """Builds the harness crate against /repo's current working tree (hooks on)."""
    if crate in _built:
        return os.path.join(HARNESS, "target", "debug", crate)
    lock = os.path.join(HARNESS, "Cargo.lock")
    if not os.path.exists(lock):
        shutil.copy("/repo/Cargo.lock", lock)
    env = dict(os.environ)
    env["CARGO_NET_OFFLINE"] = "true"
    env.pop("RUSTFLAGS", None)
    t0 = time.time()
    p = subprocess.run(
        ["cargo", "build", "--offline", "-q", "-p", crate],
        cwd=HARNESS, env=env, stdout=subprocess.PIPE, stderr=subprocess.STDOUT, text=True)
    if p.returncode != 0:
        sys.stderr.write(p.stdout[-6000:])
        raise ToolError("cargo build of %s failed (the tree under test must compile with --cfg scylla_verif)" % crate)
    log("cargo build %s: %.1fs" % (crate, time.time() - t0))
    _built.add(crate)
    return os.path.join(HARNESS, "target", "debug", crate)


def run_harness(crate, args, timeout=600, env_extra=None, stdin=None, allow_fail=False):
    binp = cargo_build(crate)
    env = dict(os.environ)
    if env_extra:
        env.update(env_extra)
    env.setdefault("RUST_BACKTRACE", "0")
    t0 = time.time()
    try:
        p = subprocess.run([binp] + [str(a) for a in args], env=env, input=stdin,
                           stdout=subprocess.PIPE, stderr=subprocess.PIPE, text=True, timeout=timeout)
    except subprocess.TimeoutExpired:
        raise ToolError("harness %s %s timed out after %ss" % (crate, args[:2], timeout))
    log("harness %s %s: rc=%s %.1fs" % (crate, " ".join(str(a) for a in args[:3]), p.returncode, time.time() - t0))
    if p.returncode != 0 and not allow_fail:
        sys.stderr.write(p.stderr[-4000:])
        raise ToolError("harness %s %s failed rc=%s" % (crate, args[:2], p.returncode))
    return p


class TlcResult:
    def __init__(self, out, rc):
        self.out = out
        self.rc = rc
        ms = re.findall(r"^(\d+) states generated, (\d+) distinct states found, \d+ states? left", out, re.M)
        m = ms[-1] if ms else None
        self.generated = int(m[0]) if m else 0
        self.distinct = int(m[1]) if m else 0
        # simulation mode
        m2 = re.search(r"The number of states generated: (\d+)", out)
        if m2 and not m:
            self.generated = int(m2.group(1))
            self.distinct = self.generated
        self.invariant_violated = re.findall(r"Invariant (\S+) is violated", out)
        self.property_violated = ("Temporal properties were violated" in out) or bool(
            re.search(r"Action property \S+ is violated", out))
        self.postcondition_false = "Postcondition" in out and "is false" in out or "violated" in out and "ostcondition" in out
        self.deadlock = "Deadlock reached" in out
        self.error = bool(re.search(r"^Error:", out, re.M)) or "Exception" in out and "tlc2" in out
        self.finished = "Model checking completed" in out or "Finished in" in out or "Finished computing" in out
        self.depth = 0
        m3 = re.search(r"The depth of the complete state graph search is (\d+)", out)
        if m3:
            self.depth = int(m3.group(1))

    def ok(self):
        return (not self.invariant_violated and not self.property_violated and not self.deadlock
                and not self.error and not self.postcondition_false)

    def prints(self, tag):
        """Lines printed by PrintT(<<"TAG", ...>>) -> list of raw inner strings."""
        res = []
        pat = re.compile(r'^<<"%s", (.*)>>$' % re.escape(tag))
        for line in self.out.splitlines():
            m = pat.match(line.strip())
            if m:
                res.append(m.group(1))
        return res

    def json_prints(self, tag):
        """PrintT(<<"TAG", ToJson(x)>>) -> parsed JSON values."""
        res = []
        for raw in self.prints(tag):
            raw = raw.strip()
            if raw.startswith('"'):
                s = json.loads(raw.replace("\\\\", "\\") if False else raw)
                res.append(json.loads(s))
            else:
                res.append(raw)
        return res

    def coverage_actions(self):
        """-coverage 1 output: <Action line ... of module M>: distinct:total"""
        cov = {}
        for m in re.finditer(r"^<(\w+) line \d+, col \d+ to line \d+, col \d+ of module (\w+)>: (\d+):(\d+)", self.out, re.M):
            cov[m.group(1)] = cov.get(m.group(1), 0) + int(m.group(4))
        return cov


def tlc(module, cfg=None, workers=4, timeout=900, env_extra=None, simulate=None, depth=None,
        coverage=False, extra=None, metadir=None, xmx="4g", deque=False, tlc_seed=None, cwd=SPEC):
    """Runs TLC on spec/<module>.tla. Returns TlcResult. Raises ToolError on timeout."""
    import uuid
    md = metadir or os.path.join(WORK, "tlc-%s-%d-%s" % (module, os.getpid(), uuid.uuid4().hex[:8]))
    shutil.rmtree(md, ignore_errors=True)
    os.makedirs(md, exist_ok=True)
    jopts = "-Xss1g"
    if deque:
        jopts += " -Dtlc2.tool.queue.IStateQueue=StateDeque"
    env = dict(os.environ)
    env["JAVA_TOOL_OPTIONS"] = jopts
    if env_extra:
        env.update(env_extra)
    cmd = ["java", "-XX:+UseParallelGC", "-Xmx" + xmx, "-cp",
           "/opt/veriftools/tla/tla2tools.jar:/opt/veriftools/tla/CommunityModules-deps.jar",
           "tlc2.TLC", "-workers", str(workers), "-metadir", md, "-cleanup", "-noGenerateSpecTE"]
    if simulate:
        cmd += ["-simulate", "num=%d" % simulate]
        if depth:
            cmd += ["-depth", str(depth)]
    if tlc_seed is not None:
        cmd += ["-seed", str(tlc_seed)]
    if coverage:
        cmd += ["-coverage", "1"]
    if extra:
        cmd += extra
    cmd += ["-config", cfg or (module + ".cfg"), module + ".tla"]
    t0 = time.time()
    for attempt in range(3):
        try:
            p = subprocess.run(cmd, cwd=cwd, env=env, stdout=subprocess.PIPE, stderr=subprocess.STDOUT,
                               text=True, timeout=timeout)
        except subprocess.TimeoutExpired:
            shutil.rmtree(md, ignore_errors=True)
            raise ToolError("TLC %s timed out after %ss" % (module, timeout))
        # a JVM that did not come up (memory reservation, fork failure under load) is an environment hiccup: retry, and keep its words
        if "TLC2 Version" in p.stdout and ("Finished in" in p.stdout or "Finished computing" in p.stdout):
            break
        try:
            os.makedirs(os.path.join(WORK, "logs"), exist_ok=True)
            with open(os.path.join(WORK, "logs", "tlc-incomplete.log"), "a") as f:
                f.write("=== %s %s attempt %d rc=%s\n%s\n" % (module, cfg, attempt, p.returncode, p.stdout[-3000:]))
        except OSError:
            pass
        time.sleep(2)
        shutil.rmtree(md, ignore_errors=True)
        os.makedirs(md, exist_ok=True)
    shutil.rmtree(md, ignore_errors=True)
    r = TlcResult(p.stdout, p.returncode)
    r.wall = time.time() - t0
    log("tlc %s/%s: %d generated, %d distinct, rc=%d, %.1fs" % (module, cfg or "", r.generated, r.distinct, p.returncode, r.wall))
    return r


def _find_cm_jar():
    for c in ("/opt/veriftools/tla/CommunityModules-deps.jar", "/opt/veriftools/tla/CommunityModules.jar"):
        if os.path.exists(c):
            return c
    return None


def validate_trace(module, cfg, trace_path, timeout=900, xmx="4g", env_extra=None):
    """Trace validation: runs Trace_X with TRACE=<path>. Returns (accepted, TlcResult, rejected_line)."""
    env = {"TRACE": os.path.abspath(trace_path)}
    if env_extra:
        env.update(env_extra)
    r = tlc(module, cfg, workers=1, timeout=timeout, env_extra=env, deque=True, xmx=xmx)
    rej = None
    m = re.search(r'<<"REJECTED at line", (\d+)', r.out)
    if m:
        rej = int(m.group(1))
    if r.error and not r.postcondition_false and not r.invariant_violated and rej is None:
        sys.stderr.write(r.out[-3000:])
        raise ToolError("TLC error during trace validation of %s" % module)
    accepted = r.ok() and rej is None and r.finished
    return accepted, r, rej


def write_ndjson(path, rows):
    with open(path, "w") as f:
        for r in rows:
            f.write(json.dumps(r, separators=(",", ":")) + "\n")


def read_ndjson(path):
    rows = []
    with open(path) as f:
        for line in f:
            line = line.strip()
            if line:
                rows.append(json.loads(line))
    return rows


def known_findings(pid):
    if not os.path.exists(KNOWN):
        return []
    with open(KNOWN) as f:
        data = json.load(f)
    return [k for k in data.get("findings", []) if k.get("property") == pid and k.get("status") == "known"]


class Verdict:
    """Collects results of the phases of one check and produces evidence + exit code."""

    def __init__(self, pid, tier, level):
        self.pid = pid
        self.tier = tier
        self.level = level
        self.t0 = time.time()
        self.coverage = {}
        self.assumptions = []
        self.violations = []   # list of (description, replay rows)
        self.known_seen = []
        self.notes = []

    def add(self, **kw):
        for k, v in kw.items():
            if isinstance(v, int) and isinstance(self.coverage.get(k), int) and k in (
                    "states", "transitions", "traces_validated_against_impl", "evaluations", "distinct_nontrivial"):
                self.coverage[k] += v
            else:
                self.coverage[k] = v

    def sample(self, s, cap=6):
        lst = self.coverage.setdefault("samples", [])
        if len(lst) < cap:
            lst.append(s)

    def violation(self, desc, replay_rows=None, key=None):
        """key: stable identifier of the failing input, matched against known_findings.json."""
        for k in known_findings(self.pid):
            if key is not None and k.get("key") == key:
                if key not in [x[0] for x in self.known_seen]:
                    self.known_seen.append((key, k.get("what", desc)))
                return False
        self.violations.append((desc, replay_rows or [{"desc": desc}]))
        return True

    def finish(self):
        evid = EVID if not self.pid.startswith("X") else os.path.join(VERIF, "evidence_extra")   # extras are not listed properties
        os.makedirs(evid, exist_ok=True)
        wall = time.time() - self.t0
        for key, what in self.known_seen:
            print("KNOWN-FINDING: property=%s %s" % (self.pid, what))
        self.coverage["known_findings_reobserved"] = [k for k, _ in self.known_seen]
        if not self.coverage.get("samples"):
            self.coverage["samples"] = [{"violation": self.violations[0][0][:500]} if self.violations else {"note": "no sample recorded"}]
        if self.notes:
            self.coverage["notes"] = self.notes
        ev = {
            "property_id": self.pid, "tier": self.tier, "seed": seed(), "level": self.level,
            "coverage": self.coverage, "assumptions": self.assumptions,
            "wall_s": round(wall, 2), "violations": len(self.violations),
        }
        with open(os.path.join(evid, self.pid + ".json"), "w") as f:
            json.dump(ev, f, indent=1, default=str)
        if self.violations:
            os.makedirs(REPLAY, exist_ok=True)
            path = os.path.join(REPLAY, "%s-%d.ndjson" % (self.pid, seed()))
            with open(path, "w") as f:
                for desc, rows in self.violations:
                    f.write(json.dumps({"violation": desc}) + "\n")
                    for r in rows:
                        f.write(json.dumps(r, default=str) + "\n")
            for desc, _ in self.violations[:5]:
                log("violation:", desc)
            print("VIOLATION property=%s replay=%s" % (self.pid, path))
            return 1
        print("OK property=%s tier=%s wall=%.1fs" % (self.pid, self.tier, wall))
        return 0


def parallel_harness(crate, argv_fn, rows, wd, nproc=8, timeout=900, tag="chunk"):
    """Splits `rows` into nproc chunk files, runs `crate argv_fn(inp, out)` on each in parallel.
    Returns (list of output paths, list of parsed stdout json summaries)."""
    import concurrent.futures
    cargo_build(crate)
    nproc = max(1, min(nproc, len(rows)))
    chunks = [rows[i::nproc] for i in range(nproc)]
    jobs = []
    for i, ch in enumerate(chunks):
        inp = os.path.join(wd, "%s-%d.in.ndjson" % (tag, i))
        out = os.path.join(wd, "%s-%d.out.ndjson" % (tag, i))
        write_ndjson(inp, ch)
        jobs.append((inp, out))
    outs, sums = [], []
    with concurrent.futures.ThreadPoolExecutor(max_workers=nproc) as ex:
        futs = [ex.submit(run_harness, crate, argv_fn(inp, out), timeout) for inp, out in jobs]
        for f, (inp, out) in zip(futs, jobs):
            p = f.result()
            outs.append(out)
            try:
                sums.append(json.loads(p.stdout.strip().splitlines()[-1]))
            except Exception:
                sums.append({})
    return outs, sums


def split_traces(paths, keep=None, begin="Begin", reset="Reset"):
    """Reads concatenated traces; yields (begin_row, [rows...including Reset])."""
    for path in paths:
        cur = None
        beg = None
        with open(path) as f:
            for line in f:
                line = line.strip()
                if not line:
                    continue
                r = json.loads(line)
                if r.get("ev") == begin:
                    beg = r
                    cur = []
                    continue
                if cur is None:
                    cur = []
                if keep is None or keep(r):
                    cur.append(r)
                if r.get("ev") == reset:
                    yield beg, cur
                    cur = None
                    beg = None


def validate_distinct(module, cfg, traces, wd, name="obs", timeout=1200, per_file=4000):
    """traces: list of lists of rows (each ending with Reset). Dedupes, validates in batches.
    Returns (n_distinct, n_states, first_rejected_trace or None)."""
    seen = {}
    for t in traces:
        k = json.dumps(t, sort_keys=True, separators=(",", ":"))
        seen[k] = seen.get(k, 0) + 1
    distinct = [json.loads(k) for k in seen]
    states = 0
    for b in range(0, len(distinct), per_file):
        batch = distinct[b:b + per_file]
        path = os.path.join(wd, "%s-%d.ndjson" % (name, b))
        rows = [r for t in batch for r in t]
        write_ndjson(path, rows)
        acc, r, rej = validate_trace(module, cfg, path, timeout=timeout)
        states += r.distinct
        if not acc:
            # locate the rejected trace
            bad = None
            if rej is not None:
                n = 0
                for t in batch:
                    if n + len(t) >= rej:
                        bad = t
                        break
                    n += len(t)
            if bad is None:
                # bisect by validating one by one
                for t in batch:
                    write_ndjson(path, t)
                    a2, _, _ = validate_trace(module, cfg, path, timeout=timeout)
                    if not a2:
                        bad = t
                        break
            return len(distinct), states, (bad or batch[0])
    return len(distinct), states, None
