"""C03 — routing token equals the server-side partitioner's token.

Reference: Murmur3.tla (Cassandra's hash3_x64_128 with the signed-byte tail, MIN->MAX normalisation,
partition-key encoding in KEY order, CDC partitioner) on U64 limb arithmetic; checked against the known
token of the empty input. TLC generates the case table (key lengths around every block boundary x byte
patterns incl. all bytes >= 0x80; every injective placement of up to 3 key components among up to 5 bind
markers x component lengths); the harness feeds every key to the real hasher under all chunkings
(exhaustive for <= 10 bytes, every single cut + boundary-straddling + random cuts + empty writes beyond)
and builds PreparedStatements from RESULT/Prepared bodies through the real parser to call calculate_token /
compute_partition_key; random keys to 300 bytes and up to 8 components among 16 markers are added.
Every recorded (input, encoded key, token) is judged by TLC against the reference (Trace_Murmur3).
"""
import json
import os

from common import SPEC, ToolError, Verdict, read_ndjson, run_harness, seed, tlc, validate_trace, workdir, write_ndjson

PID = "C03"

CFG = """SPECIFICATION Spec
CONSTANTS
  Lens = {%s}
  Pats = {0, 1, 2}
  MaxMarkers = %d
  MaxKey = %d
  CompLens = {%s}
INVARIANTS Emit
CHECK_DEADLOCK FALSE
"""


def run(tier):
    v = Verdict(PID, tier, "exploration")
    wd = workdir(PID)
    thorough = tier == "thorough"
    lens = "0, 1, 2, 7, 8, 9, 15, 16, 17, 31, 32, 33, 47, 48, 49, 64, 65, 70" if not thorough else ", ".join(str(i) for i in list(range(0, 71)) + [79, 80, 81, 95, 96, 97, 127, 128, 129, 255, 256, 257])
    mm, mk, cl = (5, 3, "0, 1, 8, 16, 17") if not thorough else (6, 4, "0, 1, 7, 8, 15, 16, 17, 40")
    with open(os.path.join(SPEC, "_mc_c03.cfg"), "w") as f:
        f.write(CFG % (lens, mm, mk, cl))
    r = tlc("MC_Murmur3", "_mc_c03.cfg", workers=8, timeout=3000, xmx="8g")
    os.remove(os.path.join(SPEC, "_mc_c03.cfg"))
    if not r.ok() or not r.finished:
        raise ToolError("Murmur3 reference failed its sanity assumptions: %s" % r.out[-500:])
    cases = r.json_prints("CASE")
    inp = os.path.join(wd, "cases.ndjson")
    outp = os.path.join(wd, "out.ndjson")
    write_ndjson(inp, cases)
    nrh, nrp = (3000, 3000) if thorough else (300, 400)
    p = run_harness("vh-driver", ["c03", "run", inp, outp, seed(), nrh, nrp], timeout=3000)
    summ = json.loads(p.stdout.strip().splitlines()[-1])
    rows = read_ndjson(outp)
    st = 0
    B = 4000
    for b in range(0, len(rows), B):
        part = os.path.join(wd, "part-%d.ndjson" % b)
        write_ndjson(part, rows[b:b + B])
        acc, rr, rej = validate_trace("Trace_Murmur3", "Trace_Murmur3.cfg", part, timeout=3000)
        st += rr.distinct
        if not acc:
            bad = rows[b + (rej or 1) - 1]
            if bad.get("kind") in ("panic", "error"):
                v.violation("token computation failed: %s" % bad.get("msg"), [bad])
            elif bad.get("kind") == "cdchash":
                v.violation("CDC partitioner's hasher gives a token that is not the first 8 key bytes (minimum token for a shorter key) for a %d-byte key (%d chunkings tried; token le-bytes %s): data=%s" % (
                    len(bad["data"]), bad["chunkings"], bad["token"], bad["data"][:40]), [bad])
            elif bad.get("kind") == "hash":
                v.violation("Murmur3 hasher disagrees with the partitioner's token for a %d-byte key (%d chunkings tried; token le-bytes %s): data=%s" % (
                    len(bad["data"]), bad["chunkings"], bad["token"], bad["data"][:40]), [bad])
            else:
                v.violation("prepared-statement token / encoded key wrong: markers=%s key component markers (key order)=%s cdc=%s encoded=%s token=%s token through the CachingSession handle=%s" % (
                    bad["markers"], bad["pkidx"], bad["cdc"], bad["encoded"][:40], bad["token"], bad.get("token_cached")), [bad])
            break
    distinct = len({json.dumps([r_.get("kind") == "cdchash", r_.get("data"), r_.get("pkidx"), r_.get("values"), r_.get("cdc")]) for r_ in rows})
    v.add(evaluations=summ.get("hasher_runs", 0) + sum(1 for r_ in rows if r_.get("kind") == "pk"),
          distinct_nontrivial=distinct,
          rule="evaluation = one run of the real hasher under one chunking, or one calculate_token+compute_partition_key call; "
               "distinct = distinct inputs (key bytes / marker placement+values+partitioner); all judged by TLC against Murmur3.tla",
          spec_cases=len(cases), random_hash_cases=nrh, random_pk_cases=nrp, records_judged=len(rows), trace_validation_states=st)
    v.sample(next((r_ for r_ in rows if r_.get("kind") == "hash" and len(r_["data"]) > 16), None))
    v.sample(next((r_ for r_ in rows if r_.get("kind") == "pk" and len(r_["pkidx"]) > 1), None))
    if not v.violations:
        base = next(r_ for r_ in rows if r_.get("kind") == "pk" and len(r_["pkidx"]) > 1)
        bad = dict(base, token=[(base["token"][0] + 1) % 256] + base["token"][1:])
        pth = os.path.join(wd, "self.ndjson")
        write_ndjson(pth, [bad])
        a, _, _ = validate_trace("Trace_Murmur3", "Trace_Murmur3.cfg", pth)
        if a:
            raise ToolError("binding self-test failed")
        v.add(binding_selftest="record with a wrong token rejected")
    v.assumptions += ["reference transcribed from Cassandra's MurmurHash.hash3_x64_128 (seed 0, sign-extended tail bytes) and cross-checked once against an independent implementation; the empty-input token 0 is asserted on every run",
                      "all bind markers are blobs, so a component's bytes are the bound bytes (value encoding is C01's subject)",
                      "partitioner selection by table name follows Session::extract_partitioner_name (name ends with CDCPartitioner)"]
    return v.finish()


def replay(path):
    for r in read_ndjson(path)[:5]:
        print(json.dumps(r)[:500])
    return 0
