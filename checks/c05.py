"""C05 — default load-balancing plans: complete, duplicate-free, correctly ordered.

Judge: Plan.tla (on top of Replicas.tla): P1 no target twice (policy's own sameness), P2 only permitted
nodes (enabled; preferred DC unless failover), P3 every permitted token owner present, P4 class order
(live replica in preferred rack < in preferred DC < other live replica < other live node < node believed
down), P5 for LWT / serial consistency the replicas follow the single ring order whatever the random state.
The topology table comes from TLC (MC_Replicas); for each topology the harness builds a real ClusterState,
draws (seeded) enabled/connected assignments, sharders, policy settings (token awareness, Any / DC / DC+rack /
nonexistent DC / inherited preference, failover, shuffling) and requests (token at a ring entry or in a gap
or none, table / keyspace known or not, confirmed LWT, serial consistency), and records pick + fallback, the
Plan iterator and three more plans under fresh random state. TLC judges every record (Trace_Plan).
"""
import concurrent.futures
import json
import os
import random

from common import (SPEC, ToolError, Verdict, cargo_build, read_ndjson, run_harness, seed, tlc, validate_trace, workdir,
                    write_ndjson)

PID = "C05"


def run(tier):
    v = Verdict(PID, tier, "exploration")
    wd = workdir(PID)
    thorough = tier == "thorough"
    with open(os.path.join(SPEC, "_mc_c05.cfg"), "w") as f:
        f.write("SPECIFICATION Spec\nCONSTANTS MaxNodes = 4\nINVARIANTS SimpleLemma NtsLemma Emit\nCHECK_DEADLOCK FALSE\n")
    r = tlc("MC_Replicas", "_mc_c05.cfg", workers=8, timeout=3000)
    os.remove(os.path.join(SPEC, "_mc_c05.cfg"))
    if not r.ok() or not r.finished:
        raise ToolError("Replicas reference violates its lemmas")
    topos = r.json_prints("TOPO")
    rnd = random.Random(seed())
    topos = [t for t in topos if len(t["attr"]) >= 2]
    per = 400 if thorough else 90
    if not thorough:
        topos = rnd.sample(topos, 240)
    cargo_build("vh-driver")
    nchunks = 8

    def one(c):
        inp = os.path.join(wd, "topo-%d.ndjson" % c)
        outp = os.path.join(wd, "out-%d.ndjson" % c)
        write_ndjson(inp, topos[c::nchunks])
        p = run_harness("vh-driver", ["c05", "run", inp, outp, seed() + c, per], timeout=3000)
        summ = json.loads(p.stdout.strip().splitlines()[-1])
        acc, rr, rej = validate_trace("Trace_Plan", "Trace_Plan.cfg", outp, timeout=3000, xmx="3g")
        return summ, acc, rr.distinct, rej, outp

    nplans = st = 0
    sample = None
    feats = {}
    with concurrent.futures.ThreadPoolExecutor(max_workers=8) as ex:
        for summ, acc, dist, rej, outp in ex.map(one, range(nchunks)):
            nplans += summ.get("plans", 0)
            st += dist
            rows = read_ndjson(outp)
            for row in rows:
                if "panic" in row:
                    continue
                k = (row["pref"][0], row["failover"], row["lwt"], row["tokenaware"], row["strat"]["kind"], int(row["q"] > 0))
                feats[k] = feats.get(k, 0) + 1
            if not acc:
                bad = rows[(rej or 1) - 1]
                if "panic" in bad:
                    v.violation("default policy panicked: %s" % bad["panic"], [bad])
                else:
                    v.violation("plan violates the load-balancing property: ring=%s attr=%s strategy=%s token_pos=%s enabled=%s alive=%s pref=%s inherit=%s failover=%s token_aware=%s lwt=%s serial=%s -> plan=%s variants=%s" % (
                        bad["ring"], bad["attr"], json.dumps(bad["strat"]), bad["q"], bad["en"], bad["al"], bad["pref"], bad["inherit"],
                        bad["failover"], bad["tokenaware"], bad["lwt"], bad.get("serial"), bad["plan"], bad["variants"]), [bad])
            elif sample is None and rows:
                sample = next((x for x in rows if x.get("lwt") == 1 and len(x.get("plan", [])) > 2), rows[0])
    v.add(evaluations=nplans, distinct_nontrivial=len(feats),
          rule="evaluation = one (cluster state, liveness assignment, policy setting, request) with pick+fallback, the Plan iterator and 3 re-computations recorded; "
               "distinct_nontrivial = number of distinct (preference kind, failover, LWT, token-aware, strategy kind, token present) feature combinations hit; all judged by TLC against Plan.tla",
          topologies=len(topos), plans_per_topology=per, trace_validation_states=st)
    if sample:
        v.sample(sample)
    if not v.violations and sample and len(sample.get("plan", [])) >= 2:
        bad = json.loads(json.dumps(sample))
        bad["plan"].append(bad["plan"][0])
        pth = os.path.join(wd, "self.ndjson")
        write_ndjson(pth, [bad])
        a, _, _ = validate_trace("Trace_Plan", "Trace_Plan.cfg", pth)
        if a:
            raise ToolError("binding self-test failed")
        v.add(binding_selftest="plan with a duplicated target rejected")
    v.assumptions += ["liveness and sharding of nodes are injected through the cfg(scylla_verif) per-node override (the nodes have no pools)",
                      "latency-aware reordering is off; tablets are C12/C15's subject",
                      "nothing is required about the relative order of targets of the same class"]
    return v.finish()


def replay(path):
    for r in read_ndjson(path)[:5]:
        print(json.dumps(r)[:800])
    return 0
