"""C15 — tablet map: disjoint sorted ranges, latest-wins lookup, per-DC = restriction of full list.

 1. TLC: Tablets.tla — implementation-shaped sorted vector (the two partition_points of add_tablet, the
    one of lookup, the maintenance drop rule) refines the property-level "latest learnt alive tablet" map.
 2. The op alphabet of that model (printed by TLC) is walked as a tree, depth-first, on the real
    ClusterState (real payload parser, update_tablets, new_updated -> perform_maintenance); after every
    step the range list and the lookup of every probe position (all DCs) is recorded.
 3. TLC judges the whole walk against TabletsOps (Trace_TabletsProp; Pop = back to the parent state).
 4. Long random histories over the full i64 range (rank-compressed to positions), same judge.
 5. Binding self-test.
"""
import concurrent.futures
import copy
import json
import os

from common import (SPEC, ToolError, Verdict, log, read_ndjson, run_harness, cargo_build, seed, tlc, validate_trace,
                    workdir, write_ndjson)

PID = "C15"
MIN = -2 ** 63
MAX = 2 ** 63 - 1
UNIVERSE = {3: [MIN + 1, -7, MAX], 4: [MIN + 1, -7, 8, MAX], 5: [MIN + 1, MIN + 2, -7, 8, MAX]}


def mc_cfg(nt, maxops):
    return """SPECIFICATION Spec
CONSTANTS
  NT = %d
  Nodes = {1, 2, 3}
  DCs = {"dc1", "dc2", "dc3"}
  RepLists <- MCRepLists
  InitKnown = {1, 2}
  InitDc <- MCInitDc
  MaintOps <- MCMaintOps
  MaxOps = %d
VIEW View
INVARIANTS SortedDisjoint ListIsAlive AliveDisjoint LookupAgrees NoStaleNodes
CHECK_DEADLOCK FALSE
""" % (nt, maxops)


def first_rejected(rows, rej):
    """Returns the path of operations from the root to the rejected line (DFS with Pop)."""
    path = []
    for i, r in enumerate(rows[:rej]):
        ev = r.get("ev")
        if ev in ("Ins", "Maint"):
            path.append((i, r))
        elif ev == "Pop":
            if path:
                path.pop()
        elif ev in ("Init", "Reset"):
            path = []
    return path


def describe(rows, rej):
    path = first_rejected(rows, rej)
    ops = [{k: v for k, v in r.items()} for _, r in path]
    bad = rows[rej - 1] if rej and rej <= len(rows) else {}
    return ops, bad


def classify(ops, bad):
    """Stable key of a finding: the shape of the failing history (used for known_findings)."""
    # per-DC answer disagrees with the restriction of the full answer after a node changed datacentre
    if bad.get("ev") == "Obs":
        for e in bad.get("look", []):
            allr = e["all"]["reps"]
            for d in e["dcs"]:
                want = [r for r in allr if r[1] == d["dc"]]
                if d["ans"]["hit"] == 1 and d["ans"]["reps"] != want:
                    return "per-dc-answer-not-restriction-of-full-answer"
    return None


def run(tier):
    v = Verdict(PID, tier, "model_checking")
    wd = workdir(PID)
    thorough = tier == "thorough"
    nt, depth = (4, 3) if thorough else (3, 3)

    # 1. design model
    name = "_mc_c15.cfg"
    with open(os.path.join(SPEC, name), "w") as f:
        f.write(mc_cfg(nt, 4))
    r = tlc("MC_Tablets", name, workers=8, coverage=True, timeout=3000, xmx="8g")
    os.remove(os.path.join(SPEC, name))
    if not r.ok() or not r.finished:
        raise ToolError("Tablets model violates its invariants: %s %s" % (r.invariant_violated, r.out[-400:]))
    cov = r.coverage_actions()
    if not cov.get("Insert") or not cov.get("Maintain"):
        raise ToolError("vacuity %s" % cov)
    alph = r.json_prints("ALPHABET")
    if not alph:
        raise ToolError("no ALPHABET line from TLC")
    alph = alph[0]
    v.add(states=r.distinct, transitions=r.generated, model_bounds={"NT": nt, "MaxOps": 4, "nodes": 3, "dcs": 3},
          coverage_actions=cov)

    # 2. walk the tree on the real code, in parallel chunks
    ins = [o for o in alph["ins"] if o["f"] <= o["l"]]
    maint = alph["maint"]
    cargo_build("vh-driver")
    drift_all = []

    def walk(tokens, ins_ops, maint_ops, dep, tag, nchunks=12):
        jobs = []
        for c in range(nchunks):
            cfgp = os.path.join(wd, "%s-%d.json" % (tag, c))
            outp = os.path.join(wd, "%s-%d.ndjson" % (tag, c))
            json.dump({"tokens": [str(t) for t in tokens], "depth": dep, "init_known": [1, 2],
                       "init_dc": ["dc1", "dc2", "dc1"], "ins": ins_ops, "maint": maint_ops, "chunk": c, "nchunks": nchunks},
                      open(cfgp, "w"))
            jobs.append((cfgp, outp))

        def one(job):
            cfgp, outp = job
            p = run_harness("vh-driver", ["c15", "walk", cfgp, outp], timeout=3000)
            summ = json.loads(p.stdout.strip().splitlines()[-1])
            acc, rr, rej = validate_trace("Trace_TabletsProp", "Trace_TabletsProp.cfg", outp, timeout=3000, xmx="3g")
            drift = sorted(set(l for l in rr.out.splitlines() if "DRIFT" in l))[:5]
            return summ, acc, rr.distinct, rej, outp, drift

        nodes = 0
        states = 0
        with concurrent.futures.ThreadPoolExecutor(max_workers=6) as ex:
            results = list(ex.map(one, jobs))
        for summ, acc, dist, rej, outp, drift in results:
            nodes += summ.get("nodes", 0)
            states += dist
            drift_all.extend(drift)
            if summ.get("panics"):
                rows = read_ndjson(outp)
                i = next(k for k, r in enumerate(rows) if r.get("ev") == "Panic")
                ops, _ = describe(rows, i + 1)
                v.violation("panic in tablet bookkeeping: %s after history %s" % (
                    json.dumps(rows[i])[:300], json.dumps(ops)[:400]), ops + [rows[i]])
            if not acc:
                rows = read_ndjson(outp)
                ops, bad = describe(rows, rej or 1)
                key = classify(ops, bad)
                v.violation("history on the real TabletsInfo is not explained by the tablet-map specification: ops=%s" % (
                    json.dumps([{k: o[k] for k in o if k != "ev"} | {"op": o["ev"]} for o in ops])[:600]),
                    ops + [bad], key=key)
        return nodes, states, jobs

    nodes, states, jobs = walk(UNIVERSE[nt], ins, maint, depth, "walk")
    v.add(traces_validated_against_impl=nodes, tree_nodes=nodes, tree_depth=depth, alphabet={"ins": len(ins), "maint": len(maint), "bad_payloads": 4},
          universe=[str(t) for t in UNIVERSE[nt]], trace_validation_states=states, exhaustive=True)
    v.sample({"insert_op": ins[0], "maint_op": maint[0]})

    # 2b. deeper walk over a narrow alphabet (2 universe tokens, replica lists with an unknown node,
    #     maintenance that adds / re-creates / removes): multi-step interplay of unknown replicas and refreshes
    ins_n = [{"f": f, "l": l, "reps": r} for (f, l) in ((2, 2), (2, 4), (4, 4)) for r in ([[1, 0], [2, 1]], [[2, 0], [3, 1]])]
    maint_n = [m for m in maint if sorted(m["known"]) != [1, 2] or list(m["dc"]) != ["dc1", "dc2", "dc1"]]
    dn = 5 if thorough else 4
    nodes2, states2, _ = walk([-7, 8], ins_n, maint_n, dn, "deep")
    v.add(traces_validated_against_impl=nodes2, deep_walk={"nodes": nodes2, "depth": dn, "ins": len(ins_n), "maint": len(maint_n)},
          trace_validation_states=states + states2)

    # 4. random long histories over i64
    n, ln = (1500, 14) if thorough else (150, 12)
    rp = os.path.join(wd, "random.ndjson")
    p = run_harness("vh-driver", ["c15", "random", n, ln, seed(), rp], timeout=3000)
    acc, rr, rej = validate_trace("Trace_TabletsProp", "Trace_TabletsProp.cfg", rp, timeout=3000)
    drift_all.extend(sorted(set(l for l in rr.out.splitlines() if "DRIFT" in l))[:5])
    if not acc:
        rows = read_ndjson(rp)
        # history = ops since the last Init
        start = max(i for i, r in enumerate(rows[:rej]) if r.get("ev") == "Init")
        ops = [r for r in rows[start:rej] if r.get("ev") in ("Init", "Ins", "Maint")]
        bad = rows[rej - 1]
        v.violation("random i64 history not explained by the tablet-map specification (first mismatch after %d ops)" % (len(ops) - 1),
                    ops + [bad], key=classify(ops, bad))
    v.add(traces_validated_against_impl=n, random_histories=n, random_len=ln)
    rows = read_ndjson(rp)
    v.sample({"random_history_prefix": [r for r in rows[:12] if r.get("ev") in ("Ins", "Maint")][:4]})

    # 5. binding self-test: corrupt one lookup answer in a small accepted trace
    if not v.violations and not v.known_seen:
        rows = read_ndjson(jobs[0][1])[:40]
        # cut at a point where the stack is consistent: keep prefix up to and including the first Pop
        cut = next((i for i, r in enumerate(rows) if r.get("ev") == "Pop"), len(rows) - 1)
        rows = rows[:cut + 1]
        t1 = copy.deepcopy(rows)
        done = False
        for r in t1:
            if r.get("ev") == "Obs" and r["ranges"]:
                for e in r["look"]:
                    if e["all"]["hit"] == 1:
                        e["all"]["hit"] = 0
                        done = True
                        break
            if done:
                break
        t2 = [r for r in rows if r.get("ev") != "Ins"]
        for nm, tt in (("corrupt", t1), ("removed", t2)):
            pth = os.path.join(wd, "self-%s.ndjson" % nm)
            write_ndjson(pth, tt)
            a, _, _ = validate_trace("Trace_TabletsProp", "Trace_TabletsProp.cfg", pth)
            if a and done:
                raise ToolError("binding self-test failed: %s trace accepted" % nm)
        v.add(binding_selftest="corrupted lookup and removed insert event both rejected")
    v.add(drift=sorted(set(drift_all))[:10])
    v.assumptions += ["nodes are built disabled (no pools); tablet bookkeeping does not depend on connectivity",
                      "token positions: universe tokens embedded order-preservingly in i64 incl. MIN+1 and MAX; i64::MIN is not a token",
                      "maintenance is driven through ClusterState::new_updated exactly as a metadata refresh does"]
    return v.finish()


def replay(path):
    rows = read_ndjson(path)
    print("replay file holds the failing history (operations from the initial state and the rejected observation):")
    for r in rows[:12]:
        print(json.dumps(r)[:300])
    return 0
