"""X01 (not a listed property; growth of the specification, DESIGN.md section 7) - waiting for schema agreement.

Session::await_schema_agreement polls every node's schema version once per interval. SchemaAgreement.tla: Ok(v) only for a round
in which every node answered v (never while two nodes differ); a non-transient error ends the wait with that error; otherwise
the wait goes on until the time is up and then yields the last transient error or Timeout; it always ends.
 1. TLC: the model over ALL scripts of 2 nodes x up to 3 scripted rounds over {A, B, T, R, F, U} (66 564 scripts): the four
    invariants, termination, and FunctionAgrees (the model's outcome is always one the pure function Possible allows).
    Reachability controls: each outcome kind is reached (the negated invariant is violated).
 2. Conformance: TLC-generated scripts (2 and 3 nodes) are played by mock nodes to a real Session (interval 25 ms, timeout
    400 ms); result, elapsed time and polls per node are judged by TLC (Trace_SchemaAgreement.tla) with the same function.
"""
import json
import os
import random
import re

from common import SPEC, ToolError, Verdict, read_ndjson, run_harness, seed, tlc, validate_trace, workdir, write_ndjson

PID = "X01"


def run(tier):
    v = Verdict(PID, tier, "model_checking")
    wd = workdir(PID)
    r = tlc("MC_SA1", "MC_SA1.cfg", workers=4, timeout=1200, xmx="6g")
    if not r.finished or r.error:
        if r.invariant_violated or "violated" in r.out:
            v.violation("SchemaAgreement.tla violates one of its own properties: %s" % r.out[-600:], [])
            return v.finish()
        raise ToolError("MC_SA1 failed: %s" % r.out[-400:])
    # each outcome kind must be reachable (else the invariants are vacuous)
    reach = {}
    for name, inv in (("ok", 'result[1] # "ok"'), ("fatal", '~(result[1] = "err" /\\ result[2] \\in Fatal)'), ("timeout", 'result[1] # "timeout"'),
                      ("transient", '~(result[1] = "err" /\\ result[2] \\in Transient)')):
        mod = "MC_SA1_reach_%s" % name
        with open(os.path.join(SPEC, mod + ".tla"), "w") as f:
            f.write("---- MODULE %s ----\nEXTENDS MC_SA1\nNever == %s\n====\n" % (mod, inv))
        with open(os.path.join(SPEC, mod + ".cfg"), "w") as f:
            f.write("SPECIFICATION Spec\nCONSTANTS\n  Nodes = {1, 2}\n  MaxRounds = 5\n  Scripts <- ScriptsC\nINVARIANTS Never\nCHECK_DEADLOCK FALSE\n")
        try:
            rr = tlc(mod, mod + ".cfg", workers=2, timeout=600)
        finally:
            for ext in (".tla", ".cfg"):
                os.remove(os.path.join(SPEC, mod + ext))
        reach[name] = bool(rr.invariant_violated)
    if not all(reach.values()):
        raise ToolError("vacuity: outcome kinds not reachable in the model: %s" % reach)
    g = tlc("MC_SchemaAgreement", "MC_SchemaAgreement.cfg", workers=2, timeout=300)
    if not g.ok() or not g.finished:
        raise ToolError("MC_SchemaAgreement failed: %s" % g.out[-300:])
    scripts = sorted(g.json_prints("SCRIPT"), key=lambda x: json.dumps(x))
    if len(scripts) < 1500:
        raise ToolError("too few scripts: %d" % len(scripts))
    total = len(scripts)
    keep = 260 if tier == "quick" else 1900
    if len(scripts) > keep:
        scripts = random.Random(seed()).sample(scripts, keep)
    for k, x in enumerate(scripts):
        x["id"] = k
    sin, sout = os.path.join(wd, "scripts.ndjson"), os.path.join(wd, "out.ndjson")
    write_ndjson(sin, scripts)
    run_harness("vh-driver", ["x01", "run", sin, sout], timeout=3000)
    rows = read_ndjson(sout)
    if len(rows) != len(scripts):
        raise ToolError("x01: %d of %d" % (len(rows), len(scripts)))
    acc, rr, rej = validate_trace("Trace_SchemaAgreement", "Trace_SchemaAgreement.cfg", sout, timeout=900)
    if not acc:
        raise ToolError("Trace_SchemaAgreement did not consume its input (line %s)" % rej)
    for b in sorted({int(m.group(1)) - 1 for m in re.finditer(r'<<"BAD", (\d+)>>', rr.out)})[:8]:
        x = rows[b]
        v.violation("nodes answering the schema-version probe by script %s: await_schema_agreement returned %s %s after %d ms (timeout %d ms), polls per node %s %s" % (
            x["script"], x["kind"], x["val"], x["elapsed_ms"], x["timeout_ms"], x["polls"], x["err"][:100]), [x])
    kinds = {}
    for x in rows:
        kinds[x["kind"]] = kinds.get(x["kind"], 0) + 1
    v.add(states=r.distinct, transitions=r.generated, model_bounds={"nodes": 2, "scripted_rounds": 3, "answers": 6, "max_rounds": 5},
          evaluations=len(rows), distinct_nontrivial=len(rows),
          rule="states = distinct states of SchemaAgreement.tla over all 66 564 scripts; evaluation = one await_schema_agreement call of a real Session against scripted mock nodes, judged by TLC",
          scripts_enumerated=total, scripts_executed=len(rows), outcomes=kinds, reachability_controls=reach, trace_validation_states=rr.distinct)
    v.sample(rows[0])
    if not v.violations:
        base = next(x for x in rows if x["kind"] == "ok")
        b1 = json.loads(json.dumps(base))
        b1["val"] = "B" if b1["val"] == "A" else "A"
        b2 = json.loads(json.dumps(next(x for x in rows if x["kind"] == "timeout")))
        b2["elapsed_ms"] = 100
        pth = os.path.join(wd, "self.ndjson")
        write_ndjson(pth, [b1, b2])
        out = validate_trace("Trace_SchemaAgreement", "Trace_SchemaAgreement.cfg", pth)[1].out
        if '<<"BAD", 1>>' not in out or '<<"BAD", 2>>' not in out:
            raise ToolError("binding self-test failed")
        v.add(binding_selftest="a record with another agreed version and a Timeout reported after 100 ms are both rejected")
    v.assumptions += ["one connection per node (PoolSize::PerHost(1)), so one probe per node and round",
                      "when several nodes fail in one round any of their errors may be the round's (the driver takes the first in its node order)",
                      "broken connections during the wait are not scripted (the design model does not include them)"]
    return v.finish()


def replay(path):
    for r in read_ndjson(path)[:3]:
        print(json.dumps(r)[:1500])
    return 0
