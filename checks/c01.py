"""C01 — CQL value encoding conforms to the protocol and round-trips.

Reference: CqlValue.tla (wire encoding of every native type on sign+magnitude limbs: two's complement,
minimal varint, zig-zag vints of durations, decimals, raw float bit patterns; list/set/map/tuple/UDT framing with
null / not-set / zero-length cells; Cassandra's vector encoding with fixed-width elements packed and others
vint-prefixed; decoding pads short tuples / UDTs with nulls). TLC generates (type, value) vectors (all natives with
boundary values, collections / tuples / UDTs / vectors over a reduced element alphabet with nulls at element
positions, short tuples / UDTs, empty collections, zero-length elements in first and last vector position, nested
shapes to depth 3, plus null / unset / empty cells) and checks the reference's own length-prefix lemma.
The harness (vh-cql c01) pushes every vector through EVERY compatible Rust carrier (the dynamic CqlValue for any
nesting; the documented typed carriers and their Option / MaybeUnset / MaybeEmpty / Box / Arc / & wrappers; Vec / sets /
maps / tuples of them) with both add_value and serialize, decodes the produced bytes back and records everything.
TLC judges every record (Trace_CqlValue): bytes = reference encoding, decoded = value.
"""
import concurrent.futures
import json
import os

from c01prep import prep
from common import (SPEC, ToolError, Verdict, cargo_build, read_ndjson, run_harness, seed, tlc, validate_trace, workdir,
                    write_ndjson)

PID = "C01"


def run(tier):
    v = Verdict(PID, tier, "exploration")
    wd = workdir(PID)
    r = tlc("MC_CqlValue", "MC_CqlValue.cfg", workers=4, timeout=900)
    if not r.ok() or not r.finished:
        raise ToolError("CqlValue reference violates its lemma: %s %s" % (r.invariant_violated, r.out[-400:]))
    vecs = r.json_prints("VEC")
    if len(vecs) < 300:
        raise ToolError("too few vectors")
    inp = os.path.join(wd, "vec.ndjson")
    outp = os.path.join(wd, "out.ndjson")
    write_ndjson(inp, vecs)
    p = run_harness("vh-cql", ["c01", inp, outp], timeout=1800)
    summ = json.loads(p.stdout.strip().splitlines()[-1])
    rows = [prep(x) for x in read_ndjson(outp)]
    if len(rows) < len(vecs):
        raise ToolError("harness produced fewer records than vectors")
    # once more with every collection / UDT type described as frozen (bytes and values must be the same)
    outp2 = os.path.join(wd, "out-frozen.ndjson")
    run_harness("vh-cql", ["c01", inp, outp2], timeout=1800, env_extra={"VH_FROZEN": "1"})
    rows2 = [prep(x) for x in read_ndjson(outp2)]
    if len(rows2) != len(rows):
        raise ToolError("frozen pass: %d of %d records" % (len(rows2), len(rows)))
    for x in rows2:
        x["carrier"] = x["carrier"] + " [types frozen]"
    rows = rows + rows2
    nchunks = 6
    paths = []
    for c in range(nchunks):
        pth = os.path.join(wd, "j-%d.ndjson" % c)
        write_ndjson(pth, rows[c::nchunks])
        paths.append(pth)

    def judge(c):
        acc, rr, rej = validate_trace("Trace_CqlValue", "Trace_CqlValue.cfg", paths[c], timeout=1800, xmx="3g")
        return c, acc, rr.distinct, rej

    st = 0
    with concurrent.futures.ThreadPoolExecutor(max_workers=6) as ex:
        for c, acc, dist, rej in ex.map(judge, range(nchunks)):
            st += dist
            if not acc:
                bad = rows[c::nchunks][(rej or 1) - 1]
                what = ("serialization failed: " + bad["ser_err"]) if bad["ser_err"] else \
                    ("decoding its own bytes failed: " + bad["de_err"][:160]) if bad["de_err"] else "bytes or decoded value differ from the reference"
                key = None
                t, val = bad["t"], bad["v"]
                if t.get("k") == "vector" and val.get("k") == "seq" and val["vs"] and val["vs"][-1].get("b") == []:
                    key = "vector-last-element-zero-length"
                v.violation("carrier %s, type %s, value %s: %s (cell %s, decoded %s)" % (
                    bad["carrier"], json.dumps(t), json.dumps(val)[:200], what, bad["cell"], json.dumps(bad["decoded"])[:160]), [bad], key=key)
    carriers = sorted({x["carrier"] for x in rows})
    distinct = len({json.dumps([x["t"], x["v"], x["carrier"]], sort_keys=True) for x in rows})
    v.add(evaluations=len(rows), distinct_nontrivial=distinct,
          rule="evaluation = one (type, value, carrier) pushed through the real serializer and back; distinct = distinct triples; "
               "every record judged by TLC against CqlValue.tla",
          vectors=len(vecs), carriers=len(carriers), carriers_registered=summ.get("carriers_registered"), trace_validation_states=st,
          nested_vectors=sum(1 for x in vecs if x["t"]["k"] != "native" and any(isinstance(e, dict) and e.get("k") != "native" for e in [x["t"].get("e"), x["t"].get("a"), x["t"].get("b")] if e)))
    v.sample(next((x for x in rows if x["t"]["k"] == "map"), rows[0]))
    v.sample(next((x for x in rows if x["t"]["k"] == "native" and x["t"]["n"] == "duration" and x["v"]["k"] == "dur"), rows[0]))
    if not v.violations:
        base = next(x for x in rows if x["t"]["k"] == "list" and x["cell"][:1] == [0] and len(x["cell"]) > 8)
        bad = json.loads(json.dumps(base))
        bad["cell"][-1] = (bad["cell"][-1] + 1) % 256
        pth = os.path.join(wd, "self.ndjson")
        write_ndjson(pth, [bad])
        a, _, _ = validate_trace("Trace_CqlValue", "Trace_CqlValue.cfg", pth)
        if a:
            raise ToolError("binding self-test failed")
        v.add(binding_selftest="record with one corrupted byte rejected")
    # ---- the representations whose value IS a byte string (raw varint / decimal): sent as is, handed back as is
    g = tlc("MC_RawBytes", "MC_RawBytes.cfg", workers=2, timeout=300)
    if not g.ok() or not g.finished:
        raise ToolError("MC_RawBytes failed: %s" % g.out[-300:])
    raws = g.json_prints("RAW")
    if len(raws) < 150:
        raise ToolError("too few raw byte samples: %d" % len(raws))
    rin, rout = os.path.join(wd, "raw.in.ndjson"), os.path.join(wd, "raw.out.ndjson")
    write_ndjson(rin, raws)
    run_harness("vh-cql", ["c01-raw", rin, rout], timeout=600)
    rrows = read_ndjson(rout)
    if len(rrows) != 7 * len(raws):
        raise ToolError("c01-raw: %d records for %d samples" % (len(rrows), len(raws)))
    acc, rr, rej = validate_trace("Trace_RawBytes", "Trace_RawBytes.cfg", rout, timeout=600)
    if not acc:
        raise ToolError("Trace_RawBytes did not consume its input (line %s)" % rej)
    import re as _re
    for b in sorted({int(m.group(1)) - 1 for m in _re.finditer(r'<<"BAD", (\d+)>>', rr.out)})[:5]:
        x = rrows[b]
        v.violation("carrier %s holding the raw bytes %s: cell %s (%s), decoded back to %s (%s) — the bytes a raw varint / decimal holds are sent as they are and come back as they are" % (
            x["carrier"], x["b"], x["cell"], x["err"] or "ok", x["back"], x["back_err"] or "ok"), [x])
    v.add(raw_byte_samples=len(raws), raw_byte_records=len(rrows),
          raw_byte_samples_not_minimal=sum(1 for x in raws if len(x["b"]) == 0 or (len(x["b"]) > 1 and ((x["b"][0] == 0 and x["b"][1] < 128) or (x["b"][0] == 255 and x["b"][1] >= 128)))))
    # ---- tuple values carrying fewer elements than their type, into typed Rust tuples (padded with nulls)
    gs = tlc("MC_ShortTuple", "MC_ShortTuple.cfg", workers=2, timeout=300)
    if not gs.ok() or not gs.finished:
        raise ToolError("MC_ShortTuple failed: %s" % gs.out[-300:])
    shorts = gs.json_prints("SHORT")
    if len(shorts) < 20:
        raise ToolError("too few short-tuple cases: %d" % len(shorts))
    sin, sout = os.path.join(wd, "short.in.ndjson"), os.path.join(wd, "short.out.ndjson")
    write_ndjson(sin, shorts)
    run_harness("vh-cql", ["c01-short", sin, sout], timeout=600)
    srows = read_ndjson(sout)
    if len(srows) != 2 * len(shorts):
        raise ToolError("c01-short: %d records for %d cases" % (len(srows), len(shorts)))
    acc, rs_, rej = validate_trace("Trace_ShortTuple", "Trace_ShortTuple.cfg", sout, timeout=600)
    if not acc:
        raise ToolError("Trace_ShortTuple did not consume its input (line %s)" % rej)
    for b in sorted({int(m.group(1)) - 1 for m in _re.finditer(r'<<"BAD", (\d+)>>', rs_.out)})[:5]:
        x = srows[b]
        v.violation("a tuple value carrying %d of its type's %d elements (bytes %s), decoded into a Rust tuple of Options (%s): %s, elements came back as %s %s, expected %s (1 = the value, 0 = null) — missing trailing elements come back as nulls" % (
            x["k"], x["n"], x["wire"], x["shape"], "accepted" if x["ok"] else "REFUSED: " + x["err"][:120], x["got"], x["got2"] if x["shape"] == "list" else "", x["want"]), [x])
    v.add(short_tuple_cases=len(shorts), short_tuple_records=len(srows))
    v.assumptions += ["floats are raw bit patterns (NaN payloads are ordinary values); time-zone semantics of chrono/time carriers are outside the reference",
                      "records of carriers with their own iteration order (HashSet/HashMap) are canonicalised before judging; Rust tuples shorter than the column type are serialise-only (checks/c01prep.py)",
                      "a tuple / UDT given fewer fields may be written short or with explicit trailing nulls; a zero-length tuple cell is the 'empty' value",
                      "non-normalised varints / decimals: the raw-byte carriers here (documented: 'bytes provided by the user via constructor are passed to DB as is'); other decode-only inputs are exercised by C08's decoder population"]
    return v.finish()


def replay(path):
    for r in read_ndjson(path)[:5]:
        print(json.dumps(r)[:600])
    return 0
