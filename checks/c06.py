"""C06 — a request not marked idempotent is never re-sent after it may have been applied.

 1. TLC: Retry.tla — the execution loop x decision tables of Default / DowngradingConsistency / Fallthrough
    over every failure history (all symbols incl. field combinations) x idempotence x consistency:
    NonIdempotentSafe, DefaultSerialNoRetry, Bounded, FallthroughNever.
 2. The same tree of histories is walked on the REAL RetrySession objects (every symbol instantiated with
    all concrete error values it stands for); every decision that leads to another attempt, and every
    first decision, is judged by TLC with DecisionOK (verdict) and compared with the table (drift only).
 3. Binding self-test.
 2b. Scenarios (policy x idempotence x consistency x plan of scripted targets incl. pool errors) run through the
    REAL execution loop (run_request_no_side_effects) with synthetic attempts; judged by TLC (ExecProp).
"""
import concurrent.futures
import json
import os

from common import (ToolError, Verdict, cargo_build, read_ndjson, run_harness, tlc, validate_trace, workdir, write_ndjson,
                    SPEC)

PID = "C06"


def run(tier):
    v = Verdict(PID, tier, "model_checking")
    wd = workdir(PID)
    thorough = tier == "thorough"
    plan = 4 if thorough else 3
    with open(os.path.join(SPEC, "_mc_c06.cfg"), "w") as f:
        f.write("SPECIFICATION Spec\nCONSTANTS Plan = %d\nINVARIANTS NonIdempotentSafe DefaultSerialNoRetry Bounded FallthroughNever\nCHECK_DEADLOCK FALSE\n" % plan)
    r = tlc("Retry", "_mc_c06.cfg", workers=8, coverage=True, timeout=3000)
    os.remove(os.path.join(SPEC, "_mc_c06.cfg"))
    if not r.ok() or not r.finished:
        raise ToolError("Retry design violates its invariants: %s" % r.invariant_violated)
    cov = r.coverage_actions()
    if not cov.get("Fail") or not cov.get("Success"):
        raise ToolError("vacuity %s" % cov)
    v.add(states=r.distinct, transitions=r.generated, coverage_actions=cov,
          model_bounds={"plan": plan, "symbols": 68, "consistencies": 11, "policies": 3})

    cargo_build("vh-driver")
    nchunks = 12
    full_depth = 2 if thorough else 1

    def one(c):
        outp = os.path.join(wd, "walk-%d.ndjson" % c)
        p = run_harness("vh-driver", ["c06", "walk", outp, plan, full_depth, c, nchunks], timeout=3000)
        summ = json.loads(p.stdout.strip().splitlines()[-1])
        acc, rr, rej = validate_trace("Trace_RetryProp", "Trace_RetryProp.cfg", outp, timeout=3000, xmx="3g")
        drift = sorted(set(l for l in rr.out.splitlines() if "DRIFT" in l))[:5]
        return summ, acc, rr.distinct, rej, outp, drift

    decisions = recorded = st = incons = 0
    drift_all = []
    with concurrent.futures.ThreadPoolExecutor(max_workers=8) as ex:
        for summ, acc, dist, rej, outp, drift in ex.map(one, range(nchunks)):
            decisions += summ.get("decisions", 0)
            recorded += summ.get("recorded", 0)
            incons += summ.get("inconsistent_symbols", 0)
            st += dist
            drift_all += drift
            if not acc:
                rows = read_ndjson(outp)
                bad = rows[(rej or 1) - 1]
                if "panic" in bad:
                    v.violation("retry policy panicked: %s" % json.dumps(bad)[:300], [bad])
                else:
                    v.violation("the real %s session decided '%s' for %s (idempotent=%s, consistency=%s, same-node retries so far=%s) after history %s" % (
                        bad["pol"], bad["d"], bad["inst"], bad["idem"], bad["cl"], bad["same"],
                        json.dumps([e["k"] for e in bad["path"]])), [bad])
    v.add(traces_validated_against_impl=decisions, decisions_on_real_sessions=decisions, distinct_decisions_judged=recorded,
          trace_validation_states=st, plan=plan, exhaustive=True,
          symbols_with_instance_dependent_decisions=incons)
    rows = read_ndjson(os.path.join(wd, "walk-0.ndjson"))
    deep = [r_ for r_ in rows if r_["depth"] >= 3]
    v.sample(deep[0] if deep else rows[0])
    v.sample(rows[0])

    # 2b. the real execution loop with scripted per-attempt failures (no speculative policy):
    #     attempts actually made, their targets and consistencies, the decisions seen by a recording
    #     wrapper around the real policy and the result are judged by TLC (ExecProp)
    import execloop
    scen = execloop.generate(thorough, want_spec=False)
    st2, xrows = execloop.run_and_judge(v, wd, scen, "exec", "execution loop")
    v.add(traces_validated_against_impl=len(scen), exec_loop_scenarios=len(scen), trace_validation_states=st + st2)
    v.sample({"exec_loop_record": {k: xrows[len(xrows) // 2][k] for k in ("pol", "idem", "cl", "plan", "evs")}})

    if not v.violations:
        base = next(r_ for r_ in rows if r_["d"] == "stop" and not r_["idem"] and r_["e"]["k"] == "Overloaded")
        t1 = dict(base, d="next")
        pth = os.path.join(wd, "self.ndjson")
        write_ndjson(pth, [t1])
        a, _, _ = validate_trace("Trace_RetryProp", "Trace_RetryProp.cfg", pth)
        if a:
            raise ToolError("binding self-test failed: retry of a non-idempotent request after Overloaded accepted")
        v.add(binding_selftest="a record retrying a non-idempotent request after Overloaded is rejected")
    # ---- end to end: the same error sequences injected by the mock cluster, frames counted (a real Session per scenario)
    from e2e import run_e2e
    run_e2e(v, wd, tier, "retry")
    v.add(drift=sorted(set(drift_all))[:10])
    v.assumptions += ["the history-tree walk emulates the loop; phase 2b drives the real loop (run_request_no_side_effects) with synthetic attempts on dummy connections",
                      "custom user retry policies are out of scope",
                      "Safe failures (prove non-application): Unavailable, IsBootstrapping, UnableToAllocStreamId, ReadTimeout"]
    return v.finish()


def replay(path):
    rows = read_ndjson(path)
    for r in rows[:5]:
        print(json.dumps(r)[:400])
    return 0
