"""C12 — token-aware requests are first sent to an owning replica and shard.

Routing.tla composes the references established elsewhere — Murmur3.tla (token of the key, C03), Replicas.tla (replicas of
the token under SimpleStrategy / NetworkTopologyStrategy, C04), Sharding.tla (shard of the token, C11), tablets (C15) — into
the end-to-end obligation on the FIRST frame of an execution. TLC (MC_Routing) enumerates cluster layouts (1..6 nodes, 1..3
DCs, racks, 1-2 vnodes), shard patterns (plain nodes, 1..8 shards, both ignore-msb settings), strategies, load-balancing
preferences with and without failover, a down node, pool sizes, and tablet maps; it computes the key tokens itself. For each
scenario vh-driver c12 starts the in-process mock cluster with that topology, connects a REAL Session, waits for full pools,
prepares an INSERT and executes it for 8 keys; the mock records node and server-side shard of each frame (and answers
misrouted tablet requests with the tablet, as ScyllaDB does). TLC judges every scenario (Trace_Routing).
"""
import json
import os
import re

from common import ToolError, Verdict, read_ndjson, run_harness, tlc, validate_trace, workdir, write_ndjson

PID = "C12"


def run(tier):
    v = Verdict(PID, tier, "exploration")
    wd = workdir(PID)
    cfg = os.path.join(wd, "MC_Routing.cfg")
    with open(cfg, "w") as f:
        f.write("SPECIFICATION Spec\nCONSTANTS Full = %s\nINVARIANTS Emit\nCHECK_DEADLOCK FALSE\n" % ("TRUE" if tier == "thorough" else "FALSE"))
    r = tlc("MC_Routing", cfg, workers=4, timeout=1800, xmx="8g")
    if not r.ok() or not r.finished:
        raise ToolError("MC_Routing failed: %s" % r.out[-800:])
    scen = r.json_prints("SCEN")
    kt = r.json_prints("KEYTOK")
    if not kt or len(scen) < 300:
        raise ToolError("generator: %d scenarios, key tokens %s" % (len(scen), bool(kt)))
    keytok = {int(k): t for k, t in kt[0].items()}
    keys = [{"pk": k, "token": keytok[k]} for k in sorted(keytok)]
    ins = []
    for i, s in enumerate(scen):
        ins.append({"id": i, "nodes": s["nodes"], "strategy": s["strategy"], "pool": s["pool"], "policy": s["policy"],
                    "tablets": None if s["tablets"] == "none" else s["tablets"], "keys": keys, "rounds": s["rounds"],
                    "nat": s["nat"], "initial_tablets": s["initial_tablets"], "refresh": s["refresh"]})
        if "msb_change" in s:
            ins[-1]["msb_change"] = s["msb_change"]
        if "cdc" in s:                 # another partitioner: the scenario brings its own keys (tokens by Murmur3.CdcToken)
            ins[-1].update(cdc=s["cdc"], prepare_fail=s["prepare_fail"], keys=s["keys"])
    sin, sout = os.path.join(wd, "scen.ndjson"), os.path.join(wd, "out.ndjson")
    write_ndjson(sin, ins)
    p = run_harness("vh-driver", ["c12", "run", sin, sout], timeout=3400)
    outs = read_ndjson(sout)
    if len(outs) != len(ins):
        raise ToolError("c12 harness: %d of %d lines" % (len(outs), len(ins)))
    rows = []
    for s, o in zip(scen, outs):
        if o.get("start_err"):
            raise ToolError("c12 scenario %s could not be set up: %s" % (o.get("id"), o["start_err"][:300]))
        if "msb_change" in s:           # the judge expects the shard under the NEW ignore-msb of the reconfigured node
            s["nodes"][s["msb_change"]["node"]]["msb"] = s["msb_change"]["msb"]
        o.update(nodes=s["nodes"], strategy=s["strategy"], policy=s["policy"], has_tablets=0 if s["tablets"] == "none" else 1, nat=s["nat"],
                 tablets=[] if s["tablets"] == "none" else s["tablets"])
        tokof = {k["pk"]: k["token"] for k in s["keys"]} if "keys" in s else keytok
        for e in o["execs"]:
            e["token"] = tokof[e["pk"]]
            e["err"] = e.get("err", "")[:160]
            co = e.get("coordinator", "none")
            e["coordinator"] = {"some": 0} if co == "none" else {"some": 1, "node": co["node"], "shard": co["shard"]}
        rows.append(o)
    notfull = [o["id"] for o in rows if o["pools_full"] != 1 and o["nat"] == 0]
    if notfull:
        raise ToolError("pools did not fill within the wait in scenarios %s (environment, not a verdict)" % notfull[:10])
    jp = os.path.join(wd, "j.ndjson")
    write_ndjson(jp, rows)
    acc, rr, rej = validate_trace("Trace_Routing", "Trace_Routing.cfg", jp, timeout=3000, xmx="6g")
    if not acc:
        raise ToolError("Trace_Routing did not consume its input (line %s)" % rej)
    bad = sorted({int(m.group(1)) - 1 for m in re.finditer(r'<<"BAD", (\d+)>>', rr.out)})
    for b in bad[:15]:
        x = rows[b]
        v.violation("layout %s, strategy %s, policy %s, pool %s%s: first frames (pk -> node/shard) %s" % (
            [(n["dc"], n["rack"], n["pos"], n["shards"], "up" if n["up"] else "DOWN") for n in x["nodes"]], json.dumps(x["strategy"]), json.dumps(x["policy"]),
            json.dumps(ins[b]["pool"]), ", tablets" if x["has_tablets"] else "",
            [(e["round"], e["pk"], (e["frames"][0]["node"], e["frames"][0]["shard"]) if e["frames"] else None) for e in x["execs"]]), [x])
    nexec = sum(len(x["execs"]) for x in rows)
    v.add(evaluations=nexec, distinct_nontrivial=len(rows),
          rule="evaluation = one execution of the prepared statement through a real Session against a mock cluster of the scenario's topology; distinct = scenarios; every scenario judged by TLC",
          scenarios=len(rows), tablet_scenarios=sum(1 for x in rows if x["has_tablets"]), keys=len(keys),
          layouts=len({json.dumps([(n["dc"], n["rack"], n["pos"]) for n in x["nodes"]]) for x in rows}),
          sharded_first_frames=sum(1 for x in rows for e in x["execs"] if e["frames"] and e["frames"][0]["shard"] >= 0),
          with_down_node=sum(1 for x in rows if any(n["up"] == 0 for n in x["nodes"])), trace_validation_states=rr.distinct)
    v.sample({k: rows[0][k] for k in ("nodes", "strategy", "policy", "conns")} | {"execs": rows[0]["execs"][:3]})
    if not v.violations:
        # binding self-test: move one first frame to a node that holds no replica / to a wrong shard
        base = next(x for x in rows if x["has_tablets"] == 0 and x["strategy"] == {"class": "simple", "rf": 1} and len(x["nodes"]) >= 3
                    and all(n["up"] for n in x["nodes"]) and x["nodes"][0]["shards"] > 1 and x["policy"]["prefer_dc"] == "")
        b1 = json.loads(json.dumps(base))
        f = b1["execs"][0]["frames"][0]
        f["node"] = (f["node"] + 1) % len(b1["nodes"])
        b1["execs"][0]["coordinator"] = {"some": 0}
        pth = os.path.join(wd, "self.ndjson")
        write_ndjson(pth, [b1])
        if '<<"BAD", 1>>' not in validate_trace("Trace_Routing", "Trace_Routing.cfg", pth)[1].out:
            raise ToolError("binding self-test failed")
        v.add(binding_selftest="a record whose first frame went to a non-replica is rejected")
    v.assumptions += [
        "node tokens lie on the grid p * 2^60 - 2^63 (p in 1..15); key tokens come from Murmur3.tla (the driver's own token computation is C03's subject)",
        "rack preference is not judged (the property speaks of the preferred datacentre); a shard is demanded only when the pool holds a connection to it",
        "tablets are judged in the second round, for tablets whose first-round request was misrouted and answered with the tablet (the driver applies the feedback asynchronously)",
        "a down node is stopped and announced DOWN before the executions; the harness waits until the session sees it as not connected"]
    return v.finish()


def replay(path):
    for r in read_ndjson(path)[:3]:
        print(json.dumps(r)[:1500])
    return 0
