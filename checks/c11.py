"""C11 — shard of a token and shard-aware source ports (ScyllaDB's algorithm).

The TLA+ reference (Sharding.tla over U64 limb arithmetic) is model-checked for its own lemmas (shard below
the shard count; the per-shard port sets partition the range) and generates the case table; the real
Sharder is run on those cases and on random ones far outside the table; every recorded output is judged by
TLC against the reference (Trace_Sharding): shard value, drawn ports in the set, iterator = the set exactly
once, nothing produced only when the set is empty.
"""
import json
import os

from common import SPEC, ToolError, Verdict, read_ndjson, run_harness, seed, tlc, validate_trace, workdir, write_ndjson

PID = "C11"

CFG = """SPECIFICATION Spec
CONSTANTS
  Ns = {%s}
  Msbs = {%s}
  TopBytes = {0, 1, 127, 128, 129, 255}
  Los = {1024, 1025, 49152, 65530, 65535}
  Widths = {%s}
INVARIANTS ShardBelow Partition Emit
CHECK_DEADLOCK FALSE
"""


def run(tier):
    v = Verdict(PID, tier, "exploration")
    wd = workdir(PID)
    thorough = tier == "thorough"
    ns = "1, 2, 3, 7, 8, 64, 255, 256, 257, 4096, 65535" if not thorough else ", ".join(str(i) for i in list(range(1, 65)) + [255, 256, 257, 4095, 4096, 32768, 65535])
    msbs = "0, 1, 7, 8, 12, 31, 32, 63" if not thorough else ", ".join(str(i) for i in range(64))
    widths = "0, 1, 2, 6, 7, 8, 300" if not thorough else "0, 1, 2, 3, 6, 7, 8, 63, 64, 65, 300, 511"
    with open(os.path.join(SPEC, "_mc_c11.cfg"), "w") as f:
        f.write(CFG % (ns, msbs, widths))
    r = tlc("MC_Sharding", "_mc_c11.cfg", workers=8, timeout=3000, xmx="8g")
    os.remove(os.path.join(SPEC, "_mc_c11.cfg"))
    if not r.ok() or not r.finished:
        raise ToolError("Sharding reference violates its own lemmas: %s %s" % (r.invariant_violated, r.out[-400:]))
    cases = r.json_prints("CASE")
    if len(cases) < 100:
        raise ToolError("too few cases generated")
    inp = os.path.join(wd, "cases.ndjson")
    outp = os.path.join(wd, "out.ndjson")
    write_ndjson(inp, cases)
    nrs, nrp = (60000, 3000) if thorough else (4000, 400)
    p = run_harness("vh-driver", ["c11", "run", inp, outp, seed(), nrs, nrp], timeout=3000)
    summ = json.loads(p.stdout.strip().splitlines()[-1])
    rows = read_ndjson(outp)
    # judge in batches
    viol = 0
    st = 0
    B = 20000
    for b in range(0, len(rows), B):
        part = os.path.join(wd, "part-%d.ndjson" % b)
        write_ndjson(part, rows[b:b + B])
        acc, rr, rej = validate_trace("Trace_Sharding", "Trace_Sharding.cfg", part, timeout=3000)
        st += rr.distinct
        if not acc:
            bad = rows[b + (rej or 1) - 1]
            if bad.get("kind") == "panic":
                v.violation("Sharder panicked: %s" % bad.get("msg"), [bad])
            elif bad.get("kind") == "shard":
                v.violation("shard_of disagrees with ScyllaDB's algorithm: nr_shards=%s msb_ignore=%s token(le bytes)=%s -> %s" % (
                    bad["n"], bad["msb"], bad["token"], bad["shard"]), [bad])
            else:
                v.violation("shard-aware source ports wrong for nr_shards=%s range=[%s,%s] shard=%s: draws=%s none=%s iter(len %d)=%s" % (
                    bad["n"], bad["lo"], bad["hi"], bad["s"], bad["draws"][:6], bad["draw_none"], len(bad["iter"]), bad["iter"][:8]), [bad])
            break
    distinct = len({json.dumps({k: r_[k] for k in r_ if k not in ("draws",)}, sort_keys=True) for r_ in rows})
    v.add(evaluations=len(rows), distinct_nontrivial=distinct,
          rule="cases = TLC-generated table (shard counts x msb_ignore x boundary tokens; port ranges x widths x shards) + seeded random cases; "
               "distinct = distinct (inputs, outputs) records; every record is judged by TLC against Sharding.tla",
          spec_vectors=len(cases), random_shard_cases=nrs, random_port_cases=nrp,
          outputs_differing_from_spec_vectors=summ.get("differ_from_spec_vectors"), trace_validation_states=st,
          reference_model_states=r.distinct)
    v.sample(rows[0])
    v.sample(next((r_ for r_ in rows if r_.get("kind") == "ports" and r_["iter"]), None))
    if not v.violations:
        bad = dict(rows[0], shard=rows[0]["shard"] + 1)
        pth = os.path.join(wd, "self.ndjson")
        write_ndjson(pth, [bad])
        a, _, _ = validate_trace("Trace_Sharding", "Trace_Sharding.cfg", pth)
        if a:
            raise ToolError("binding self-test failed")
        v.add(binding_selftest="record with a wrong shard rejected")
    # ---- connection level: a real Session's pool against a mock node with a shard-aware port, source ports confined to a range
    import re as _re
    eout = os.path.join(wd, "e2e.ndjson")
    run_harness("vh-driver", ["c11", "e2e", eout], timeout=900)
    erows = read_ndjson(eout)
    prow = [x for x in erows if x.get("kind") == "ports"]
    mrow = [x for x in erows if x.get("kind") == "msb"]
    if (len(prow) < 40 or sum(len(x["accepts"]) for x in prow) < 60 or len(mrow) < 4) and not v.violations:
        raise ToolError("c11 e2e: %d port scenarios, %d shard-aware connections, %d restart scenarios" % (len(prow), sum(len(x["accepts"]) for x in prow), len(mrow)))
    acc, re_, rej = validate_trace("Trace_ShardPortE2E", "Trace_ShardPortE2E.cfg", eout, timeout=300)
    if not acc:
        raise ToolError("Trace_ShardPortE2E did not consume its input (line %s)" % rej)
    for b in sorted({int(m.group(1)) - 1 for m in _re.finditer(r'<<"BAD", (\d+)>>', re_.out)})[:5]:
        x = erows[b]
        if x.get("kind") == "msb":
            v.violation("connection level: a node restarted with sharding parameters (shards, ignored msb) %s: what the session publishes for it / computes with it after each restart: %s" % (
                [s_["node"] for s_ in x["steps"]], [{"published": s_["published"], "shards": [t[1] for t in s_["shards"]]} for s_ in x["steps"]]), [x])
            continue
        v.violation("connection level (%s): %d shards, allowed source ports [%d, %d], ports held by others %s: the node's shard-aware port accepted (source port, shard) %s %s" % (
            "IPv6 node" if x.get("v6") else "IPv4 node", x["nr"], x["lo"], x["hi"], x["occupied"], x["accepts"], x["start_err"][:100]), [x])
    v.add(e2e_scenarios=len(erows), e2e_shard_aware_connections=sum(len(x["accepts"]) for x in prow),
          e2e_scenarios_with_taken_ports=sum(1 for x in prow if x["occupied"]), e2e_ipv6_scenarios=sum(1 for x in prow if x.get("v6")),
          e2e_restart_scenarios=len(mrow), e2e_restart_steps_judged=sum(1 for x in mrow for s_ in x["steps"] if s_["covered"] >= s_["node"][0]))
    v.assumptions += ["the reference is the algorithm stated in the property (bias by 2^63, shift, multiply, high 64 bits), transcribed into limb arithmetic",
                      "source ports of real shard-aware connections (end-to-end half) belong to the mock-cluster checks"]
    return v.finish()


def replay(path):
    for r in read_ndjson(path)[:5]:
        print(json.dumps(r)[:400])
    return 0
