"""C19 — metadata hand-off channel (merge_channel): neither lost nor duplicated, no lost wake-up.

Phases
 1. TLC: MergeChannel (implementation-shaped micro-step model over a tokio::Notify model) —
    invariants ExactlyOnceInOrder / NoneOnlyAtEnd / NoLostWakeup + liveness, with -coverage.
 2. Learn the micro-step order from the hooks of the tree under test; model-check the learnt program.
 3. TLC generates every behaviour (schedule) of the micro-step model in the bound; each is forced
    onto two real OS threads through gates; the observable call/return record of every run is
    judged by TLC against MergeChannelProp (linearizable merge slot + no-lost-wake-up observation).
 4. Poll-granular (atomic operation) schedules with more operations, same judge.
 5. Free-running two-thread stress (no gates), judged by TLC.
 6. Binding self-test: a corrupted record and a record with a removed event must be rejected.
"""
import copy
import json
import os
import random

from common import (SPEC, ToolError, Verdict, log, parallel_harness, read_ndjson, run_harness, seed,
                    split_traces, tlc, validate_distinct, validate_trace, workdir, write_ndjson)

PID = "C19"
OBS = ("ModCall", "ModRet", "SDropCall", "SDropRet", "RecvCall", "RecvRet", "Cancel", "TryRecv",
       "RDrop", "ParkedQuiescent", "Reset")

BASE_CONSTS = dict(MaxPush=1, MaxClear=0, MaxNoop=0, MaxRecv=2, MaxCancel=1, MaxTry=0,
                   AllowSDrop="TRUE", AllowRDrop="FALSE", DropNotifyFirst="FALSE",
                   RecheckAfterFlag="TRUE", EnableFirst="TRUE", Atomic="FALSE")


def cfg_text(consts, invs, props=None, view=False):
    s = "SPECIFICATION Spec\nCONSTANTS\n"
    for k, v in consts.items():
        s += "  %s = %s\n" % (k, v)
    if view:
        s += "VIEW View\n"
    s += "INVARIANTS " + " ".join(invs) + "\n"
    if props:
        s += "PROPERTY " + " ".join(props) + "\n"
    s += "CHECK_DEADLOCK FALSE\n"
    return s


def write_cfg(name, text):
    p = os.path.join(SPEC, name)
    with open(p, "w") as f:
        f.write(text)
    return name


def keep_obs(r):
    return r.get("ev") in OBS and "src" not in r


def gen_schedules(consts, wd, name, simulate=None, depth=None, timeout=1200):
    cfg = write_cfg("_gen_%s.cfg" % name, cfg_text(consts, ["TypeOK", "Emit"]))
    try:
        r = tlc("MC_MergeChannel", cfg, workers=8, timeout=timeout, simulate=simulate, depth=depth,
                tlc_seed=seed() if simulate else None)
    finally:
        os.remove(os.path.join(SPEC, cfg))
    if r.error or not r.finished and not simulate:
        raise ToolError("schedule generation failed: " + r.out[-800:])
    return r.json_prints("REPLAY"), r


def run(tier):
    v = Verdict(PID, tier, "model_checking")
    wd = workdir(PID)
    thorough = tier == "thorough"
    rnd = random.Random(seed())

    # ---- 1. model check the design (default program = order at the pinned commit)
    consts = dict(BASE_CONSTS, MaxPush=3, MaxClear=1, MaxNoop=1, MaxRecv=4 if thorough else 3, MaxCancel=2,
                  MaxTry=1, AllowRDrop="TRUE")
    if thorough:
        consts.update(MaxPush=4, MaxRecv=5, MaxCancel=3)
    cfg = write_cfg("_mc_c19.cfg", cfg_text(consts, ["TypeOK", "ExactlyOnceInOrder", "NoneOnlyAtEnd", "NoLostWakeup"],
                                            ["Live"], view=True))
    r = tlc("MC_MergeChannel", cfg, workers=8, coverage=True, timeout=3000)
    os.remove(os.path.join(SPEC, cfg))
    if not r.ok() or not r.finished:
        raise ToolError("MergeChannel model does not satisfy its own properties (spec bug): %s %s" % (
            r.invariant_violated, r.out[-600:]))
    cov = r.coverage_actions()
    must = ["PStart", "PLock", "PNotify", "PRet", "PDropStart", "PDropSecond", "CStartRecv", "CTake1", "CRetSome",
            "CFlag", "CRetAfterFlag", "CAwait", "CLoop", "CCancel", "CTry", "CDropReceiver"]
    missing = [a for a in must if cov.get(a, 0) == 0]
    if missing:
        raise ToolError("vacuity: actions never taken: %s" % missing)
    v.add(states=r.distinct, transitions=r.generated, model_bounds=consts, coverage_actions=cov)

    # ---- 2. learn the micro-step programs from the hooks
    p = run_harness("vh-driver", ["c19", "learn"])
    learnt = json.loads(p.stdout.strip().splitlines()[-1])
    v.add(learnt_programs=learnt)
    names = lambda k: [e.split("(")[0] for e in learnt.get(k, [])]
    sd = names("sender_drop")
    rp = names("recv_parks")
    drift = []
    lconsts = {}
    if sd == ["SndDropFlag", "SndDropNotify"]:
        lconsts["DropNotifyFirst"] = "FALSE"
    elif sd == ["SndDropNotify", "SndDropFlag"]:
        lconsts["DropNotifyFirst"] = "TRUE"
    else:
        drift.append("sender_drop program not recognised: %s" % sd)
    if rp[:2] == ["RcvEnable", "RcvTake"]:
        lconsts["EnableFirst"] = "TRUE"
    elif rp[:2] == ["RcvTake", "RcvEnable"]:
        lconsts["EnableFirst"] = "FALSE"
    else:
        drift.append("recv program not recognised: %s" % rp)
    if not learnt.get("push_then_recv") or not sd or not rp:
        raise ToolError("vacuity: a code path produced no hook events (hooks missing?) %s" % learnt)
    learnt_differs = any(BASE_CONSTS[k] != val for k, val in lconsts.items())
    model_cex = None
    if learnt_differs:
        c2 = dict(consts, **lconsts)
        cfg = write_cfg("_mc_c19l.cfg", cfg_text(c2, ["TypeOK", "ExactlyOnceInOrder", "NoneOnlyAtEnd", "NoLostWakeup"],
                                                 ["Live"], view=True))
        r2 = tlc("MC_MergeChannel", cfg, workers=8, timeout=3000)
        os.remove(os.path.join(SPEC, cfg))
        drift.append("learnt program differs from the pinned order: %s; model verdict for it: %s" % (
            lconsts, "holds" if r2.ok() else "violates %s" % (r2.invariant_violated or "liveness")))
        model_cex = not r2.ok()
        v.add(states=r2.distinct, transitions=r2.generated)

    # ---- 3. forced micro-step interleavings on real threads
    gconsts = dict(BASE_CONSTS, **lconsts)
    scheds, rg = gen_schedules(gconsts, wd, "fine")
    exhaustive_fine = True
    extra = []
    if thorough:
        # one more modify racing, receiver drop, try_recv: sampled behaviours of a larger instance
        big = dict(gconsts, MaxPush=2, MaxClear=1, MaxRecv=3, MaxCancel=2, MaxTry=1, AllowRDrop="TRUE")
        extra, _ = gen_schedules(big, wd, "fineS", simulate=60000, depth=60)
        # and exhaustively: two pushes racing two recvs without drop
        mid = dict(gconsts, MaxPush=2, MaxRecv=2, MaxCancel=1, AllowSDrop="FALSE")
        e2, _ = gen_schedules(mid, wd, "fineM", timeout=3000)
        extra += e2
    else:
        big = dict(gconsts, MaxPush=2, MaxClear=1, MaxRecv=3, MaxCancel=2, MaxTry=1, AllowRDrop="TRUE")
        extra, _ = gen_schedules(big, wd, "fineS", simulate=4000, depth=60)
    # dedupe schedules
    allfine = list({json.dumps(s): s for s in scheds + extra}.values())
    if not thorough and len(allfine) > 40000:
        allfine = allfine[:40000]
        exhaustive_fine = False
    outs, sums = parallel_harness("vh-driver", lambda i, o: ["c19", "run", i, o, "fine"], allfine, wd, nproc=12,
                                  timeout=3000, tag="fine")
    stuck = sum(s.get("stuck", 0) for s in sums)
    misaligned = sum(s.get("misaligned", 0) for s in sums)
    ran = sum(s.get("schedules", 0) for s in sums)
    if ran != len(allfine):
        raise ToolError("harness ran %d of %d schedules" % (ran, len(allfine)))
    traces = []
    panics = []
    stuck_tr = []
    for beg, t in split_traces(outs, keep=lambda r: True):
        full = t
        obs = [r for r in full if keep_obs(r)]
        if any(r.get("ev") == "Panic" for r in full):
            panics.append((beg, full))
        if any(r.get("ev") == "Stuck" for r in full):
            stuck_tr.append((beg, full))
            continue
        traces.append(obs)
    for beg, full in panics[:3]:
        v.violation("panic in merge_channel under forced interleaving %s" % beg.get("sched"), [beg] + full)
    nd, st, bad = validate_distinct("Trace_MergeChannelProp", "Trace_MergeChannelProp.cfg", traces, wd, "fine")
    if bad is not None:
        # find a schedule that produced it
        key = json.dumps(bad, sort_keys=True)
        sch = None
        for beg, t in split_traces(outs, keep=keep_obs):
            if json.dumps(t, sort_keys=True) == key:
                sch = beg
                break
        v.violation("forced interleaving on real threads produced a record no behaviour of MergeChannelProp explains "
                    "(lost/duplicated update, early None, lost wake-up or cancel-unsafe): schedule %s" % (
                        sch.get("sched") if sch else "?"), [sch or {}] + bad)
    if stuck_tr:
        # a thread never reached its next stop: the code under test blocked
        v.notes.append("%d schedules stuck (thread did not reach next gate within 10 s)" % len(stuck_tr))
        raise ToolError("gated run stuck: %s" % stuck_tr[0][0])
    v.add(traces_validated_against_impl=len(traces), fine_schedules=len(allfine), fine_distinct_observable_records=nd,
          fine_misaligned=misaligned, fine_exhaustive_for=gconsts if exhaustive_fine else None,
          trace_validation_states=st)
    if misaligned:
        drift.append("%d forced schedules did not line up with the model's step structure (drift, not a verdict)" % misaligned)
    if allfine:
        v.sample({"forced_schedule": allfine[0]})
    if traces:
        v.sample({"observable_record": traces[len(traces) // 2]})

    # ---- 4. poll-granular schedules (operations atomic), more operations
    cc = dict(gconsts, Atomic="TRUE", MaxPush=2, MaxClear=1, MaxNoop=0, MaxRecv=3, MaxCancel=1, MaxTry=1,
              AllowRDrop="TRUE")
    if thorough:
        cc.update(MaxPush=3, MaxNoop=1, MaxCancel=2)
    cs, _ = gen_schedules(cc, wd, "coarse", timeout=3000)
    coarse = set()
    for s in cs:
        coarse.add(tuple("C" if e == "Cw" else e for e in s if ":" in e or e in ("Cx", "Cw")))
    coarse = [list(s) for s in coarse]
    rnd.shuffle(coarse)
    cap = 400000 if thorough else 30000
    coarse_exh = len(coarse) <= cap
    coarse = coarse[:cap]
    outs2, sums2 = parallel_harness("vh-driver", lambda i, o: ["c19", "run", i, o, "coarse"], coarse, wd, nproc=12,
                                    timeout=3000, tag="coarse")
    ctraces = []
    for beg, t in split_traces(outs2, keep=lambda r: True):
        if any(r.get("ev") == "Panic" for r in t):
            v.violation("panic in merge_channel (poll-granular schedule %s)" % beg.get("sched"), [beg] + t)
        if any(r.get("ev") == "Stuck" for r in t):
            raise ToolError("coarse run stuck: %s" % beg)
        ctraces.append([r for r in t if keep_obs(r)])
    nd2, st2, bad2 = validate_distinct("Trace_MergeChannelProp", "Trace_MergeChannelProp.cfg", ctraces, wd, "coarse")
    if bad2 is not None:
        key = json.dumps(bad2, sort_keys=True)
        sch = None
        for beg, t in split_traces(outs2, keep=keep_obs):
            if json.dumps(t, sort_keys=True) == key:
                sch = beg
                break
        v.violation("poll-granular schedule produced a record MergeChannelProp rejects: %s" % (
            sch.get("sched") if sch else "?"), [sch or {}] + bad2)
    v.add(traces_validated_against_impl=len(ctraces), coarse_schedules=len(coarse), coarse_exhaustive=coarse_exh,
          coarse_bounds=cc, coarse_distinct_observable_records=nd2, trace_validation_states=st + st2)
    if coarse:
        v.sample({"poll_granular_schedule": coarse[0]})

    # ---- 5. free-running stress judged by TLC
    runs = 2000 if thorough else 200
    sp = os.path.join(wd, "stress.ndjson")
    p = run_harness("vh-driver", ["c19", "stress", runs, seed(), sp], timeout=3000)
    acc, rs, rej = validate_trace("Trace_MergeStress", "Trace_MergeStress.cfg", sp)
    if not acc:
        rows = read_ndjson(sp)
        badrow = rows[rej - 1] if rej and rej <= len(rows) else rows[0]
        v.violation("free-running stress run lost, duplicated or reordered an update, or hung: %s" % json.dumps(badrow)[:300],
                    [badrow])
    v.add(traces_validated_against_impl=runs, stress_runs=runs)

    # ---- 6. binding self-test
    if traces:
        base = None
        for t in traces:
            if any(r["ev"] == "RecvRet" and r["some"] == 1 for r in t):
                base = t
                break
        if base is not None:
            t1 = copy.deepcopy(base)
            for r in t1:
                if r["ev"] == "RecvRet" and r["some"] == 1:
                    r["val"] = r["val"] + [99]
                    break
            t2 = [r for r in base if r["ev"] != "ModRet"]
            for name, tt in (("corrupt", t1), ("removed", t2)):
                pth = os.path.join(wd, "self-%s.ndjson" % name)
                write_ndjson(pth, tt)
                a, _, _ = validate_trace("Trace_MergeChannelProp", "Trace_MergeChannelProp.cfg", pth)
                if a:
                    raise ToolError("binding self-test failed: %s record was accepted" % name)
            v.add(binding_selftest="corrupted RecvRet value and removed ModRet event both rejected")

    # ---- 7. what travels through the channel: MetadataUpdate merges (the user-visible half: latest topology, no lost refresh)
    mcfg = os.path.join(wd, "MC_MetadataUpdate.cfg")
    with open(mcfg, "w") as f:
        f.write("SPECIFICATION Spec\nCONSTANTS MaxLen = %d\nINVARIANTS Lemma Emit\nCHECK_DEADLOCK FALSE\n" % (5 if thorough else 4))
    rm = tlc("MC_MetadataUpdate", mcfg, workers=8, timeout=1800, xmx="8g")
    if not rm.ok() or not rm.finished:
        raise ToolError("MetadataUpdate.tla violates its own lemma or failed: %s %s" % (rm.invariant_violated, rm.out[-500:]))
    seqs = rm.json_prints("SEQ")
    if len(seqs) < 4000:
        raise ToolError("too few merge sequences")
    min_, mout = os.path.join(wd, "merge.in.ndjson"), os.path.join(wd, "merge.out.ndjson")
    write_ndjson(min_, seqs)
    run_harness("vh-driver", ["c19", "merge", min_, mout], timeout=1200)
    mrows = read_ndjson(mout)
    if len(mrows) != len(seqs):
        raise ToolError("c19 merge: %d of %d" % (len(mrows), len(seqs)))
    acc, rr, rej = validate_trace("Trace_MetadataUpdate", "Trace_MetadataUpdate.cfg", mout, timeout=1800)
    if not acc:
        raise ToolError("Trace_MetadataUpdate did not consume its input (line %s)" % rej)
    import re as _re
    for b in sorted({int(m.group(1)) - 1 for m in _re.finditer(r'<<"BAD", (\d+)>>', rr.out)})[:10]:
        x = mrows[b]
        v.violation("metadata updates merged %s: the consumer received %s (the latest fetched topology / every refresh request / the latest hint per node must arrive)" % (
            [(o["op"], o.get("peers", o.get("n", ""))) for o in x["ops"]], json.dumps(x["taken"])[:400]), [x])
    v.add(merge_sequences=len(mrows), merge_sequence_max_len=5 if thorough else 4)
    if not v.violations:
        bad = json.loads(json.dumps(next(x for x in mrows if any(o["op"] == "topo" for o in x["ops"]) and x["taken"][0]["has_peers"] == 1)))
        bad["taken"][0]["peers"] = bad["taken"][0]["peers"][:-1] + [9]
        pth = os.path.join(wd, "self-merge.ndjson")
        write_ndjson(pth, [bad])
        if '<<"BAD", 1>>' not in validate_trace("Trace_MetadataUpdate", "Trace_MetadataUpdate.cfg", pth)[1].out:
            raise ToolError("binding self-test (merge) failed")

    # ---- user-visible end on a real Session: refreshes requested together while publishing is slow are all answered
    rout = os.path.join(wd, "refresh.ndjson")
    rounds, callers = (12, 8) if thorough else (4, 6)
    run_harness("vh-driver", ["c19", "refresh", rout, rounds, callers], timeout=900)
    rrows = read_ndjson(rout)
    if len(rrows) != rounds:
        raise ToolError("c19 refresh: %d of %d rounds" % (len(rrows), rounds))
    acc, rq, rej = validate_trace("Trace_RefreshE2E", "Trace_RefreshE2E.cfg", rout, timeout=300)
    if not acc:
        raise ToolError("Trace_RefreshE2E did not consume its input (line %s)" % rej)
    for b in sorted({int(m.group(1)) - 1 for m in _re.finditer(r'<<"BAD", (\d+)>>', rq.out)})[:3]:
        x = rrows[b]
        v.violation("refreshes requested together while a node joins: %d callers got %s; %d updates were merged into %d received values; the published state knows %d of %d nodes (every requested refresh must be answered)" % (
            x["callers"], x["answers"], x["merges"], x["taken"], x["nodes_known"], x["nodes"]), [x])
    piled = sum(1 for x in rrows if x["merges"] > x["taken"])
    if piled == 0 and not v.violations:
        raise ToolError("c19 refresh: in no round were fetched updates merged into a pending value (the scenario did not pile requests up)")
    v.add(refresh_rounds=len(rrows), refresh_calls=sum(x["callers"] + 1 for x in rrows), refresh_rounds_with_merged_requests=piled)

    v.add(drift=drift, learnt_program_violates_model=model_cex, exhaustive=bool(exhaustive_fine and coarse_exh))
    v.assumptions += [
        "tokio::sync::Notify behaves as the single-waiter model in MergeChannel.tla (every forced run exercises the real Notify)",
        "gates serialise the two threads, so only sequentially consistent interleavings at hook granularity are explored; weak-memory reorderings are out of reach",
        "the producer/consumer discipline (one of each) is enforced by the type system (&mut self)",
    ]
    return v.finish()


def replay(path):
    rows = read_ndjson(path)
    for r in rows:
        if isinstance(r, dict) and r.get("sched"):
            wd = workdir(PID)
            inp = os.path.join(wd, "r.in")
            out = os.path.join(wd, "r.out")
            write_ndjson(inp, [r["sched"]])
            mode = "fine" if any(e in ("P", "C") for e in r["sched"]) else "coarse"
            run_harness("vh-driver", ["c19", "run", inp, out, mode])
            obs = [x for x in read_ndjson(out) if keep_obs(x)]
            pth = os.path.join(wd, "r.obs")
            write_ndjson(pth, obs)
            a, _, rej = validate_trace("Trace_MergeChannelProp", "Trace_MergeChannelProp.cfg", pth)
            print("replay schedule %s -> %s" % (r["sched"], "accepted" if a else "REJECTED at %s" % rej))
            if not a:
                print("VIOLATION property=%s replay=%s" % (PID, path))
                return 1
    return 0
