"""C14 — prepared statements survive server-side eviction transparently and faithfully.

Design level: Prepared.tla models the server (per-node prepared sets, schema versions with metadata ids, a node that starts handing
out a different statement id) and the driver's execute algorithm (EXECUTE -> UNPREPARED -> PREPARE -> id check -> EXECUTE; decode
with the frame's metadata or the held one; adopt a newly announced id + columns). TLC checks for every extension / skip-metadata
configuration that each completed execution returns exactly the rows the node encoded or the id-changed error (Faithful) — with
the client adopting the result metadata a RE-preparation announces, as the property states; without that (AdoptOnReprepare =
FALSE, the self-test) TLC finds the stale-metadata history.
Conformance: MC_PreparedHist enumerates histories op ev op ev op over executions (unpaged / paged / batch / prepare) on either
node and the events evict / alter / alter+evict / id change, for all 8 configurations; vh-driver c14 plays each against the mock
cluster whose handler implements the server model; checks/c14.py flattens the log to events and TLC validates it against
Trace_Prepared.tla (server replies = model replies; client obligations on every frame; the caller's rows / error).
"""
import json
import os
import re

from common import ToolError, Verdict, read_ndjson, run_harness, seed, tlc, validate_trace, workdir, write_ndjson

PID = "C14"


def opt(x):
    return {"some": 0} if x in ("none", None) else {"some": 1, "v": x}


def cell(c):
    if isinstance(c, bool) or not isinstance(c, (int, str)):
        return {"k": "x"}
    if isinstance(c, int):
        return {"k": "i", "n": c} if -2**31 < c < 2**31 else {"k": "x"}
    m = re.fullmatch(r"b(\d)", c)
    return {"k": "s", "v": int(m.group(1))} if m else {"k": "x"}


def flatten(o):
    h = o["id"]
    ev = [{"t": "reset", "h": h, "ext": o["ext"], "skip": o["skip"]}]

    def frame(f):
        return {"t": "frame", "h": h, "node": f["node"], "opcode": f["opcode"], "stmt": f["stmt"], "id": f["id"], "rmid": opt(f["rmid"]),
                "skip": f["skip"], "eskip": 0 if o.get("igs") else f["skip"], "paging": opt(f["paging"]), "values": f["values"], "reply": f["reply"], "reply_id": f["reply_id"],
                "reply_mid": opt(f["reply_mid"]), "reply_ncols": f["reply_ncols"]}
    for f in o["setup"]:
        ev.append(frame(f))
    for s in o["steps"]:
        st = s["step"]
        if "ev" in st:
            ev.append({"t": "ev", "h": h, "ev": st["ev"], "node": st.get("node", -1)})
            continue
        if st["op"] == "exec2":
            # two executions at once, one per node: judged as two executions, each with the frames its node saw
            for nd in (0, 1):
                ev.append({"t": "op", "h": h, "op": "exec", "pair": nd + 1, "hd": "p", "node": nd, "pk": st["pk"] + nd})
                for f in s["frames"]:
                    if "midev" not in f and f["node"] == nd:
                        ev.append(frame(f))
                r = (s["result"].get("pair") or [{}, {}])[nd]
                ev.append({"t": "result", "h": h, "ok": r.get("ok", 0), "kind": r.get("kind", ""), "cols": r.get("cols", []),
                           "rows": [[cell(c) for c in row] for row in r.get("rows", [])]})
            continue
        cach = st["op"].startswith("c")
        ev.append({"t": "op", "h": h, "op": st["op"][1:] if cach else st["op"], "pair": 0, "hd": "c" if cach else "p", "node": st.get("node", -1), "pk": st.get("pk", 0)})
        for f in s["frames"]:
            if "midev" in f:        # a server event between two pages
                ev.append({"t": "ev", "h": h, "ev": f["midev"]["ev"], "node": f["midev"].get("node", -1)})
                continue
            ev.append(frame(f))
        r = s["result"]
        ev.append({"t": "result", "h": h, "ok": r.get("ok", 0), "kind": r.get("kind", ""), "cols": r.get("cols", []),
                   "rows": [[cell(c) for c in row] for row in r.get("rows", [])]})
    return ev


def design(wd, adopt, maxops):
    res = []
    for ext in ((1, 1), (0, 0), (1, 0), (0, 1)):
        for skip in (0, 1):
            cfg = os.path.join(wd, "MC_Prepared.cfg")
            with open(cfg, "w") as f:
                f.write("SPECIFICATION Spec\nCONSTANTS Ext1 = %d\nExt2 = %d\nSkip = %d\nAdoptOnReprepare = %s\nMaxVer = 3\nMaxOps = %d\nINVARIANTS Faithful\nCHECK_DEADLOCK FALSE\n" % (
                    ext[0], ext[1], skip, adopt, maxops))
            r = tlc("Prepared", cfg, workers=4, timeout=900)
            if not r.finished or (r.error and not r.invariant_violated):
                raise ToolError("Prepared.tla: %s" % r.out[-600:])
            res.append((ext, skip, bool(r.invariant_violated), r.distinct))
    return res


def run(tier):
    v = Verdict(PID, tier, "model_checking")
    wd = workdir(PID)
    good = design(wd, "TRUE", 4 if tier == "quick" else 6)
    broken = [x for x in good if x[2]]
    if broken:
        raise ToolError("the design model violates Faithful with AdoptOnReprepare = TRUE: %s" % broken)
    neg = design(wd, "FALSE", 4)
    if not any(x[2] for x in neg):
        raise ToolError("the design model does not distinguish AdoptOnReprepare = FALSE (vacuous)")
    cfg = os.path.join(wd, "MC_PreparedHist.cfg")
    with open(cfg, "w") as f:
        f.write("SPECIFICATION Spec\nCONSTANTS Full = %s\nINVARIANTS Emit\nCHECK_DEADLOCK FALSE\n" % ("TRUE" if tier == "thorough" else "FALSE"))
    r = tlc("MC_PreparedHist", cfg, workers=4, timeout=1800, xmx="8g")
    if not r.ok() or not r.finished:
        raise ToolError("MC_PreparedHist failed: %s" % r.out[-600:])
    hists = sorted(r.json_prints("HIST"), key=lambda h: json.dumps(h, sort_keys=True))
    total = len(hists)
    if total < 10000:
        raise ToolError("too few histories: %d" % total)
    import random
    rng = random.Random(seed())
    keep = 2500 if tier == "quick" else 20000
    if total > keep:          # the enumeration is TLC's; a seeded sample of it is executed
        hists = rng.sample(hists, keep)
    # second population: both handles of the statement (Session::prepare's and the CachingSession's) and server events between pages
    cfg2 = os.path.join(wd, "MC_PreparedHist2.cfg")
    with open(cfg2, "w") as f:
        f.write("SPECIFICATION Spec\nCONSTANTS MaxSteps = 7\nMaxChanges = 4\nINVARIANTS Emit\nCHECK_DEADLOCK FALSE\n")
    r2 = tlc("MC_PreparedHist2", cfg2, workers=4, timeout=1800, simulate=8000 if tier == "quick" else 60000, depth=10, tlc_seed=seed())
    if r2.error:
        raise ToolError("MC_PreparedHist2 failed: %s" % r2.out[-600:])
    h2 = sorted({json.dumps(h, sort_keys=True) for h in r2.json_prints("HIST")})
    h2 = [json.loads(x) for x in h2]
    keep2 = 2000 if tier == "quick" else 15000
    if len(h2) < min(keep2, 1500):
        raise ToolError("too few histories in the second population: %d" % len(h2))
    total2 = len(h2)
    if len(h2) > keep2:
        h2 = rng.sample(h2, keep2)
    nmid = sum(1 for h in h2 for s in h["steps"] if "mid" in s)
    ncach = sum(1 for h in h2 for s in h["steps"] if s.get("op", "").startswith("c"))
    if nmid < 200 or ncach < 500:
        raise ToolError("second population is thin: %d mid-page events, %d cached executions" % (nmid, ncach))
    hists = hists + h2
    for i, h in enumerate(hists):
        h["id"] = i
    hin, hout = os.path.join(wd, "hist.ndjson"), os.path.join(wd, "out.ndjson")
    write_ndjson(hin, hists)
    p = run_harness("vh-driver", ["c14", "run", hin, hout], timeout=3400)
    outs = read_ndjson(hout)
    if len(outs) != len(hists):
        raise ToolError("c14 harness: %d of %d" % (len(outs), len(hists)))
    errs = [o for o in outs if o.get("start_err")]
    if errs:
        raise ToolError("c14: %d histories could not be set up: %s" % (len(errs), errs[0]["start_err"][:200]))
    events = [e for o in outs for e in flatten(o)]
    nchunks = 4
    per = (len(outs) + nchunks - 1) // nchunks
    st = 0
    badh = {}
    for c in range(nchunks):
        part = [e for o in outs[c * per:(c + 1) * per] for e in flatten(o)]
        if not part:
            continue
        pth = os.path.join(wd, "j-%d.ndjson" % c)
        write_ndjson(pth, part)
        acc, rr, rej = validate_trace("Trace_Prepared", "Trace_Prepared.cfg", pth, timeout=3000, xmx="4g")
        if not acc:
            raise ToolError("Trace_Prepared did not consume its input (line %s)" % rej)
        st += rr.distinct
        for m in re.finditer(r'<<"BAD", (\d+), (\d+), "([^"]*)">>', rr.out):
            badh.setdefault(int(m.group(1)), (part[int(m.group(2)) - 1], m.group(3)))
    groups = {}
    for hid, (evt, what) in badh.items():
        o = outs[hid]
        steps = [s["step"] for s in o["steps"]]
        stale = what == "result" and o["skip"] == 1 and 0 in o["ext"] and any(s.get("ev") in ("alter_evict",) for s in steps)
        key = "stale-metadata-after-reprepare-without-extension" if stale else None
        groups.setdefault((key, what), []).append(hid)
    for (key, what), ids in sorted(groups.items(), key=str):
        hid = min(ids, key=lambda i: len(outs[i]["steps"]))
        o = outs[hid]
        evt = badh[hid][0]
        v.violation("%d histories, e.g. ext %s skip %d steps %s: at the %s the log departs from the specification: %s" % (
            len(ids), o["ext"], o["skip"], [s["step"].get("op", s["step"].get("ev")) + (":%d" % s["step"]["node"] if "node" in s["step"] else "") + ("+mid:" + s["step"]["mid"]["ev"] if "mid" in s["step"] else "") for s in o["steps"]],
            what, json.dumps(evt)[:500]), [o], key=key)
    v.add(states=sum(x[3] for x in good), evaluations=len(events), distinct_nontrivial=len(outs),
          rule="states = distinct states of the design model over the 8 configurations; evaluation = one event (frame / server event / result) of a history replayed against Trace_Prepared; distinct = histories executed",
          design_configs=[{"ext": list(x[0]), "skip": x[1], "states": x[3]} for x in good],
          negative_control="AdoptOnReprepare = FALSE violates Faithful in %d of 8 configurations" % sum(1 for x in neg if x[2]),
          histories_enumerated=total, histories_simulated_second_population=total2, mid_page_events=nmid, cached_handle_executions=ncach, histories_executed=len(outs), frames=sum(1 for e in events if e["t"] == "frame"),
          reprepares=sum(1 for e in events if e["t"] == "frame" and e["opcode"] == 9) - 6 * len(outs), trace_validation_states=st)
    v.sample({"ext": outs[0]["ext"], "skip": outs[0]["skip"], "steps": outs[0]["steps"][:2]})
    if not v.violations and not v.known_seen:
        base = next(o for o in outs if any(s["step"].get("op") == "exec" and s["result"].get("ok") == 1 for s in o["steps"]))
        b1 = json.loads(json.dumps(base))
        s = next(s for s in b1["steps"] if s["step"].get("op") == "exec" and s["result"].get("ok") == 1)
        s["result"]["rows"][0][0] += 1
        pth = os.path.join(wd, "self.ndjson")
        write_ndjson(pth, flatten(b1))
        if '<<"BAD"' not in validate_trace("Trace_Prepared", "Trace_Prepared.cfg", pth)[1].out:
            raise ToolError("binding self-test failed")
        v.add(binding_selftest="a history whose caller saw one altered cell is rejected")
    # ---- a batch whose second statement is text with values; the node forgets the statement prepared on the fly
    hs = []
    for ext in ([0, 0], [1, 1], [0, 1]):
        for skip in (0, 1):
            for order in (0, 1):
                steps = [{"op": "batch_fly", "node": order, "pk": 5}, {"op": "batch_fly", "node": 1 - order, "pk": 6}, {"op": "batch", "node": order, "pk": 7},
                         {"ev": "evict", "node": order}, {"op": "batch_fly", "node": order, "pk": 8}]
                hs.append({"id": len(hs), "ext": ext, "skip": skip, "steps": steps})
    bin_, bout = os.path.join(wd, "bfly.in.ndjson"), os.path.join(wd, "bfly.out.ndjson")
    write_ndjson(bin_, hs)
    run_harness("vh-driver", ["c14", "run", bin_, bout], timeout=900)
    bouts = read_ndjson(bout)
    if len(bouts) != len(hs) or any(o.get("start_err") for o in bouts):
        raise ToolError("c14 batch_fly: %d of %d histories (%s)" % (len(bouts), len(hs), [o.get("start_err") for o in bouts if o.get("start_err")][:1]))
    brecs = [{"ok": st["result"].get("ok", 0), "err": str(st["result"].get("err", st["result"].get("error", "")))[:200], "frames": st["frames"], "hist": o["id"], "node": st["step"]["node"]}
             for o in bouts for st in o["steps"] if st["step"].get("op") == "batch_fly"]
    bj = os.path.join(wd, "bfly.j.ndjson")
    write_ndjson(bj, brecs)
    acc, rb, rej = validate_trace("Trace_BatchFly", "Trace_BatchFly.cfg", bj, timeout=600)
    if not acc:
        raise ToolError("Trace_BatchFly did not consume its input (line %s)" % rej)
    for b in sorted({int(m.group(1)) - 1 for m in re.finditer(r'<<"BAD", (\d+)>>', rb.out)})[:3]:
        x = brecs[b]
        v.violation("a batch whose second statement was given as text with values, the node forgetting that statement between its PREPARE and the BATCH: caller got %s; the node saw (opcode, statement, answer) %s" % (
            "the normal result" if x["ok"] else "an error: %s" % x["err"], [(f["opcode"], f["stmt"], f["reply"]) for f in x["frames"]]), [x])
    live = sum(1 for x in brecs if any(f["opcode"] == 13 and f["reply"] == "unprepared" for f in x["frames"]))
    if live == 0 and not v.violations:
        raise ToolError("c14 batch_fly: no batch was answered UNPREPARED")
    v.add(batch_fly_steps=len(brecs), batch_fly_steps_answered_unprepared=live)
    # ---- nodes that ignore the skip-metadata flag (every page carries its metadata), no extension, cached metadata in use, and
    # the table altered while the statement stays prepared: rows are decoded with the metadata sent along with them
    hi = []
    for node in (0, 1):
        for first in ("exec", "exec_paged"):
            for second in ("exec", "exec_paged", "cexec"):
                steps = [{"op": first, "node": node, "pk": 3}, {"ev": "alter"}, {"op": second, "node": node, "pk": 4}, {"op": "exec", "node": 1 - node, "pk": 5}]
                hi.append({"id": len(hi), "ext": [0, 0], "skip": 1, "igs": 1, "steps": steps})
    iin, iout = os.path.join(wd, "igs.in.ndjson"), os.path.join(wd, "igs.out.ndjson")
    write_ndjson(iin, hi)
    run_harness("vh-driver", ["c14", "run", iin, iout], timeout=900)
    iouts = read_ndjson(iout)
    if len(iouts) != len(hi) or any(o.get("start_err") for o in iouts):
        raise ToolError("c14 ignore-skip: %d of %d histories (%s)" % (len(iouts), len(hi), [o.get("start_err") for o in iouts if o.get("start_err")][:1]))
    ievents = []
    for o in iouts:
        ievents.extend(flatten(o))
    ij = os.path.join(wd, "igs.j.ndjson")
    write_ndjson(ij, ievents)
    acc, ri, rej = validate_trace("Trace_Prepared", "Trace_Prepared.cfg", ij, timeout=900)
    if not acc:
        raise ToolError("Trace_Prepared did not consume the ignore-skip histories (line %s)" % rej)
    ibad = sorted({int(m.group(1)) for m in re.finditer(r'<<"BAD", (\d+)', ri.out)})
    for b in ibad[:2]:
        o = next((x for x in iouts if x["id"] == b), iouts[0])
        v.violation("nodes that send result metadata with every page although asked to skip it, table altered while the statement stays prepared, history %s: %s (rows are to be decoded with the metadata sent along with them); %s" % (
            [s_["step"] for s_ in o["steps"]], [s_["result"] for s_ in o["steps"]][:4], [l for l in ri.out.splitlines() if "BAD" in l][:2]), [o])
    v.add(ignore_skip_histories=len(hi))
    v.assumptions += [
        "single caller; the server events happen between executions or between the two pages of a paged execution (concurrent callers are not modelled)",
        "without the extension and with skip-metadata a second handle of the same text cannot learn of new columns once the first has re-prepared the statement: such histories use one handle only",
        "without the metadata-id extension and with skip-metadata a plain ALTER (statement stays prepared) cannot be announced by the protocol: such histories are not generated",
        "the handle keeps the PREPARED answer of an unspecified node: with mixed extension support either metadata id (or none) is accepted on the first execution"]
    return v.finish()


def replay(path):
    for r in read_ndjson(path)[:2]:
        print(json.dumps(r)[:2500])
    return 0
