"""C09 — request frames on the wire say exactly what the caller asked for.

Reference: CqlRequest.tla — an independent CQL v4 request encoder (header: version 4, flags = compression|tracing,
opcode, length = body size; QUERY / EXECUTE parameter block with every optional field; the result-metadata-id
extension; BATCH; PREPARE; REGISTER; OPTIONS; AUTH_RESPONSE) and, for STARTUP (a string map without a determined
order), an independent parser. TLC generates the request descriptions: all 2^6 subsets of optional fields x value
lists (values, null, not-set, zero-length) x tracing for QUERY and EXECUTE, batches of 0-3 statements mixing
prepared / unprepared with matching and mismatching value-list counts x serial / timestamp, statement / id /
metadata-id lengths and value counts at the 16-bit boundaries (65535 / 65536). The harness builds every request
through the public frame types, SerializedRequest::make with none / LZ4 / Snappy, decompresses compressed bodies with
the reference decoders, and TLC judges every frame (Trace_CqlRequest): exact bytes, or refusal where a length field
cannot express the input.
"""
import concurrent.futures
import json
import os

from common import ToolError, Verdict, read_ndjson, run_harness, tlc, validate_trace, workdir, write_ndjson

PID = "C09"


def run(tier):
    v = Verdict(PID, tier, "exploration")
    wd = workdir(PID)
    thorough = tier == "thorough"
    r = tlc("MC_CqlRequest", "MC_CqlRequest.cfg", workers=4, timeout=900)
    if r.error or not r.finished:
        raise ToolError("generator failed: " + r.out[-300:])
    cases = r.json_prints("CASE")
    inp = os.path.join(wd, "cases.ndjson")
    outp = os.path.join(wd, "out.ndjson")
    write_ndjson(inp, cases)
    p = run_harness("vh-driver", ["c09", "run", inp, outp], timeout=1800)
    rows = read_ndjson(outp)
    if len(rows) < len(cases):
        raise ToolError("harness produced too few records")
    # a frame whose body could not be decompressed by the reference decoders: data for the judge (undec), not a TLC error
    for x in rows:
        x["undec"] = 1 if (x.get("ok") == 1 and x.get("body") is None) else 0
        if x.get("body") is None:
            x["body"] = []
    # big frames are expensive for TLC: in the quick tier judge them uncompressed only
    big = [x for x in rows if len(x["frame"]) > 20000 or len(json.dumps(x["d"])) > 200000]
    small = [x for x in rows if x not in big] if len(big) < 200 else rows
    if not thorough:
        big = [x for x in big if x["comp"] == "none"]
    todo = small + big
    nchunks = 8
    paths = []
    for c in range(nchunks):
        pth = os.path.join(wd, "j-%d.ndjson" % c)
        write_ndjson(pth, todo[c::nchunks])
        paths.append(pth)

    def judge(c):
        acc, rr, rej = validate_trace("Trace_CqlRequest", "Trace_CqlRequest.cfg", paths[c], timeout=3000, xmx="6g")
        return c, acc, rr.distinct, rej

    st = 0
    with concurrent.futures.ThreadPoolExecutor(max_workers=8) as ex:
        for c, acc, dist, rej in ex.map(judge, range(nchunks)):
            st += dist
            if not acc:
                bad = todo[c::nchunks][(rej or 1) - 1]
                d = json.loads(json.dumps(bad["d"]))
                for k in ("text", "id", "token"):
                    if k in d and isinstance(d[k], list) and len(d[k]) > 40:
                        d[k] = "<%d bytes>" % len(d[k])
                if "params" in d and len(d["params"].get("values", [])) > 10:
                    d["params"]["values"] = "<%d values>" % len(d["params"]["values"])
                v.violation("request frame differs from the protocol reference (or an inexpressible input was not refused): compression=%s ok=%s err=%s request=%s frame[:40]=%s" % (
                    bad["comp"], bad["ok"], bad.get("err"), json.dumps(d)[:500], bad["frame"][:40]), [dict(bad, d=d, frame=bad["frame"][:200], body=bad["body"][:200] if bad["body"] else bad["body"])])
    ops = {}
    for x in todo:
        ops[x["d"]["op"]] = ops.get(x["d"]["op"], 0) + 1
    v.add(evaluations=len(todo), distinct_nontrivial=len({json.dumps([x["d"], x["comp"]], sort_keys=True)[:5000] for x in todo}),
          rule="evaluation = one request serialised with one compression setting; distinct = distinct (request description, compression); every frame judged by TLC against CqlRequest.tla",
          request_descriptions=len(cases), per_opcode=ops, refused=sum(1 for x in todo if x["ok"] == 0), trace_validation_states=st)
    s0 = next(x for x in rows if x["d"]["op"] == "execute" and x["ok"] == 1 and x["comp"] == "none")
    v.sample({"d": s0["d"], "frame": s0["frame"]})
    if not v.violations:
        bad = json.loads(json.dumps(s0))
        bad["frame"][8] = (bad["frame"][8] + 1) % 256
        pth = os.path.join(wd, "self.ndjson")
        write_ndjson(pth, [bad])
        a, _, _ = validate_trace("Trace_CqlRequest", "Trace_CqlRequest.cfg", pth)
        if a:
            raise ToolError("binding self-test failed")
        v.add(binding_selftest="frame with a wrong length field rejected")
    # ---- session level: the frames a real Session sends (mock node records header flags, opcode, raw body)
    import re as _re
    g = tlc("MC_CqlRequestE2E", "MC_CqlRequestE2E.cfg", workers=2, timeout=300)
    if not g.ok() or not g.finished:
        raise ToolError("MC_CqlRequestE2E failed: %s" % g.out[-400:])
    scen = g.json_prints("SCEN")
    if len(scen) < 500:
        raise ToolError("too few session-level scenarios")
    for k, sc in enumerate(scen):
        sc["id"] = k
    ein, eout = os.path.join(wd, "e2e.in.ndjson"), os.path.join(wd, "e2e.out.ndjson")
    write_ndjson(ein, scen)
    run_harness("vh-driver", ["c09", "e2e", ein, eout], timeout=900)
    eo = read_ndjson(eout)
    if len(eo) != len(scen):
        raise ToolError("c09 e2e: %d of %d" % (len(eo), len(scen)))
    erows = []
    for sc, o in zip(scen, eo):
        o.update({k: sc[k] for k in ("kind", "cl", "serial", "page", "ts", "tracing", "values", "btype", "evict", "comp", "ps", "lvl", "bunprep")})
        o["text0"] = [ord(ch) for ch in "SELECT c0 FROM ks.t"]
        erows.append(o)
    ej = os.path.join(wd, "e2e.j.ndjson")
    write_ndjson(ej, erows)
    acc, rr, rej = validate_trace("Trace_CqlRequestE2E", "Trace_CqlRequestE2E.cfg", ej, timeout=900)
    if not acc:
        raise ToolError("Trace_CqlRequestE2E did not consume its input (line %s)" % rej)
    ebad = sorted({int(m.group(1)) - 1 for m in _re.finditer(r'<<"BAD", (\d+)>>', rr.out)})
    for b in ebad[:8]:
        x = erows[b]
        v.violation("session level: %s%s%s with (said on the %s) consistency %s serial %s page %s paging state %s timestamp %s tracing %s values %s: the node received %s (%s)" % (
            x["kind"], " (node answers UNPREPARED first)" if x["evict"] else "", (" (session asked for compression, node offers none)" if x["comp"] else "") + (" (middle statement given as text with values)" if x.get("bunprep") else ""),
            ["statement", "statement's execution profile", "session's default profile"][x.get("lvl", 0)],
            x["cl"], x["serial"], x["page"], x["ps"], x["ts"], x["tracing"], json.dumps(x["values"])[:120],
            [(f["opcode"], f["flags"], f["body"][:80]) for f in x["frames"]], x["err"][:80]), [x])
    v.add(session_level_scenarios=len(erows))
    if not ebad:
        b1 = json.loads(json.dumps(next(x for x in erows if x["kind"] == "execute" and x["serial"][0] == 1)))
        b1["frames"][0]["body"][-1] ^= 1
        pth = os.path.join(wd, "e2e.self.ndjson")
        write_ndjson(pth, [b1])
        if '<<"BAD", 1>>' not in validate_trace("Trace_CqlRequestE2E", "Trace_CqlRequestE2E.cfg", pth)[1].out:
            raise ToolError("binding self-test (session level) failed")
    v.assumptions += ["correctness of the LZ4 / Snappy codecs themselves is trusted to lz4_flex / snap (the harness decompresses with them)",
                      "frames built by a Session (timestamps, page size, skip-metadata, metadata id chosen by the driver) are observed by the mock-cluster checks",
                      "a [long string] beyond 2^31 bytes is not exercised"]
    return v.finish()


def replay(path):
    for r in read_ndjson(path)[:3]:
        print(json.dumps(r)[:800])
    return 0
