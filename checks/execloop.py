"""Shared phase: scenarios for the real execution loop (used by C06 and C13)."""
import itertools
import json
import os
import random

from common import SPEC, ToolError, parallel_harness, read_ndjson, seed, tlc, validate_trace


def generate(thorough, want_spec):
    """TLC emits the scenario headers and the per-target script alphabet; scenarios are their product
    (exhaustive for short plans, sampled for longer ones)."""
    r = tlc("ExecGen", "ExecGen.cfg", workers=2, timeout=600)
    heads = r.json_prints("SCEN")
    targets = r.json_prints("TARGETS")
    if not heads or not targets:
        raise ToolError("ExecGen produced nothing: " + r.out[-300:])
    targets = targets[0]
    rnd = random.Random(seed())
    scen = []
    for h in heads:
        spec = h["spec"]
        if want_spec != (spec >= 0):
            continue
        tset = targets if spec >= 0 else [t for t in targets if t["d1"] == 0]
        n = h["plan"]
        combos_n = len(tset) ** n
        cap = (4000 if thorough else 400) if n >= 2 else combos_n
        if combos_n <= cap:
            combos = itertools.product(tset, repeat=n)
        else:
            combos = (tuple(rnd.choice(tset) for _ in range(n)) for _ in range(cap))
        for c in combos:
            scen.append(dict(h, targets=list(c)))
    return scen


def run_and_judge(v, wd, scen, tag, what):
    outs, sums = parallel_harness("vh-driver", lambda i, o: ["exec", "run", i, o], scen, wd, nproc=8, timeout=3000, tag=tag)
    if sum(s.get("runs", 0) for s in sums) != len(scen):
        raise ToolError("exec harness did not run all scenarios")
    import concurrent.futures

    def judge(path):
        acc, rr, rej = validate_trace("Trace_ExecProp", "Trace_ExecProp.cfg", path, timeout=3000, xmx="3g")
        return path, acc, rr.distinct, rej

    st = 0
    with concurrent.futures.ThreadPoolExecutor(max_workers=4) as ex:
        for path, acc, dist, rej in ex.map(judge, outs):
            st += dist
            if not acc:
                rows = read_ndjson(path)
                bad = rows[(rej or 1) - 1]
                kinds = [e.get("k") for e in bad["evs"]]
                how = "hung" if "H" in kinds else "panicked" if "P" in kinds else "violated the property"
                v.violation("%s: the real execution loop %s for scenario %s; events %s" % (
                    what, how, json.dumps({k: bad["scen"][k] for k in ("pol", "idem", "cl", "spec")}) + " targets=" +
                    json.dumps([[t["pool"], t["d1"], t["e1"]["k"], t["e2"]["k"]] for t in bad["scen"]["targets"]]),
                    json.dumps([{k: e[k] for k in e if k != "e"} | ({"e": e["e"]["k"]} if "e" in e else {}) for e in bad["evs"]])[:700]), [bad])
    rows = read_ndjson(outs[0])
    return st, rows
