"""C08 — decoding any bytes from the network returns a value or an error, never a crash.

CqlResponse.tla is an independent ENCODER of every CQL v4 response kind, of the body extensions and of the frame header,
written from the protocol specification as sequences of tagged segments. TLC (MC_CqlResponse) generates
 (a) well-formed frames of every kind (every error code with its fields, SUPPORTED, all RESULT kinds incl. rows of every
     column type with sample values, prepared metadata, all events), with every extension combination and "stored" LZ4 /
     Snappy bodies — together with the description the decoder has to give back;
 (b) every truncation point of them (with the header length left as it was, and made consistent);
 (c) every single-field mutation the specification defines per field meaning (Repl: lengths / counts 0, -1, i32::MAX,
     +-1; flag bits flipped; type ids, result kinds, opcodes, versions replaced; declared decompressed sizes) and deepened
     type nesting (the 5 000- and 200 000-level instances are stretched from TLC's by this script);
 (d) random bytes (seeded here).
vh-cql c08 pushes every frame through the REAL pipeline (read_response_frame -> parse_response_body_extensions ->
ResponseV2::deserialize -> deserialize_metadata -> rows as dynamic values and through 22 typed row targets) in sandboxed
child processes with a 2 MiB decoding stack and a counting allocator. TLC judges every record (Trace_CqlResponse):
Robust (no crash / panic, memory <= 16 MiB + 64 x input) for all, Faithful (decoded = description) for the well-formed.
"""
import concurrent.futures
import json
import os
import random
import re
import sys

from common import ToolError, Verdict, read_ndjson, run_harness, seed, tlc, validate_trace, workdir, write_ndjson

PID = "C08"
sys.setrecursionlimit(1000000)      # decoded types may be nested a thousand levels deep (custom type strings)
OPT_FIELDS = ("paging", "new_metadata_id", "result_metadata_id", "token", "name", "args")


def wrap(x):
    if x in ("none", "null"):
        return {"some": 0}
    return {"some": 1, "v": x}


def prep_resp(v):
    """Wrap optional fields so that TLC never compares a string with a sequence."""
    if isinstance(v, dict):
        out = {}
        for k, x in v.items():
            if k in OPT_FIELDS and isinstance(x, (list, str)) and (k not in ("name", "args") or v.get("k") == "schema"):
                out[k] = wrap(prep_resp(x) if isinstance(x, list) else x)
            elif k == "x" and x == {}:
                out[k] = {"none": 1}
            else:
                out[k] = prep_resp(x)
        return out
    if isinstance(v, list):
        return [prep_resp(x) for x in v]
    return v


def skipped(x):
    return {"ok": -1} if isinstance(x, str) else x


def prep(case, out):
    r = {"kind": case["kind"], "d": case["d"], "x": case["x"], "comp": case["comp"], "cached": case["cached"],
         "len": out["len"], "crash": out.get("crash") or "none", "panic": (out.get("panic") or "")[:200],
         "peak": out.get("peak", 0), "peak_core": out.get("peak_core", 0)}
    for k in ("hdr", "ext", "resp", "rows"):
        r[k] = skipped(out.get(k, "skipped"))
    r["typed"] = out.get("typed", [])
    r["drain"] = out.get("drain") or {"capped": 1, "items": 0, "announced": 0, "ended": 1, "vec_over": 0}
    if r["hdr"].get("ok") == 1 and "rest" not in r["hdr"]:
        r["hdr"]["rest"] = 0
    if r["ext"].get("ok") == 1:
        p = r["ext"]["payload"]
        r["ext"]["payload"] = {"some": 0} if p == "none" else {"some": 1, "v": [[k, wrap(v)] for k, v in p]}
    if r["resp"].get("ok") == 1:
        r["resp"] = {"ok": 1, "v": prep_resp(r["resp"]["v"])}
    for k in ("hdr", "ext", "resp", "rows"):
        if "err" in r[k]:
            r[k]["err"] = r[k]["err"][:160]
    if case["kind"] != "wf":       # the judge looks at the description only for well-formed frames
        r["d"] = {"k": case["d"]["k"]}
        r["x"] = {"stream": 0}
        r["cached"] = []
        if r["rows"].get("ok") == 1:
            r["rows"] = {"ok": 1, "n": r["rows"].get("n", 0)}
        if r["resp"].get("ok") == 1:
            r["resp"] = {"ok": 1, "v": {"k": r["resp"]["v"].get("k", "?")}}
        r["typed"] = [{"n": t["n"], "ok": t["ok"]} for t in r["typed"]]
    return r


def finding_key(case, out):
    note, where, stage = out.get("note", ""), out.get("where", "") or "", out.get("stage", "") or ""
    if "overflowed its stack" in note:
        return "stack-overflow-type-nesting" if case.get("tag") == "typeid" else "stack-overflow-" + stage
    if note.startswith("ALLOC") or (out.get("crash") in (None, "none")):
        site = where.rsplit("::", 1)[-1] if where else stage
        if not site:
            site = case.get("tag") or case["kind"]
        return "alloc-" + site
    return None


def stretch(case, n):
    """Deepened nesting beyond what TLC enumerates: the same operator (Deepen) applied n times at the same type id."""
    f, off, d0 = case["frame"], case["at"], case["depth"]
    g = f[:off] + list(case["pat"]) * (n - d0) + f[off:]
    ln = len(g) - 9
    g[5:9] = [(ln >> 24) & 255, (ln >> 16) & 255, (ln >> 8) & 255, ln & 255]
    c = dict(case)
    c["frame"], c["depth"] = g, n
    return c


def random_cases(rng, n):
    out = []
    for i in range(n):
        mode = i % 4
        if mode == 0:
            f = [rng.randrange(256) for _ in range(rng.randrange(0, 120))]
        else:
            body = [rng.randrange(256) for _ in range(rng.randrange(0, 150))]
            if mode == 2:
                body = [0, 0, 0, rng.choice([1, 2, 3, 4, 5])] + body
            if mode == 3:      # small counts / lengths are far more likely to get deep into a parser than uniform bytes
                body = [rng.choice([0, 0, 0, 1, 2, 4, 9, 13, 32, 33, 48, 49, 255]) for _ in range(rng.randrange(4, 150))]
            op = rng.choice([0, 2, 3, 6, 8, 8, 8, 12, 14, 16])
            fl = rng.choice([0, 0, 0, 2, 4, 8, 14, 1])
            ln = len(body)
            f = [0x84, fl, 0, rng.randrange(256), op, 0, 0, (ln >> 8) & 255, ln & 255] + body
        out.append({"kind": "rand", "d": {"k": "rand"}, "x": {"stream": 0}, "comp": rng.choice(["none", "none", "lz4", "snappy"]),
                    "feat": {"rate_limit_error": rng.choice([-1, 61440]), "lwt_mask": rng.choice([-1, 1073741824]), "tablets": 0, "metadata_id": rng.randrange(2)},
                    "cached": [], "frame": f, "at": 0, "tag": "", "depth": 0})
    return out


def run(tier):
    v = Verdict(PID, tier, "exploration")
    wd = workdir(PID)
    cfg = os.path.join(wd, "MC_CqlResponse.cfg")
    with open(cfg, "w") as f:
        f.write("SPECIFICATION Spec\nCONSTANTS Full = %s\nINVARIANTS Emit\nCHECK_DEADLOCK FALSE\n" % ("TRUE" if tier == "thorough" else "FALSE"))
    r = tlc("MC_CqlResponse", cfg, workers=8, timeout=3000, xmx="12g")
    if not r.ok() or not r.finished:
        raise ToolError("MC_CqlResponse failed: %s" % r.out[-600:])
    cases = r.json_prints("CASE")
    if len(cases) < 15000:
        raise ToolError("too few cases: %d" % len(cases))
    deep1 = [c for c in cases if c["kind"] == "deep" and c["depth"] == 1]
    for c in deep1[:: (1 if tier == "thorough" else 6)]:
        cases.append(stretch(c, 5000))
    seen_pat = set()
    for c in deep1:            # one 200 000-level instance per composite kind (and one in prepared metadata)
        key = (tuple(c["pat"]), c["d"]["k"] == "prepared")
        if key not in seen_pat and (not key[1] or tuple(c["pat"]) == (0, 32)):
            seen_pat.add(key)
            cases.append(stretch(c, 200000))
    rng = random.Random(seed())
    cases += random_cases(rng, 4000 if tier == "quick" else 40000)
    ins = []
    for i, c in enumerate(cases):
        f = c["feat"]
        ins.append({"id": i, "frame": c["frame"], "comp": c["comp"],
                    "feat": {"rate_limit_error": None if f["rate_limit_error"] < 0 else f["rate_limit_error"],
                             "lwt_mask": None if f["lwt_mask"] < 0 else f["lwt_mask"], "tablets": f["tablets"], "metadata_id": f["metadata_id"]},
                    "cached": c["cached"] or None})
    cin, cout = os.path.join(wd, "in.ndjson"), os.path.join(wd, "out.ndjson")
    write_ndjson(cin, ins)
    p = run_harness("vh-cql", ["c08", cin, cout, "--workers", "12"], timeout=3000)
    summ = json.loads(p.stdout.strip().splitlines()[-1])
    outs = read_ndjson(cout)
    if len(outs) != len(cases) or summ.get("bad_lines"):
        raise ToolError("c08 harness: %s" % summ)
    # inputs that did not answer within 10 s get two minutes (a very long loop is slow, not a violation; a hang is)
    slow = [i for i, o in enumerate(outs) if o.get("crash") == "timeout"]
    if slow:
        sin, sout = os.path.join(wd, "slow.in.ndjson"), os.path.join(wd, "slow.out.ndjson")
        write_ndjson(sin, [ins[i] for i in slow])
        os.environ["VH_C08_TIMEOUT_SECS"] = "120"
        try:
            run_harness("vh-cql", ["c08", sin, sout, "--workers", str(min(8, len(slow)))], timeout=3000)
        finally:
            del os.environ["VH_C08_TIMEOUT_SECS"]
        for i, o in zip(slow, read_ndjson(sout)):
            o["id"] = i
            o["slow"] = 1
            outs[i] = o
    rows = [prep(c, o) for c, o in zip(cases, outs)]
    nchunks = 8
    paths = []
    for c in range(nchunks):
        pth = os.path.join(wd, "j-%d.ndjson" % c)
        write_ndjson(pth, rows[c::nchunks])
        paths.append(pth)

    def judge(c):
        acc, rr, rej = validate_trace("Trace_CqlResponse", "Trace_CqlResponse.cfg", paths[c], timeout=3000, xmx="4g")
        if not acc:
            raise ToolError("Trace_CqlResponse did not consume its input (line %s)" % rej)
        bad = sorted({int(m.group(1)) - 1 for m in re.finditer(r'<<"BAD", (\d+)>>', rr.out)})
        return c, bad, rr.distinct

    st = 0
    groups = {}
    with concurrent.futures.ThreadPoolExecutor(max_workers=8) as ex:
        for c, bad, s in ex.map(judge, range(nchunks)):
            st += s
            for k in bad:
                i = c + k * nchunks
                case, out, row = cases[i], outs[i], rows[i]
                key = finding_key(case, out)
                groups.setdefault((key, case["kind"] == "wf"), []).append(i)
    for (key, wf), idx in sorted(groups.items(), key=str):
        i = min(idx, key=lambda j: len(cases[j]["frame"]))
        case, out, row = cases[i], outs[i], rows[i]
        if row["crash"] != "none":
            what = "the decoding process died (%s; %s) in stage %s %s" % (row["crash"], out.get("note", ""), out.get("stage", "?"), out.get("where", ""))
        elif row["panic"]:
            what = "panic: " + row["panic"]
        elif row["peak_core"] > 16777216 + 64 * row["len"] or row["peak"] > 4 * (16777216 + 64 * row["len"]):
            what = "peak allocation %d bytes (with typed targets %d) for a %d-byte input" % (row["peak_core"], row["peak"], row["len"])
        else:
            what = "a well-formed %s frame was not decoded to what it encodes: hdr %s ext %s resp %s rows %s" % (
                case["d"]["k"], json.dumps(row["hdr"])[:120], json.dumps(row["ext"])[:120], json.dumps(row["resp"])[:300], json.dumps(row["rows"])[:200])
        v.violation("%d input(s), smallest: %s frame (%s%s) of %d bytes %s: %s" % (
            len(idx), case["kind"], case["d"]["k"], (", field '%s' mutated" % case["tag"]) if case.get("tag") else "", len(case["frame"]),
            case["frame"][:48] if len(case["frame"]) < 400 else "[...]", what),
            [{"case": {k: case[k] for k in case if k != "frame"}, "frame": case["frame"] if len(case["frame"]) < 4000 else case["frame"][:200], "out": out}], key=key)
    # ---- frames back to back in one reader ---------------------------------------------------------------------
    import re as _re
    g = tlc("MC_FrameStream", "MC_FrameStream.cfg", workers=2, timeout=300)
    if not g.ok() or not g.finished:
        raise ToolError("MC_FrameStream failed: %s" % g.out[-300:])
    streams = g.json_prints("STREAM")
    if len(streams) < 1000:
        raise ToolError("too few frame streams: %d" % len(streams))
    for k, x in enumerate(streams):
        x["id"] = k
    sin, sout = os.path.join(wd, "streams.ndjson"), os.path.join(wd, "streams.out.ndjson")
    write_ndjson(sin, streams)
    run_harness("vh-cql", ["c08-stream", sin, sout], timeout=1200)
    srows = read_ndjson(sout)
    if len(srows) != len(streams):
        raise ToolError("c08-stream: %d of %d" % (len(srows), len(streams)))
    acc, rs_, rej = validate_trace("Trace_FrameStream", "Trace_FrameStream.cfg", sout, timeout=600)
    if not acc:
        raise ToolError("Trace_FrameStream did not consume its input (line %s)" % rej)
    for b in sorted({int(m.group(1)) - 1 for m in _re.finditer(r'<<"BAD", (\d+)>>', rs_.out)})[:5]:
        x = srows[b]
        v.violation("frames with bodies of %s bytes written back to back into one reader were read as %s (bytes left over: %s)" % (
            x["lens"], json.dumps(x["frames"])[:400], x["rest"]), [x])
    # ---- the tablets custom payload (decoded in the scylla crate) ------------------------------------------------
    g = tlc("MC_TabletPayload", "MC_TabletPayload.cfg", workers=2, timeout=300)
    if not g.ok() or not g.finished:
        raise ToolError("MC_TabletPayload failed: %s" % g.out[-300:])
    pls = g.json_prints("PAYLOAD")
    if len(pls) < 2000:
        raise ToolError("too few tablet payloads: %d" % len(pls))
    for k, x in enumerate(pls):
        x["id"] = k
    tin, tout = os.path.join(wd, "tablets.ndjson"), os.path.join(wd, "tablets.out.ndjson")
    write_ndjson(tin, pls)
    tp = run_harness("vh-driver", ["c08", "tablets", tin, tout], timeout=1200, allow_fail=True)
    trows_all = read_ndjson(tout) if os.path.exists(tout) else []
    trows = [x for x in trows_all if "start" not in x]
    if tp.returncode != 0:
        started = [x["start"] for x in trows_all if "start" in x]
        done = {x["id"] for x in trows}
        dead = [i for i in started if i not in done]
        note = _re.findall(r"ALLOC (\d+)", tp.stderr or "")
        if not dead:
            raise ToolError("c08 tablets harness failed rc=%s: %s" % (tp.returncode, (tp.stderr or "")[-300:]))
        x = pls[dead[-1]]
        v.violation("tablets-routing-v1 payload of %d bytes (%s, %d replicas): decoding killed the process (%s): %s" % (
            len(x["payload"]), x["kind"], x["r"], "a single allocation of %s bytes was requested" % note[-1] if note else "rc=%s" % tp.returncode, x["payload"]), [x])
    else:
        if len(trows) != len(pls):
            raise ToolError("c08 tablets: %d of %d" % (len(trows), len(pls)))
        for x, pl in zip(trows, pls):
            x["kind"] = pl["kind"]
        tj = os.path.join(wd, "tablets.j.ndjson")
        write_ndjson(tj, trows)
        acc, rt_, rej = validate_trace("Trace_TabletPayload", "Trace_TabletPayload.cfg", tj, timeout=600)
        if not acc:
            raise ToolError("Trace_TabletPayload did not consume its input (line %s)" % rej)
        for b in sorted({int(m.group(1)) - 1 for m in _re.finditer(r'<<"BAD", (\d+)>>', rt_.out)})[:5]:
            x = trows[b]
            v.violation("tablets-routing-v1 payload of %d bytes (%s): decoded with ok=%s panic=%s peak memory %s bytes: %s" % (
                x["len"], x["kind"], x["ok"], x["panic"], x["peak"], pls[b]["payload"]), [dict(x, payload=pls[b]["payload"])])
    v.add(frame_streams=len(streams), tablet_payloads=len(pls))
    # ---- typed values through the derived mappings, on metadata that names a field twice -------------------------------
    gd = tlc("MC_DupFields", "MC_DupFields.cfg", workers=4, timeout=600)
    if not gd.ok() or not gd.finished:
        raise ToolError("MC_DupFields failed: %s" % gd.out[-300:])
    dups = gd.json_prints("DUP")
    if len(dups) < 1000:
        raise ToolError("too few duplicate-field cases: %d" % len(dups))
    if tier != "thorough":
        dups = dups[::2]
    din, dout = os.path.join(wd, "dup.in.ndjson"), os.path.join(wd, "dup.out.ndjson")
    write_ndjson(din, dups)
    run_harness("vh-cql", ["c16", din, dout], timeout=900)
    drows = read_ndjson(dout)
    if len(drows) != len(dups):
        raise ToolError("c16 on duplicate-field cases: %d of %d" % (len(drows), len(dups)))
    dj = []
    for x in drows:
        ser, de = x.get("ser") or {}, x.get("de") or {}
        dj.append({"ser_panic": 1 if "PANIC" in str(ser.get("err", "")) else 0, "de_panic": 1 if "PANIC" in str(de.get("err", "")) else 0})
    djp = os.path.join(wd, "dup.j.ndjson")
    write_ndjson(djp, dj)
    acc, rd, rej = validate_trace("Trace_DupFields", "Trace_DupFields.cfg", djp, timeout=600)
    if not acc:
        raise ToolError("Trace_DupFields did not consume its input (line %s)" % rej)
    import re as _re2
    for b in sorted({int(m.group(1)) - 1 for m in _re2.finditer(r'<<"BAD", (\d+)>>', rd.out)})[:3]:
        x = drows[b]
        v.violation("derived mapping %s (%s) against a definition naming a field twice %s: serialize -> %s; type_check / deserialize -> %s (a value or an error is required, not a panic)" % (
            dups[b]["s"], dups[b]["mode"], ["%s:%s" % (f["n"], f["t"].get("n", f["t"].get("k"))) for f in dups[b]["db"]], str((x.get("ser") or {}).get("err", "ok"))[:160], str((x.get("de") or {}).get("err", "ok"))[:200]), [x])
    v.add(duplicate_field_cases=len(dups), duplicate_field_type_check_accepted=sum(1 for x in drows if (x.get("de") or {}).get("tc_ok") == 1))
    kinds = {}
    for c in cases:
        kinds[c["kind"]] = kinds.get(c["kind"], 0) + 1
    v.add(evaluations=len(cases), distinct_nontrivial=len({json.dumps([c["frame"] if len(c["frame"]) < 5000 else len(c["frame"]), c["comp"], c["feat"]]) for c in cases}),
          rule="evaluation = one frame pushed through the whole real decoding pipeline in a sandboxed child; distinct = distinct (frame, compression, features); every record judged by TLC",
          by_kind=kinds, response_kinds=len({c["d"]["k"] for c in cases if c["kind"] == "wf"}), decoded_to_value=summ.get("values"), decoded_to_error=summ.get("errors"),
          slow_inputs_rerun=len(slow), still_timed_out=sum(1 for i in slow if outs[i].get("crash") == "timeout"),
          max_peak_core_ratio=round(max((o.get("peak_core", 0) / max(64, o["len"])) for o in outs), 1), trace_validation_states=st)
    v.sample({k: rows[0][k] for k in ("kind", "d", "hdr", "resp", "peak_core", "len")})
    v.sample(next(({k: x[k] for k in ("kind", "d", "hdr", "resp", "rows", "peak_core", "len")} for x in rows if x["kind"] == "wf" and x["d"]["k"] == "rows"), rows[0]))
    if not v.violations:
        base = next(x for x in rows if x["kind"] == "wf" and x["d"]["k"] == "rows" and x["rows"].get("ok") == 1 and len(x["rows"]["rows"]) > 1)
        b1 = json.loads(json.dumps(base))
        b1["rows"]["rows"][0], b1["rows"]["rows"][1] = b1["rows"]["rows"][1], b1["rows"]["rows"][0]
        b2 = json.loads(json.dumps(base))
        b2["peak_core"] = 16777216 + 64 * b2["len"] + 1
        res = []
        for k, b in enumerate((b1, b2)):
            pth = os.path.join(wd, "self%d.ndjson" % k)
            write_ndjson(pth, [b])
            res.append('<<"BAD", 1>>' not in validate_trace("Trace_CqlResponse", "Trace_CqlResponse.cfg", pth)[1].out)
        if any(res):
            raise ToolError("binding self-test failed %s" % res)
        v.add(binding_selftest="a record with two decoded rows swapped, and one a byte over the memory bound, are rejected")
    v.assumptions += [
        "memory 'in proportion' is formalised as peak <= 16 MiB + 64 x input bytes (a fixed budget no 16-bit count can exceed, plus proportional growth) for header + extensions + response + dynamic rows (4x that including 22 typed targets)",
        "the decoding stack is 2 MiB (a tokio worker's); an input that needs longer than 10 s is re-run with 120 s and only reported if it still does not finish",
        "custom payload map values are never null in well-formed frames (the driver refuses them with an error); what RawTablet::from_custom_payload decodes TO is judged by C15; here its termination / memory on well-formed, truncated and field-mutated payloads",
        "frames back to back: in-memory reader that hands out everything available at once (the worst case for a reader that over-reads)",
        "compressed well-formed frames use literal-only ('stored') LZ4 / Snappy streams written by the specification; codec internals are lz4_flex's / snap's"]
    return v.finish()


def replay(path):
    for r in read_ndjson(path)[:3]:
        print(json.dumps(r)[:1500])
    return 0
