"""C02 — every response reaches exactly the request it answers; a stream id is never on two unanswered requests.

 1. TLC: ConnRouter.tla (callers, writer/reader/orphaner around the handler map, wire, server; cancel at
    every stage; K ids so exhaustion is reachable): NoCrossDelivery, StreamUniqueOnWire, Bookkeeping,
    no spurious teardown, answered requests complete.
 2. TLC-generated operation sequences (allocate / response / late or duplicate response / unsolicited
    response / orphan notice incl. late ones / into_handlers) executed on the REAL ResponseHandlerMap with
    only K ids free (straddling bitmap words); returns judged by TLC (Trace_HandlerMapProp).
 3. The full 32768-id exhaustion / free / re-allocate cycle on the real map.
 4. TLC-generated caller/server schedules (submit, cancel at every stage, answers in any order) on the
    REAL Connection::router over an in-memory pipe, with and without write coalescing; what callers and
    server saw is judged by TLC (Trace_RouterProp).
 5. Binding self-tests.
"""
import copy
import json
import os
import random

from common import (SPEC, ToolError, Verdict, parallel_harness, read_ndjson, run_harness, seed, split_traces, tlc,
                    validate_distinct, validate_trace, workdir, write_ndjson)

PID = "C02"


def wcfg(name, text):
    with open(os.path.join(SPEC, name), "w") as f:
        f.write(text)
    return name


def gen(module, consts, simulate=None, depth=None):
    name = wcfg("_gen_%s.cfg" % module, "SPECIFICATION Spec\nCONSTANTS\n" + "".join("  %s = %s\n" % kv for kv in consts.items()) +
                "INVARIANTS Emit\nCHECK_DEADLOCK FALSE\n")
    try:
        r = tlc(module, name, workers=8, timeout=3000, simulate=simulate, depth=depth, tlc_seed=seed() if simulate else None)
    finally:
        os.remove(os.path.join(SPEC, name))
    if r.error:
        raise ToolError("generation failed: " + r.out[-400:])
    return r.json_prints("REPLAY")


def keep_obs(r):
    return "src" not in r and r.get("ev") not in ("Begin",)


def router_runs(v, wd, scheds, tag, coalescing, module="Trace_RouterProp"):
    outs, sums = parallel_harness("vh-driver", lambda i, o: ["c02", "router", i, o, "1" if coalescing else "0"], scheds, wd,
                                  nproc=8, timeout=3000, tag=tag)
    if sum(s.get("schedules", 0) for s in sums) != len(scheds):
        raise ToolError("router harness did not run all schedules")
    traces = []
    begs = {}
    for beg, t in split_traces(outs, keep=lambda r: True):
        if any(e.get("ev") == "Panic" for e in t):
            v.violation("panic in the connection router under schedule %s: %s" % (beg.get("ops"), [e for e in t if e.get("ev") == "Panic"][0].get("msg")), [beg] + t)
            continue
        obs = [e for e in t if keep_obs(e)]
        traces.append(obs)
        begs.setdefault(json.dumps(obs, sort_keys=True), (beg, t))
    nd, st, bad = validate_distinct(module, module + ".cfg", traces, wd, tag)
    return traces, nd, st, bad, begs


def run(tier):
    v = Verdict(PID, tier, "model_checking")
    wd = workdir(PID)
    thorough = tier == "thorough"
    rnd = random.Random(seed())

    # 1. design
    reqs, streams = ("{1, 2, 3, 4}", "{0, 1, 2}") if thorough else ("{1, 2, 3}", "{0, 1}")
    name = wcfg("_mc_c02.cfg", "SPECIFICATION Spec\nCONSTANTS\n  Req = %s\n  Streams = %s\n  AllowFault = FALSE\n"
                "INVARIANTS NoCrossDelivery StreamUniqueOnWire Bookkeeping NoSpuriousBreak\nPROPERTIES AnsweredCompletes\nCHECK_DEADLOCK FALSE\n" % (reqs, streams))
    r = tlc("ConnRouter", name, workers=8, coverage=True, timeout=3000, xmx="8g")
    os.remove(os.path.join(SPEC, name))
    if not r.ok() or not r.finished:
        raise ToolError("ConnRouter design violates its properties: %s %s" % (r.invariant_violated, r.out[-500:]))
    cov = r.coverage_actions()
    for a in ("Submit", "Cancel", "WriterTake", "ReaderLookup", "OrphanerStep"):
        if not cov.get(a):
            raise ToolError("vacuity: %s never taken" % a)
    v.add(states=r.distinct, transitions=r.generated, coverage_actions=cov, model_bounds={"Req": reqs, "Streams": streams})

    # 2. handler map op sequences on the real map
    seqs = gen("HandlerMapGen", {"R": 3, "K": 2, "MaxLen": 6})
    if thorough:
        seqs += gen("HandlerMapGen", {"R": 4, "K": 2, "MaxLen": 7})
        seqs += gen("HandlerMapGen", {"R": 5, "K": 3, "MaxLen": 10}, simulate=40000, depth=12)
    else:
        seqs += gen("HandlerMapGen", {"R": 4, "K": 2, "MaxLen": 8}, simulate=3000, depth=10)
    seqs = list({json.dumps(s): s for s in seqs}.values())
    free_sets = ["63,20000", "0,64"] if not thorough else ["63,20000", "0,64", "32767,127"]
    drift = []
    total_seq = 0
    for fs in free_sets:
        sub = seqs if fs == free_sets[0] else rnd.sample(seqs, min(len(seqs), 1500))
        outs, sums = parallel_harness("vh-driver", lambda i, o: ["c02", "map", i, o, fs], sub, wd, nproc=8, timeout=3000,
                                      tag="map" + fs.replace(",", "_"))
        total_seq += len(sub)
        for path in outs:
            rows = read_ndjson(path)
            ops_of = {}
            for row in rows:
                row.pop("ops", None)
            obs = os.path.join(wd, os.path.basename(path) + ".obs")
            write_ndjson(obs, rows)
            acc, rr, rej = validate_trace("Trace_HandlerMapProp", "Trace_HandlerMapProp.cfg", obs, timeout=3000)
            drift += sorted(set(l for l in rr.out.splitlines() if "DRIFT" in l))[:3]
            if not acc:
                # the sequence around the rejected line
                start = max(i for i, e in enumerate(rows[:rej]) if e.get("ev") == "Init")
                seq_rows = rows[start:rej]
                full = read_ndjson(path)[start]
                if any(e.get("ev") == "Panic" for e in seq_rows):
                    v.violation("panic in ResponseHandlerMap for operation sequence %s (free ids %s)" % (full.get("ops"), fs), seq_rows)
                else:
                    v.violation("the real ResponseHandlerMap returned what the property forbids (id handed out while still owed, "
                                "response routed to the wrong request / to an abandoned one, Missing for an owed id, or wrong into_handlers): "
                                "ops=%s free=%s last=%s" % (full.get("ops"), fs, json.dumps(seq_rows[-1])), [full] + seq_rows)
    v.add(traces_validated_against_impl=total_seq, handler_map_sequences=total_seq, free_id_sets=free_sets)
    v.sample({"handler_map_ops": seqs[len(seqs) // 3]})

    # 3. full id space
    exp = os.path.join(wd, "exhaust.ndjson")
    run_harness("vh-driver", ["c02", "exhaust", exp])
    ex = read_ndjson(exp)[0]
    if "panic" in ex:
        v.violation("full stream-id space cycle: the real handler map panicked (an id handed out while still owed / bookkeeping broken): %s" % ex["panic"][:300], [ex])
        ex = {"allocated": 32768, "distinct": 32768, "min": 0, "max": 32767, "wrong_owner": 0, "realloc_equals_freed": True, "extra_ok": False, "again_ok": False, "panic": ex["panic"][:300]}
    if not (ex["allocated"] == 32768 and ex["distinct"] == 32768 and ex["min"] == 0 and ex["max"] == 32767
            and ex["wrong_owner"] == 0 and ex["realloc_equals_freed"]):
        v.violation("full stream-id space cycle broke uniqueness / ownership: %s" % json.dumps(ex), [ex])
    if ex["extra_ok"] or ex["again_ok"]:
        v.violation("allocation succeeded although all 32768 ids are owed: %s" % json.dumps(ex), [ex])
    v.add(full_id_space=ex)

    # 4. router over a duplex pipe
    scheds = gen("RouterGen", {"R": 3, "MaxLen": 7, "Faults": "{}"})
    if thorough:
        scheds += gen("RouterGen", {"R": 4, "MaxLen": 9, "Faults": "{}"}, simulate=60000, depth=12)
        scheds += gen("RouterGen", {"R": 3, "MaxLen": 8, "Faults": "{}"})
    else:
        scheds += gen("RouterGen", {"R": 4, "MaxLen": 9, "Faults": "{}"}, simulate=4000, depth=12)
    scheds = list({json.dumps(s): s for s in scheds}.values())
    # many requests in flight at once: stream ids far beyond the first bitmap words must stay distinct on the wire
    nbulk = 6000 if thorough else 2600
    scheds.append([["B", 1, nbulk], ["Y", 0], ["C", 7], ["C", 2050], ["RA", 0], ["Y", 0]])
    scheds.append([["B", 1, 300], ["Y", 0], ["RA", 0], ["Y", 0], ["B", 301, 300], ["Y", 0], ["RA", 0], ["Y", 0]])
    # long histories: one request stays unanswered while tens of thousands of others pass through the connection (request-id and
    # stream-id bookkeeping must not wrap onto it); then it is abandoned while younger requests are unanswered
    for n in ((32765, 65533) if thorough else (65533,)):
        scheds.append([["S", 1], ["Y", 0], ["Q", 0, n], ["B", 2, 5], ["Y", 0], ["C", 1], ["Y", 0], ["RA", 0], ["Y", 0], ["Q", 100000, 40], ["S", 9], ["Y", 0]])
    # a response that arrives in two pieces while, in between, another request of the connection is abandoned (whatever reads the
    # socket must not lose the half-read frame); and an abandoned request whose answer comes only after a long time (virtual clock:
    # 90 s): its stream id stays owed, nobody else may be sent on it
    for k in (1, 4, 8, 9, 10, 25):
        scheds.append([["S", 1, 40], ["S", 2], ["Y", 0], ["RP", 1, k], ["Y", 0], ["C", 2], ["Y", 0], ["RQ", 1], ["Y", 0], ["S", 3], ["Y", 0], ["RA", 0], ["Y", 0]])
        scheds.append([["S", 1, 300], ["S", 2], ["S", 3], ["Y", 0], ["RP", 2, k], ["C", 3], ["Y", 0], ["C", 1], ["Y", 0], ["RQ", 2], ["Y", 0], ["RA", 0], ["Y", 0]])
    # a response larger than 64 KiB with the next response already waiting right behind it in the socket
    for big in (65537, 70000, 131073):
        scheds.append([["S", 1, big], ["S", 2], ["S", 3, 10], ["Y", 0], ["R", 1], ["R", 2], ["R", 3], ["Y", 0], ["S", 4], ["Y", 0]])
    scheds.append([["S", 1], ["Y", 0], ["C", 1], ["Y", 0], ["T", 90000], ["S", 2], ["Y", 0], ["R", 2], ["Y", 0], ["R", 1], ["Y", 0], ["S", 3], ["Y", 0]])
    scheds.append([["S", 1], ["S", 2], ["Y", 0], ["C", 2], ["T", 61000], ["S", 3], ["S", 4], ["Y", 0], ["RA", 0], ["Y", 0], ["T", 120000], ["S", 5], ["Y", 0]])
    ntr = 0
    for coal in (True, False):
        sub = scheds if coal else rnd.sample(scheds, min(len(scheds), 3000))
        traces, nd, st, bad, begs = router_runs(v, wd, sub, "rt%d" % coal, coal)
        ntr += len(traces)
        if bad is not None:
            beg, full = begs.get(json.dumps(bad, sort_keys=True), ({}, bad))
            v.violation("run of the real router not explained by the property (cross delivery, stream id on two unanswered requests, "
                        "error on a healthy connection, or a caller left waiting): schedule %s" % json.dumps(beg.get("ops")), [beg] + full)
        v.add(trace_validation_states=st)
    v.add(traces_validated_against_impl=ntr, router_schedules=len(scheds), router_runs=ntr)
    v.sample({"router_schedule": scheds[len(scheds) // 2]})

    # 5. self-tests
    if not v.violations:
        base = next(t for t in traces if any(e["ev"] == "Done" for e in t) and sum(1 for e in t if e["ev"] == "SrvRecv") >= 2)
        t1 = copy.deepcopy(base)
        for e in t1:
            if e["ev"] == "Done":
                e["tag"] += 1
                break
        t2 = copy.deepcopy(base)
        recvs = [e for e in t2 if e["ev"] == "SrvRecv"]
        recvs[1]["stream"] = recvs[0]["stream"]
        t2 = [e for e in t2 if e["ev"] != "SrvSend"]
        for nm, tt in (("crossdelivery", t1), ("dupstream", t2)):
            pth = os.path.join(wd, "self-%s.ndjson" % nm)
            write_ndjson(pth, tt)
            a, _, _ = validate_trace("Trace_RouterProp", "Trace_RouterProp.cfg", pth)
            if a:
                raise ToolError("binding self-test failed: %s accepted" % nm)
        v.add(binding_selftest="record with a foreign payload and record with one stream id on two unanswered requests both rejected")
    v.add(drift=sorted(set(drift))[:5], exhaustive=True)
    v.assumptions += ["router runs are single-threaded (current_thread runtime) over tokio::io::duplex; real TCP and multi-threaded runtimes are exercised by the mock-cluster checks",
                      "stream-id exhaustion is checked on the real map (full 32768 cycle and K-free prefilled maps), not through the router",
                      "bytes inside a frame are C09/C08's subject"]
    return v.finish()


def replay(path):
    rows = read_ndjson(path)
    for r in rows[:10]:
        print(json.dumps(r)[:300])
    return 0
