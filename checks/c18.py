"""C18 — monotonic timestamp generator: pairwise distinct, per-thread strictly increasing.

 1. TLC: Timestamp.tla (load / clock+CAS micro-steps, adversarial clock) — Unique,
    PerThreadIncreasing, LastIsMax, termination; plus the non-vacuity run (store instead of CAS must fail).
 2. Learn the hook event order of one call (load before clock before CAS) from the tree under test.
 3. Every behaviour of the generation bound (all interleavings x all clock readings incl. stall / repeat /
    step back) is forced on real threads through gates with a scripted clock; returned values are
    judged by TLC against TimestampProp (trace validation).
 4. Free-running stress on the real clock, judged by TLC.
 5. Binding self-test.
"""
import copy
import json
import os

from common import (SPEC, ToolError, Verdict, parallel_harness, read_ndjson, run_harness, seed, split_traces, tlc,
                    validate_distinct, validate_trace, workdir, write_ndjson)

PID = "C18"


def cfg(threads, calls, maxclock, cas=True, invs=("Unique", "PerThreadIncreasing", "LastIsMax"), view=True, live=True):
    s = "SPECIFICATION Spec\nCONSTANTS\n  Threads = {%s}\n  Calls = %d\n  MaxClock = %d\n  CasChecksSeen = %s\n" % (
        ", ".join(str(i + 1) for i in range(threads)), calls, maxclock, "TRUE" if cas else "FALSE")
    if view:
        s += "VIEW View\n"
    s += "INVARIANTS " + " ".join(invs) + "\n"
    if live:
        s += "PROPERTY Terminates\n"
    s += "CHECK_DEADLOCK FALSE\n"
    return s


def wcfg(name, text):
    with open(os.path.join(SPEC, name), "w") as f:
        f.write(text)
    return name


def gen(threads, calls, maxclock, simulate=None, depth=None):
    name = wcfg("_gen_c18.cfg", cfg(threads, calls, maxclock, invs=("Unique", "Emit"), view=False, live=False))
    try:
        r = tlc("MC_Timestamp", name, workers=8, timeout=3000, simulate=simulate, depth=depth,
                tlc_seed=seed() if simulate else None)
    finally:
        os.remove(os.path.join(SPEC, name))
    if r.error:
        raise ToolError("generation failed " + r.out[-500:])
    return r.json_prints("REPLAY")


def run(tier):
    v = Verdict(PID, tier, "model_checking")
    wd = workdir(PID)
    thorough = tier == "thorough"

    # 1. design
    t, c, k = (3, 3, 4) if thorough else (3, 2, 3)
    name = wcfg("_mc_c18.cfg", cfg(t, c, k))
    r = tlc("MC_Timestamp", name, workers=8, coverage=True, timeout=3000)
    os.remove(os.path.join(SPEC, name))
    if not r.ok() or not r.finished:
        raise ToolError("Timestamp model violates its own properties: %s" % r.out[-500:])
    cov = r.coverage_actions()
    if not cov.get("Load") or not cov.get("Cas"):
        raise ToolError("vacuity: %s" % cov)
    v.add(states=r.distinct, transitions=r.generated, model_bounds={"threads": t, "calls": c, "clock": k}, coverage_actions=cov)
    name = wcfg("_mc_c18b.cfg", cfg(2, 2, 2, cas=False, live=False))
    rb = tlc("MC_Timestamp", name, workers=4, timeout=600)
    os.remove(os.path.join(SPEC, name))
    if "Unique" not in rb.invariant_violated and "PerThreadIncreasing" not in rb.invariant_violated:
        raise ToolError("vacuity: the store-instead-of-CAS variant does not violate the invariants")
    v.add(non_vacuity="store-instead-of-CAS variant violates %s" % rb.invariant_violated)

    # 2. learn
    p = run_harness("vh-driver", ["c18", "learn"])
    learnt = json.loads(p.stdout.strip().splitlines()[-1])
    evs = learnt.get("events", [])
    if not any("TsLoad" in e for e in evs) or not any("TsCas" in e for e in evs):
        raise ToolError("vacuity: hooks produced no TsLoad/TsCas events: %s" % evs)
    v.add(learnt_events=evs)
    drift = []
    first = [e.split(":")[1] for e in evs if e.startswith("1:")][:4]
    if first != ["TsLoad", "TsClock", "TsComputed", "TsCas"]:
        drift.append("micro-step order of a call differs from the pinned one: %s" % first)

    # 3. forced interleavings with adversarial clock
    cases = gen(2, 2, 2)
    exhaustive_for = {"threads": 2, "calls": 2, "clock": 2}
    if thorough:
        cases += gen(3, 1, 3)
        cases += gen(2, 2, 3)
        cases += gen(3, 3, 4, simulate=30000, depth=80)
    else:
        cases += gen(3, 1, 2)
        cases += gen(3, 2, 3, simulate=3000, depth=60)
    cases = list({json.dumps(x, sort_keys=True): x for x in cases}.values())
    # the same behaviours under every generator configuration (the skew-warning paths: none / default threshold / any skew, warned
    # recently or not); g = 1 stretches one clock unit to 3 s so that a step back exceeds the default 1 s threshold
    import random as _r
    rg = _r.Random(seed())
    base_cases = cases
    cases = list(base_cases)
    for g, frac in ((2, 1.0), (1, 0.4), (3, 0.4)):
        sub = base_cases if frac >= 1 else rg.sample(base_cases, int(len(base_cases) * frac))
        cases += [dict(c, g=g) for c in sub]
    outs, sums = parallel_harness("vh-driver", lambda i, o: ["c18", "run", i, o], cases, wd, nproc=12, timeout=3000)
    if sum(s.get("schedules", 0) for s in sums) != len(cases):
        raise ToolError("harness did not run all cases")
    stuck = sum(s.get("stuck", 0) for s in sums)
    mis = sum(s.get("misaligned", 0) for s in sums)
    differ = sum(s.get("differ_from_model", 0) for s in sums)
    traces = []
    begs = {}
    for beg, tr in split_traces(outs, keep=lambda r: True):
        if any(e.get("ev") == "Panic" for e in tr):
            v.violation("panic in next_timestamp under forced interleaving", [beg] + tr)
        if any(e.get("ev") == "Stuck" for e in tr):
            v.violation("next_timestamp did not return under a forced interleaving (livelock/deadlock)", [beg] + tr)
            continue
        obs = [e for e in tr if e.get("ev") in ("TsRet", "Reset") and "src" not in e]
        traces.append(obs)
        begs.setdefault(json.dumps(obs, sort_keys=True), beg)
    nd, st, bad = validate_distinct("Trace_TimestampProp", "Trace_TimestampProp.cfg", traces, wd, "fine")
    if bad is not None:
        beg = begs.get(json.dumps(bad, sort_keys=True), {})
        v.violation("forced interleaving + scripted clock made the real generator hand out a duplicate or "
                    "non-increasing timestamp: %s" % json.dumps(bad)[:300], [beg] + bad)
    v.add(traces_validated_against_impl=len(traces), forced_cases=len(cases), forced_behaviours=len(base_cases), generator_configurations=4, exhaustive_for=exhaustive_for,
          distinct_records=nd, misaligned=mis, values_differ_from_model=differ, trace_validation_states=st)
    if mis:
        drift.append("%d schedules misaligned with the model's step structure" % mis)
    if differ:
        drift.append("%d runs returned values different from the model's prediction (not a verdict)" % differ)
    v.sample({"forced_case": cases[0]})
    v.sample({"record": traces[len(traces) // 2]})

    # 4. stress on the real clock
    sp = os.path.join(wd, "stress.ndjson")
    rounds = 20 if thorough else 4
    run_harness("vh-driver", ["c18", "stress", 8, 2000, sp, rounds], timeout=1200)
    acc, rs, rej = validate_trace("Trace_TimestampStress", "Trace_TimestampStress.cfg", sp, timeout=1200)
    if not acc:
        rows = read_ndjson(sp)
        v.violation("free-running threads got duplicate or non-increasing timestamps (round %s)" % rej,
                    [rows[(rej or 1) - 1]])
    v.add(traces_validated_against_impl=rounds, stress={"threads": 8, "calls": 2000, "rounds": rounds})

    # 5. binding self-test
    base = next((t for t in traces if sum(1 for e in t if e["ev"] == "TsRet") >= 2), None)
    if base:
        t1 = copy.deepcopy(base)
        rets = [e for e in t1 if e["ev"] == "TsRet"]
        rets[1]["v"] = rets[0]["v"]
        pth = os.path.join(wd, "self.ndjson")
        write_ndjson(pth, t1)
        a, _, _ = validate_trace("Trace_TimestampProp", "Trace_TimestampProp.cfg", pth)
        if a:
            raise ToolError("binding self-test failed: duplicated value accepted")
        v.add(binding_selftest="record with a duplicated value rejected")
    # ---- end-to-end: timestamps as the (mock) server sees them — explicit ones unchanged, generated ones increasing
    g = tlc("MC_TimestampE2E", "MC_TimestampE2E.cfg", workers=2, timeout=300)
    if not g.ok() or not g.finished:
        raise ToolError("MC_TimestampE2E failed: %s" % g.out[-400:])
    scripts = g.json_prints("SCRIPT")
    if len(scripts) < 100:
        raise ToolError("too few e2e scripts")
    for i, sc in enumerate(scripts):
        sc["id"] = i
    ein, eout = os.path.join(wd, "e2e.in.ndjson"), os.path.join(wd, "e2e.out.ndjson")
    write_ndjson(ein, scripts)
    run_harness("vh-driver", ["c18", "e2e", ein, eout], timeout=1800)
    erows = read_ndjson(eout)
    if len(erows) != len(scripts):
        raise ToolError("c18 e2e: %d of %d" % (len(erows), len(scripts)))

    def split(ts):
        return [ts >> 30, ts & ((1 << 30) - 1)]
    for x in erows:
        for st in x["steps"]:
            st["want"] = split(st["step"]["ts"])
            for f in st["frames"]:
                f["has_ts"] = 0 if f["ts"] == "none" else 1
                f["ts"] = [0, 0] if f["ts"] == "none" else split(f["ts"])
    ej = os.path.join(wd, "e2e.j.ndjson")
    write_ndjson(ej, erows)
    acc, rr, rej = validate_trace("Trace_TimestampE2E", "Trace_TimestampE2E.cfg", ej, timeout=900)
    if not acc:
        raise ToolError("Trace_TimestampE2E did not consume its input (line %s)" % rej)
    import re as _re
    for b in sorted({int(m.group(1)) - 1 for m in _re.finditer(r'<<"BAD", (\d+)>>', rr.out)})[:8]:
        x = erows[b]
        v.violation("timestamps seen by the node for %s: %s" % (
            [(s["step"]["op"], "explicit %d" % s["step"]["ts"] if s["step"]["explicit"] else "generated", "evicted" if s["step"]["evict"] else "") for s in x["steps"]],
            [[(f["opcode"], f["ts"][0] * (1 << 30) + f["ts"][1] if f["has_ts"] else None) for f in s["frames"]] for s in x["steps"]]), [x])
    lwt_live = sum(1 for x in erows if x.get("lwt_confirmed") == 1 and any(s["step"]["op"] == "execute_lwt" for s in x["steps"]))
    if lwt_live == 0 and not v.violations:
        raise ToolError("c18 e2e: no script executed a statement the driver holds as LWT-confirmed (the mock's LWT mark did not arrive)")
    v.add(e2e_scripts=len(erows), e2e_frames=sum(len(s["frames"]) for x in erows for s in x["steps"]),
          e2e_ops=sorted({s["step"]["op"] for x in erows for s in x["steps"]}), e2e_scripts_with_lwt_marked_statement=lwt_live)
    v.add(drift=drift, exhaustive=True)
    v.assumptions += ["sequentially consistent interleavings at hook granularity (the code uses SeqCst atomics)",
                      "clock readings are scripted per thread through the cfg(scylla_verif) clock override; everything else in compute_next is the real code",
                      "statement-level explicit timestamps (end-to-end half) are covered by the mock-cluster checks when present"]
    return v.finish()


def replay(path):
    rows = read_ndjson(path)
    wd = workdir(PID)
    for r in rows:
        if isinstance(r, dict) and r.get("case"):
            write_ndjson(os.path.join(wd, "r.in"), [r["case"]])
            run_harness("vh-driver", ["c18", "run", os.path.join(wd, "r.in"), os.path.join(wd, "r.out")])
            obs = [e for e in read_ndjson(os.path.join(wd, "r.out")) if e.get("ev") in ("TsRet", "Reset") and "src" not in e]
            write_ndjson(os.path.join(wd, "r.obs"), obs)
            a, _, rej = validate_trace("Trace_TimestampProp", "Trace_TimestampProp.cfg", os.path.join(wd, "r.obs"))
            print("replay:", "accepted" if a else "REJECTED", obs)
            if not a:
                print("VIOLATION property=%s replay=%s" % (PID, path))
                return 1
    return 0
