"""C10 — when a connection dies every request in flight fails promptly; none hangs; no foreign / partial bytes.

 1. TLC: ConnRouter.tla with faults: safety (NoCrossDelivery, StreamUniqueOnWire) + liveness NobodyHangs.
 2. Fault enumeration on the REAL router over an in-memory pipe under a paused clock:
    for scripts with 1..4 requests in flight and responses of different sizes, EVERY byte offset of the
    response stream is cut (FIN), plus garbage headers (client-direction bit, bad version, unknown opcode,
    noise), an unsolicited stream id, and a silent stall with keep-alive on; TLC-generated schedules with a
    final fault add cancellation / partial answering before the fault.
    Every run is judged by TLC (Trace_RouterProp): after the fault every caller is resolved; a caller gets
    a value only if its complete frame preceded the cut and the payload is its own.
"""
import json
import os

from common import ToolError, Verdict, read_ndjson, seed, tlc, workdir, write_ndjson, SPEC, validate_trace
from c02 import gen, router_runs, wcfg

PID = "C10"


def cut_scripts(thorough):
    scripts = []
    sizes = [[0], [5, 0], [0, 300, 7], [1, 0, 40, 2]] if not thorough else [[0], [5, 0], [0, 300, 7], [1, 0, 40, 2], [700, 700], [0, 0, 0, 0]]
    for sz in sizes:
        total = sum(9 + 8 + s for s in sz)
        for cut in range(0, total + 1):
            ops = [["S", i + 1, s] for i, s in enumerate(sz)] + [["Y", 0], ["F", "cut", cut]]
            scripts.append(ops)
        # partially answered before the cut, and one caller gone
        for cut in range(0, total + 1, 3 if not thorough else 1):
            ops = [["S", i + 1, s] for i, s in enumerate(sz)] + [["Y", 0], ["R", 1], ["C", len(sz)], ["Y", 0], ["F", "cut", cut]]
            scripts.append(ops)
    for n in (1, 2, 3):
        base = [["S", i + 1] for i in range(n)] + [["Y", 0]]
        for g in range(4):
            scripts.append(base + [["F", "garbage", g]])
        scripts.append(base + [["F", "unsolicited"]])
        scripts.append(base + [["F", "fin"]])
        scripts.append(base + [["R", 1], ["F", "fin"]])
        scripts.append({"ops": base + [["F", "stall"]], "keepalive": [1000, 500]})
        scripts.append({"ops": base + [["R", 1], ["Y", 0], ["F", "stall"]], "keepalive": [300, 2000]})
        # silent peer while callers keep submitting (and abandoning) requests on the connection
        scripts.append({"ops": base + [["F", "stall", 1]], "keepalive": [900, 600]})
        # ... and a peer that has stopped READING too, behind a pipe that holds only 64 bytes: the writer is stuck in the middle
        # of a request when the keep-alive gives up
        scripts.append({"ops": [["CAP", 64]] + base + [["F", "stall", 2]], "keepalive": [900, 600]})
        scripts.append({"ops": [["CAP", 48]] + base + [["R", 1], ["Y", 0], ["F", "stall", 2]], "keepalive": [400, 900]})
    return scripts


def run(tier):
    v = Verdict(PID, tier, "fault_enumeration")
    wd = workdir(PID)
    thorough = tier == "thorough"
    reqs, streams = ("{1, 2, 3, 4}", "{0, 1, 2}") if thorough else ("{1, 2, 3}", "{0, 1}")
    name = wcfg("_mc_c10.cfg", "SPECIFICATION Spec\nCONSTANTS\n  Req = %s\n  Streams = %s\n  AllowFault = TRUE\n"
                "INVARIANTS NoCrossDelivery StreamUniqueOnWire Bookkeeping\nPROPERTIES NobodyHangs\nCHECK_DEADLOCK FALSE\n" % (reqs, streams))
    r = tlc("ConnRouter", name, workers=8, coverage=True, timeout=3000, xmx="8g")
    os.remove(os.path.join(SPEC, name))
    if not r.ok() or not r.finished:
        raise ToolError("ConnRouter (faults) violates its properties: %s %s" % (r.invariant_violated, r.out[-500:]))
    cov = r.coverage_actions()
    if not cov.get("SrvBreak") or not cov.get("RouterBreak"):
        raise ToolError("vacuity: fault actions never taken")
    v.add(model_states=r.distinct, model_transitions=r.generated, coverage_actions=cov)

    scripts = cut_scripts(thorough)
    kinds = "{\"fin\", \"unsolicited\"}"
    gen_s = gen("RouterGen", {"R": 3, "MaxLen": 6, "Faults": kinds})
    # F ops from the generator carry only the kind
    for s in gen_s:
        for op in s:
            if op[0] == "F":
                op[1:] = [op[1]]
    if not thorough and len(gen_s) > 6000:
        import random
        gen_s = random.Random(seed()).sample(gen_s, 6000)
    allruns = scripts + gen_s
    traces, nd, st, bad, begs = router_runs(v, wd, allruns, "c10", True)
    if bad is not None:
        beg, full = begs.get(json.dumps(bad, sort_keys=True), ({}, bad))
        pend = [e for e in bad if e.get("ev") == "End"]
        what = "a caller was left waiting after the connection died" if pend and pend[-1].get("pending") else \
            "a caller was handed a foreign or partial response, or an error on a healthy connection"
        v.violation("%s: script %s" % (what, json.dumps(beg.get("ops"))), [beg] + full)
    faults = {}
    for t in traces:
        for e in t:
            if e.get("ev") == "Fault":
                faults[e["kind"]] = faults.get(e["kind"], 0) + 1
    cuts = sum(1 for s in scripts if isinstance(s, list) and s[-1][:2] == ["F", "cut"])
    v.add(evaluations=len(allruns), distinct_nontrivial=nd,
          rule="one evaluation = one run of the real router with one fault; distinct_nontrivial = number of distinct observable "
               "records (callers' and server's view) among them; every byte offset of each response-stream script is cut",
          fault_kinds=faults, cut_offsets=cuts, trace_validation_states=st, exhaustive=True)
    v.sample({"script": scripts[7]})
    v.sample({"record": traces[7]})
    if not v.violations:
        # self-test: a record where a caller remains pending must be rejected
        base = next(t for t in traces if any(e["ev"] == "DoneErr" for e in t))
        t1 = [e for e in base if e["ev"] != "DoneErr"]
        for e in t1:
            if e["ev"] == "End":
                e["pending"] = [1]
        pth = os.path.join(wd, "self.ndjson")
        write_ndjson(pth, t1)
        a, _, _ = validate_trace("Trace_RouterProp", "Trace_RouterProp.cfg", pth)
        if a:
            raise ToolError("binding self-test failed: hanging caller accepted")
        v.add(binding_selftest="record with a caller left pending after the fault rejected")
    # ---- pool level: the session keeps working through the remaining connections (mock cluster, real Session)
    from common import run_harness
    import re as _re
    g = tlc("PoolDeath", "PoolDeath.cfg", workers=2, timeout=300)
    if not g.ok() or not g.finished:
        raise ToolError("PoolDeath failed: %s" % g.out[-400:])
    scripts = sorted(g.json_prints("SCRIPT"), key=lambda x: json.dumps(x, sort_keys=True))
    if len(scripts) < 20:
        raise ToolError("too few pool scripts")
    for i, sc in enumerate(scripts):
        sc["id"] = i
    pin, pout = os.path.join(wd, "pool.in.ndjson"), os.path.join(wd, "pool.out.ndjson")
    write_ndjson(pin, scripts)
    run_harness("vh-driver", ["c20", "run", pin, pout], timeout=1800)
    prow = read_ndjson(pout)
    if len(prow) != len(scripts):
        raise ToolError("pool phase: %d of %d" % (len(prow), len(scripts)))
    pj = []
    for o in prow:
        settled = [{"ok": q["ok"], "nframes": len(q["frames"]), "err": q.get("err", "")[:120]} for st in o.get("steps", []) if st["step"].get("settled") == 1 for q in st.get("reqs", [])]
        pj.append({"id": o["id"], "start_err": o.get("start_err", ""), "settled": settled})
    pjp = os.path.join(wd, "pool.j.ndjson")
    write_ndjson(pjp, pj)
    acc, rr, rej = validate_trace("Trace_PoolDeath", "Trace_PoolDeath.cfg", pjp, timeout=600)
    if not acc:
        raise ToolError("Trace_PoolDeath did not consume its input (line %s)" % rej)
    for b in sorted({int(m.group(1)) - 1 for m in _re.finditer(r'<<"BAD", (\d+)>>', rr.out)})[:6]:
        x, sc = pj[b], scripts[b]
        failed = [q for q in x["settled"] if q["ok"] != 1]
        v.violation("pool %s on %d node(s): after one of a node's connections was closed (%s) while the node accepted no new ones, %d of %d later requests failed, e.g. %s %s" % (
            json.dumps(sc["pool"]), len(sc["nodes"]), "RST" if any(st.get("rst") == 1 for st in sc["steps"]) else "FIN", len(failed), len(x["settled"]),
            failed[0]["err"] if failed else "", x["start_err"]), [prow[b]])
    v.add(pool_scripts=len(pj), pool_requests=sum(len(x["settled"]) for x in pj))
    v.assumptions += ["faults are injected on an in-memory duplex pipe under tokio's paused clock (keep-alive timing is virtual)",
                      "the pool-level half (dead connection dropped, session continues on re-established connections) belongs to the mock-cluster checks",
                      "RST is represented by EOF/garbage on the pipe (a duplex pipe has no RST)"]
    return v.finish()


def replay(path):
    rows = read_ndjson(path)
    for r in rows[:10]:
        print(json.dumps(r)[:300])
    return 0
