"""C16 — derived row / UDT mappings bind fields by name regardless of database order.

ByName.tla transcribes the documentation of the four derive macros (flavors match_by_name / enforce_order,
skip_name_checks, forbid_excess_udt_fields, rename, skip, allow_missing, default_when_null, flatten) as two functions:
SerExp (accept / refuse, cells in DATABASE order) and DeExp (type_check, deserialize, value of every Rust field), with
bytes from CqlValue.Cell. TLC (MC_ByName) enumerates, for each of 13 derived structs and both modes (UDT / row), the
database-side layouts — every permutation, an extra field at every position of every permutation, every proper subset
in both orders, two extras, wrong / alternative types, a field replaced by a stranger — with two value assignments, every
null pattern on three layouts and UDT values that stop early; it also checks the specification's own round-trip lemma.
vh-cql c16 runs the REAL derived impls on every case; TLC judges every record (Trace_ByName).
"""
import concurrent.futures
import json
import os

from common import ToolError, Verdict, read_ndjson, run_harness, tlc, validate_trace, workdir, write_ndjson

PID = "C16"


def run(tier):
    v = Verdict(PID, tier, "exploration")
    wd = workdir(PID)
    cfg = os.path.join(wd, "MC_ByName.cfg")
    with open(cfg, "w") as f:
        f.write("SPECIFICATION Spec\nCONSTANTS Six = %s\nINVARIANTS Emit RoundTrip\nCHECK_DEADLOCK FALSE\n" % ("TRUE" if tier == "thorough" else "FALSE"))
    r = tlc("MC_ByName", cfg, workers=8, timeout=1200, xmx="6g")
    if not r.ok() or not r.finished:
        raise ToolError("ByName specification violates its own round-trip lemma or failed: %s %s" % (r.invariant_violated, r.out[-600:]))
    cases = r.json_prints("CASE")
    if len(cases) < 8000:
        raise ToolError("too few cases: %d" % len(cases))
    cin, cout = os.path.join(wd, "cases.ndjson"), os.path.join(wd, "out.ndjson")
    write_ndjson(cin, cases)
    p = run_harness("vh-cql", ["c16", cin, cout], timeout=1800)
    summ = json.loads(p.stdout.strip().splitlines()[-1])
    outs = read_ndjson(cout)
    if len(outs) != len(cases) or summ.get("bad_lines") or summ.get("unknown_struct") or summ.get("unbuildable_vals"):
        raise ToolError("c16 harness: %s" % summ)
    rows = []
    for i, o in zip(cases, outs):
        if o["s"] != i["s"] or o["db"] != i["db"] or o["wire"] != i["wire"]:
            raise ToolError("c16 harness output out of step with its input")
        o["wvals"] = i["wvals"]
        for d in ("ser", "de"):
            if "err" in o[d]:
                o[d]["err"] = o[d]["err"][:300]
        rows.append(o)
    nchunks = 6
    paths = []
    for c in range(nchunks):
        pth = os.path.join(wd, "j-%d.ndjson" % c)
        write_ndjson(pth, rows[c::nchunks])
        paths.append(pth)

    def judge(c):
        acc, rr, rej = validate_trace("Trace_ByName", "Trace_ByName.cfg", paths[c], timeout=1800, xmx="3g")
        return c, acc, rr.distinct, rej

    st = 0
    with concurrent.futures.ThreadPoolExecutor(max_workers=6) as ex:
        for c, acc, dist, rej in ex.map(judge, range(nchunks)):
            st += dist
            if acc:
                continue
            bad = rows[c::nchunks][(rej or 1) - 1]
            ser, de = bad["ser"], bad["de"]
            v.violation("struct %s as %s against database layout %s: serialize -> %s; type_check %s, deserialize -> %s — not what the attributes in force document" % (
                bad["s"], bad["mode"], [d["n"] + ":" + d["t"]["n"] for d in bad["db"]],
                ("bytes %s" % ser.get("bytes")) if ser.get("ok") == 1 else ("refused (%s)" % str(ser.get("err", ser))[:120]),
                {1: "ok", 0: "refused"}.get(de.get("tc_ok"), "n/a"),
                json.dumps(de.get("val"))[:300] if de.get("ok") == 1 else str(de.get("err", de))[:160]), [bad])
    structs = sorted({x["s"] for x in rows})
    v.add(evaluations=2 * len(rows) - sum(1 for x in rows for d in ("ser", "de") if "na" in x[d]),
          distinct_nontrivial=len({json.dumps([x["s"], x["mode"], x["db"], x["vals"], x["wire"]], sort_keys=True) for x in rows}),
          rule="evaluation = one direction (serialize, or type_check + deserialize) of one (struct, mode, database layout, values / wire) case run through the real derived impl; "
               "distinct = distinct cases; every record judged by TLC against ByName.tla",
          structs=len(structs), cases=len(cases), serialize_accepted=summ["ser_ok"], serialize_refused=summ["ser_err"],
          type_check_refused=summ["tc_err"], deserialize_ok=summ["de_ok"], deserialize_refused=summ["de_err"], panics=summ["panics"],
          layouts=len({json.dumps(x["db"], sort_keys=True) for x in rows}), trace_validation_states=st,
          six_field_permutations=(tier == "thorough"))
    v.sample(next(x for x in rows if x["s"] == "Renamed" and x["mode"] == "udt" and x["ser"].get("ok") == 1 and [d["n"] for d in x["db"]][0] != "a"))
    v.sample(next(x for x in rows if x["s"] == "OrderedNoNames" and x["de"].get("ok") == 1))
    if not v.violations:
        base = next(x for x in rows if x["s"] == "Same" and x["mode"] == "udt" and x["ser"].get("ok") == 1 and x["de"].get("ok") == 1
                    and [d["n"] for d in x["db"]] == ["d", "c", "b", "a"])
        bad1 = json.loads(json.dumps(base))
        bad1["de"]["val"]["a"], bad1["de"]["val"]["d"] = bad1["de"]["val"]["d"], bad1["de"]["val"]["a"]     # positional instead of by-name binding
        bad2 = json.loads(json.dumps(base))
        bad2["ser"]["bytes"] = bad2["ser"]["bytes"][:4] + bad2["ser"]["bytes"][-8:] + bad2["ser"]["bytes"][12:-8] + bad2["ser"]["bytes"][4:12]
        res = []
        for k, b in enumerate((bad1, bad2)):
            pth = os.path.join(wd, "self%d.ndjson" % k)
            write_ndjson(pth, [b])
            res.append(validate_trace("Trace_ByName", "Trace_ByName.cfg", pth)[0])
        if any(res):
            raise ToolError("binding self-test failed %s" % res)
        v.add(binding_selftest="a record with two same-typed fields bound by position instead of by name is rejected (both directions)")
    v.assumptions += [
        "the family is the 13 structs of harness/vh-cql/src/c16_structs.rs (4 fields; attributes a derive does not accept are left off that derive, see FORMAT.md)",
        "UDT fields unknown to the struct at the END of the definition may be omitted or sent as nulls (equivalent on the wire); error kinds are not compared, only accept / refuse",
        "field values: two fixed assignments with pairwise distinct values per field (so that a mis-binding is visible even between same-typed fields), not random ones"]
    return v.finish()


def replay(path):
    for r in read_ndjson(path)[:5]:
        print(json.dumps(r)[:900])
    return 0
