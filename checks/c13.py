"""C13 — speculative execution: bounded, first real answer wins, always returns.

 1. TLC: SpecExec.tla (timer / FuturesUnordered / select! machine in virtual time, both tie orders)
    satisfies PropOK for every scenario (max count x interval x per-fiber duration x outcome), never hangs,
    never reaches the select!-panic state.
 2. TLC enumerates the scenarios; each is run several times on the real `execute` under tokio's paused
    clock with synthetic executions; the record (starts, ends, return / hang) is judged by TLC with the
    same PropOK (Trace_SpecExecProp).
 3. Binding self-test.
"""
import copy
import json
import os

from common import (SPEC, ToolError, Verdict, parallel_harness, read_ndjson, run_harness, seed, tlc, validate_trace, workdir,
                    write_ndjson)

PID = "C13"


def cfg(spec, maxm, intervals, invs, prop=None):
    s = "SPECIFICATION %s\nCONSTANTS\n  MaxM = %d\n  Intervals = {%s}\n  Durs = {0, 1, 2, 4}\n  Outs = {\"Ok\", \"Def\", \"Ign\", \"Exh\"}\n" % (
        spec, maxm, ", ".join(str(i) for i in intervals))
    s += "INVARIANTS " + " ".join(invs) + "\n"
    if prop:
        s += "PROPERTY " + prop + "\n"
    s += "CHECK_DEADLOCK FALSE\n"
    return s


def wcfg(name, text):
    with open(os.path.join(SPEC, name), "w") as f:
        f.write(text)
    return name


def run(tier):
    v = Verdict(PID, tier, "model_checking")
    wd = workdir(PID)
    thorough = tier == "thorough"
    maxm, intervals, reps = (3, [0, 1, 2, 3], 6) if thorough else (2, [1, 2], 4)

    name = wcfg("_mc_c13.cfg", cfg("Spec", maxm, intervals, ["DesignOK", "NoSelectPanic"], "AlwaysReturns"))
    r = tlc("MC_SpecExec", name, workers=8, coverage=True, timeout=3000, xmx="8g")
    os.remove(os.path.join(SPEC, name))
    if not r.ok() or not r.finished:
        raise ToolError("SpecExec design violates its properties: %s %s" % (r.invariant_violated, r.out[-600:]))
    cov = r.coverage_actions()
    for a in ("TimerFire", "FiberDone", "Advance"):
        if not cov.get(a):
            raise ToolError("vacuity: %s never taken" % a)
    v.add(states=r.distinct, transitions=r.generated, coverage_actions=cov,
          model_bounds={"max_speculative": maxm, "intervals": intervals, "durations": [0, 1, 2, 4], "outcomes": 4})

    name = wcfg("_gen_c13.cfg", cfg("GenSpec", maxm, intervals, ["Emit"]))
    rg = tlc("MC_SpecExec", name, workers=4, timeout=3000, xmx="8g")
    os.remove(os.path.join(SPEC, name))
    scen = rg.json_prints("SCEN")
    if not scen:
        raise ToolError("no scenarios generated")
    outs, sums = parallel_harness("vh-driver", lambda i, o: ["c13", "run", i, o, reps], scen, wd, nproc=8, timeout=3000)
    runs = sum(s.get("runs", 0) for s in sums)
    if runs != len(scen) * reps:
        raise ToolError("harness ran %d of %d" % (runs, len(scen) * reps))
    import concurrent.futures

    def judge(path):
        acc, rr, rej = validate_trace("Trace_SpecExecProp", "Trace_SpecExecProp.cfg", path, timeout=3000, xmx="3g")
        return path, acc, rr.distinct, rej

    st = 0
    with concurrent.futures.ThreadPoolExecutor(max_workers=4) as ex:
        for path, acc, dist, rej in ex.map(judge, outs):
            st += dist
            if not acc:
                rows = read_ndjson(path)
                bad = rows[(rej or 1) - 1]
                kinds = [e.get("k") for e in bad["evs"]]
                what = "hung (never returned)" if "H" in kinds else "panicked" if "P" in kinds else "returned what the property does not allow"
                v.violation("speculative execution %s for scenario %s: events %s" % (
                    what, json.dumps(bad["scen"]), json.dumps(bad["evs"])[:500]), [bad])
    v.add(traces_validated_against_impl=runs, scenarios=len(scen), repetitions=reps, trace_validation_states=st, exhaustive=True)
    rows = read_ndjson(outs[0])
    v.sample(rows[len(rows) // 2])

    # 2b. end-to-end through the real execution loop with a speculative policy: idempotence gate (a request
    #     not marked idempotent never has two attempts in flight), bounded parallelism, distinct plan
    #     targets among concurrent attempts, EmptyPlan only when nothing could be tried; judged by TLC (ExecProp)
    import execloop
    scen2 = execloop.generate(thorough, want_spec=True)
    st2, xrows = execloop.run_and_judge(v, wd, scen2, "exec", "speculative execution through the execution loop")
    v.add(traces_validated_against_impl=len(scen2), exec_loop_scenarios=len(scen2), trace_validation_states=st + st2)
    v.sample({"exec_loop_record": {k: xrows[len(xrows) // 3][k] for k in ("pol", "idem", "maxspec", "plan", "evs")}})

    # self-test
    base = next((r_ for r_ in rows if any(e["k"] == "R" and e["r"] == "Ok" for e in r_["evs"]) and len(r_["evs"]) >= 4), None)
    if base is not None and not v.violations:
        t1 = copy.deepcopy(base)
        for e in t1["evs"]:
            if e["k"] == "R":
                e["r"] = "Ign"
        t2 = copy.deepcopy(base)
        t2["evs"] = [e for e in t2["evs"] if e["k"] != "R"] + [{"k": "H"}]
        for nm, tt in (("corrupt", t1), ("hang", t2)):
            pth = os.path.join(wd, "self-%s.ndjson" % nm)
            write_ndjson(pth, [tt])
            a, _, _ = validate_trace("Trace_SpecExecProp", "Trace_SpecExecProp.cfg", pth)
            if a:
                raise ToolError("binding self-test failed: %s record accepted" % nm)
        v.add(binding_selftest="record with a corrupted result and record ending in a hang both rejected")
    # ---- classification: every constructible failure of one execution, definitive or ignorable (real execute, paused clock)
    import re as _re
    cout = os.path.join(wd, "classify.ndjson")
    run_harness("vh-driver", ["c13", "classify", cout], timeout=300)
    crow = read_ndjson(cout)
    if len(crow) < 25:
        raise ToolError("c13 classify: %d errors" % len(crow))
    acc, rc_, rej = validate_trace("Trace_SpecClassify", "Trace_SpecClassify.cfg", cout, timeout=300)
    if not acc:
        raise ToolError("Trace_SpecClassify did not consume its input (line %s)" % rej)
    for b in sorted({int(m.group(1)) - 1 for m in _re.finditer(r'<<"BAD", (\d+)>>', rc_.out)}):
        x = crow[b]
        if x["name"] == "Bound":
            v.violation("speculative execution with at most %s speculative executions every %s units, each execution taking 5 units and succeeding: %s executions were started, the call returned %s at t=%s" % (
                x["max"], x["iv"], x["started"], x["result"], x["t"]), [x])
            continue
        v.violation("speculative execution: an execution failing with %s at t=1 while another succeeds at t=5: the call returned %s at t=%s" % (x["name"], x["result"], x["t"]), [x])
    v.add(classified_failures=len(crow))
    # ---- end to end: mock nodes that answer late; frames in flight at the cluster (a real Session per scenario)
    from e2e import run_e2e
    run_e2e(v, wd, tier, "spec")
    v.assumptions += ["executions are synthetic futures (sleep d, then outcome) under tokio's paused clock; virtual time unit 10 ms",
                      "tie order between timer and completions is chosen by futures::select! at random: each scenario is repeated, and the design model covers both orders",
                      "phase 2b drives client/execution.rs (idempotence gate, shared plan) with synthetic attempts on dummy connections; frames on real sockets are the mock-cluster checks' subject"]
    return v.finish()


def replay(path):
    rows = [r for r in read_ndjson(path) if "scen" in r]
    wd = workdir(PID)
    write_ndjson(os.path.join(wd, "r.in"), [r["scen"] for r in rows[:5]])
    from common import run_harness
    run_harness("vh-driver", ["c13", "run", os.path.join(wd, "r.in"), os.path.join(wd, "r.out"), 20])
    a, _, rej = validate_trace("Trace_SpecExecProp", "Trace_SpecExecProp.cfg", os.path.join(wd, "r.out"))
    print("replay:", "accepted" if a else "REJECTED at %s" % rej)
    if not a:
        print("VIOLATION property=%s replay=%s" % (PID, path))
        return 1
    return 0
