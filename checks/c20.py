"""C20 — after USE keyspace succeeds, all requests run on connections in that keyspace.

Design level: PoolKeyspace.tla models a node's connection pool as the single-task event loop it is (use request: current
keyspace + USE on every published connection; a ready connection is published only if its keyspace is the current one,
else it is sent through keyspace setup again; kills; requests on any published connection). TLC explores all interleavings
for 3 connections, 2 keyspaces, 3 use calls and checks: a request never finds a keyspace other than the current one or one
whose call is still in flight; published connections are in the current keyspace unless a USE is pending on them; at rest
everything is in the last keyspace. Negative control: publishing without the check violates it.
Conformance: MC_Keyspace enumerates scripts (use / bursts of requests / use concurrent with requests / kill one|all by FIN|RST /
restart / add node, 3 cluster shapes, 3 USE-answer delays) and candidate names; vh-driver c20 runs them through a real Session
against the mock cluster, which records for every request frame the keyspace acknowledged on that connection on arrival; TLC
judges every frame (Trace_Keyspace, KeyspaceProp.Allowed) and every name (ValidName / exact USE text / nothing sent when refused).
"""
import json
import os
import random
import re

from common import ToolError, Verdict, read_ndjson, run_harness, seed, tlc, validate_trace, workdir, write_ndjson

PID = "C20"


def codes(s):
    return [ord(ch) for ch in s]


def prep(o, script):
    uses = [{"ks": u["ks"], "ok": u["ok"]} for u in o.get("uses", [])]
    reqs, names = [], []
    started = 0
    for st in o.get("steps", []):
        step = st["step"]
        if step["op"] in ("use", "use_and_req"):
            started += 1
        if step["op"] == "name":
            u = st["use"]
            names.append({"codes": codes(step["name"]), "cs": step.get("cs", 1), "ok": u["ok"], "err_kind": u.get("err_kind", ""),
                          "texts": [codes(f["text"]) for f in st.get("use_frames", [])]})
        for q in st.get("reqs", []):
            after = q["issued_after_use"]
            failed = [j for j in range(after + 1, started + 1) if uses[j - 1]["ok"] == 0]
            reqs.append({"uid": q["uid"], "ok": q["ok"], "after": after, "conc": q["concurrent_use"], "failed": failed,
                         "frames": [{"ks": f["ks"], "node": f["node"], "conn": f["conn"]} for f in q["frames"]]})
    settled = 1 if uses and uses[-1]["ok"] == 1 and not names else 0
    return {"id": o["id"], "start_err": o.get("start_err", ""), "uses": uses, "reqs": reqs, "names": names, "settled": settled,
            "final_conns": [{"ks": c["ks"], "node": c["node"], "conn": c["conn"]} for c in o.get("final_conns", [])]}


def run(tier):
    v = Verdict(PID, tier, "model_checking")
    wd = workdir(PID)
    r = tlc("PoolKeyspace", "MC_PoolKeyspace.cfg", workers=8, timeout=1800, xmx="8g")
    if not r.ok() or not r.finished:
        raise ToolError("PoolKeyspace.tla: %s %s" % (r.invariant_violated, r.out[-600:]))
    rn = tlc("PoolKeyspace", "MC_PoolKeyspace_neg.cfg", workers=4, timeout=600)
    if not rn.invariant_violated:
        raise ToolError("negative control of PoolKeyspace.tla not violated (vacuous model)")
    g = tlc("MC_Keyspace", "MC_Keyspace.cfg", workers=4, timeout=600)
    if not g.ok() or not g.finished:
        raise ToolError("MC_Keyspace failed: %s" % g.out[-600:])
    gen = g.json_prints("C20")
    scripts = sorted((x["s"] for x in gen if x["t"] == "script"), key=lambda s: json.dumps(s, sort_keys=True))
    names = sorted(((x["name"], x["cs"]) for x in gen if x["t"] == "name"), key=str)
    if len(scripts) < 700 or len(names) < 150:
        raise ToolError("generator: %d scripts, %d names" % (len(scripts), len(names)))
    rng = random.Random(seed())
    total = len(scripts)
    if tier == "quick":       # the enumeration is TLC's; a seeded sample of it is executed on every change (the node-down scripts always)
        down = [s for s in scripts if any(st.get("op") == "stop" or st.get("raw") for st in s["steps"]) or "use_reject" in s or "slow_use_node" in s
                or "use_void" in s or "zero_token" in s]
        scripts = down + rng.sample([s for s in scripts if s not in down], 50)
    ins = [dict(s, id=i) for i, s in enumerate(scripts)]
    shape = {"nodes": [{"shards": 0}, {"shards": 0}], "pool": {"kind": "per_host", "n": 1}, "use_delay_ms": 0}
    for k in range(0, len(names), 17):
        ins.append(dict(shape, id=len(ins), steps=[{"op": "name", "name": "".join(chr(c) for c in nm), "cs": cs} for nm, cs in names[k:k + 17]]))
    sin, sout = os.path.join(wd, "scripts.ndjson"), os.path.join(wd, "out.ndjson")
    write_ndjson(sin, ins)
    run_harness("vh-driver", ["c20", "run", sin, sout], timeout=3400)
    outs = read_ndjson(sout)
    if len(outs) != len(ins):
        raise ToolError("c20 harness: %d of %d" % (len(outs), len(ins)))
    errs = [o for o in outs if o.get("start_err")]
    if errs:
        raise ToolError("c20: %d scripts could not be run: %s" % (len(errs), errs[0]["start_err"][:200]))
    rows = [prep(o, s) for o, s in zip(outs, ins)]
    jp = os.path.join(wd, "j.ndjson")
    write_ndjson(jp, rows)
    acc, rr, rej = validate_trace("Trace_Keyspace", "Trace_Keyspace.cfg", jp, timeout=1800)
    if not acc:
        raise ToolError("Trace_Keyspace did not consume its input (line %s)" % rej)
    bad = sorted({int(m.group(1)) - 1 for m in re.finditer(r'<<"BAD", (\d+)>>', rr.out)})
    for b in bad[:10]:
        x, o = rows[b], outs[b]
        wrong = [(q["uid"], q["after"], q["conc"], [f["ks"] for f in q["frames"]]) for q in x["reqs"]
                 if any(f["ks"] not in ({x["uses"][q["after"] - 1]["ks"] if q["after"] else "none"} | {x["uses"][j - 1]["ks"] for j in q["conc"] + q["failed"]}) for f in q["frames"])]
        nm = [("".join(chr(c) for c in n["codes"])[:60], n["ok"], n["err_kind"], len(n["texts"])) for n in x["names"]][:6]
        v.violation("script %s: requests that found another keyspace (uid, after use #, concurrent uses, keyspaces found) %s; names %s; final connections %s" % (
            [s.get("op") + (":" + s["ks"] if "ks" in s else "") for s in ins[b]["steps"]][:24], wrong[:6], nm if x["names"] else "-",
            [c["ks"] for c in x["final_conns"]]), [o])
    nreq = sum(len(x["reqs"]) for x in rows)
    v.add(states=r.distinct, evaluations=nreq + sum(len(x["names"]) for x in rows), distinct_nontrivial=len(rows),
          rule="states = distinct states of the pool / keyspace design model; evaluation = one request (all its frames) or one candidate name run through a real Session against the mock cluster; distinct = scripts executed",
          scripts_enumerated=total, scripts_executed=len(scripts), names=len(names), requests=nreq, frames=sum(len(q["frames"]) for x in rows for q in x["reqs"]),
          frames_in_new_keyspace_during_use=sum(1 for x in rows for q in x["reqs"] if q["conc"] for f in q["frames"] if any(f["ks"] == x["uses"][j - 1]["ks"] for j in q["conc"])),
          connections_at_end=sum(len(x["final_conns"]) for x in rows), negative_control="publishing a ready connection without the keyspace check violates %s" % rn.invariant_violated,
          model_bounds={"connections": 3, "keyspaces": 2, "use_calls": 3, "opens": 3}, trace_validation_states=rr.distinct)
    v.sample({"steps": ins[0]["steps"][:6], "uses": rows[0]["uses"], "first_requests": rows[0]["reqs"][:3]})
    if not v.violations:
        base = next(x for x in rows if len(x["uses"]) >= 2 and any(q["after"] >= 1 and not q["conc"] and q["frames"] for q in x["reqs"]))
        b1 = json.loads(json.dumps(base))
        q = next(q for q in b1["reqs"] if q["after"] >= 1 and not q["conc"] and q["frames"])
        q["frames"][0]["ks"] = "none"
        b2 = json.loads(json.dumps(next(x for x in rows if x["names"])))
        n = next(n for n in b2["names"] if n["ok"] == 0)
        n["texts"] = [[85, 83, 69, 32] + n["codes"]]
        res = []
        for k, b in enumerate((b1, b2)):
            pth = os.path.join(wd, "self%d.ndjson" % k)
            write_ndjson(pth, [b])
            res.append('<<"BAD", 1>>' in validate_trace("Trace_Keyspace", "Trace_Keyspace.cfg", pth)[1].out)
        if not all(res):
            raise ToolError("binding self-test failed %s" % res)
        v.add(binding_selftest="a request frame found without keyspace after a returned use, and a refused name that still produced a USE frame, are rejected")
    v.assumptions += [
        "a use call that FAILED may have switched some connections: its keyspace is allowed for later requests until the next successful call",
        "requests issued while a use call is in flight may run in the old or the new keyspace",
        "the mock never rejects a USE (also for keyspaces that do not exist); names are judged by the driver's local validation only"]
    return v.finish()


def replay(path):
    for r in read_ndjson(path)[:2]:
        print(json.dumps(r)[:3000])
    return 0
