"""C17 — type mismatches are always rejected; a failed bind leaves the request intact.

Matrix half: TypeCompat.tla transcribes the documented carrier <-> CQL type relation (docs/source/data-types) as the
recursive predicate Fits(carrier, type, direction). TLC (MC_TypeCompat) enumerates the column types (all natives; list /
set / vector of every native; maps; tuples incl. permuted, shorter, longer; a UDT; two-level nestings), the harness
(vh-cql c17-matrix) runs the real `SerializeValue::serialize` and `DeserializeValue::type_check` of every carrier family on
every type, and TLC judges every cell (Trace_TypeCompat: outcome = Fits, no panic).
Rollback half: MC_Rollback.tla enumerates every history of <= MaxLen operations over {successful adds of four shapes,
type mismatch (2), nested element failure, failing custom serializer} containing at least one failure, plus the histories
around the 65535 value limit; vh-cql c17-rollback executes them on one real SerializedValues and dumps count, iter().count(),
raw buffer and cells after every operation; SerializedValues.tla judges every step (failed op: everything unchanged;
successful add: exactly the reference cell appended, CqlValue.Cell; count = number of cells always).
"""
import concurrent.futures
import json
import os

from common import (ToolError, Verdict, read_ndjson, run_harness, tlc, validate_trace, workdir, write_ndjson)

PID = "C17"


def run(tier):
    v = Verdict(PID, tier, "exploration")
    wd = workdir(PID)
    # ---- matrix -------------------------------------------------------------------------------------------------
    r = tlc("MC_TypeCompat", "MC_TypeCompat.cfg", workers=2, timeout=300)
    if not r.ok() or not r.finished:
        raise ToolError("MC_TypeCompat failed: %s" % r.out[-400:])
    types = r.json_prints("TYPE")
    if len(types) < 100:
        raise ToolError("too few types")
    tin, tout = os.path.join(wd, "types.ndjson"), os.path.join(wd, "matrix.ndjson")
    write_ndjson(tin, types)
    run_harness("vh-cql", ["c17-matrix", tin, tout], timeout=900)
    cells = read_ndjson(tout)
    fams = sorted({c["carrier"] for c in cells})
    if len(cells) != len(types) * len(fams) or len(fams) < 40:
        raise ToolError("matrix incomplete: %d cells, %d types, %d families" % (len(cells), len(types), len(fams)))
    # the same matrix with every collection / UDT type described as FROZEN (as servers describe nested and frozen columns):
    # frozen-ness changes nothing about which values fit
    tout2 = os.path.join(wd, "matrix-frozen.ndjson")
    run_harness("vh-cql", ["c17-matrix", tin, tout2], timeout=900, env_extra={"VH_FROZEN": "1"})
    cells2 = read_ndjson(tout2)
    if len(cells2) != len(cells):
        raise ToolError("frozen matrix incomplete: %d of %d" % (len(cells2), len(cells)))
    for c in cells:
        c["frozen"] = 0
    for c in cells2:
        c["frozen"] = 1
    cells = cells + cells2
    # ---- rollback -----------------------------------------------------------------------------------------------
    maxlen = 4 if tier == "quick" else 5
    cfg = os.path.join(wd, "MC_Rollback.cfg")
    with open(cfg, "w") as f:
        f.write("SPECIFICATION Spec\nCONSTANTS MaxLen = %d\nINVARIANTS Emit\nCHECK_DEADLOCK FALSE\n" % maxlen)
    r2 = tlc("MC_Rollback", cfg, workers=4, timeout=1200, xmx="6g")
    if not r2.ok() or not r2.finished:
        raise ToolError("MC_Rollback failed: %s" % r2.out[-400:])
    hists = r2.json_prints("HIST")
    hin, hout = os.path.join(wd, "hist.ndjson"), os.path.join(wd, "rollback.ndjson")
    write_ndjson(hin, hists)
    p = run_harness("vh-cql", ["c17-rollback", hin, hout], timeout=1800)
    summ = json.loads(p.stdout.strip().splitlines()[-1])
    if summ.get("harness_errors"):
        raise ToolError("c17-rollback harness errors: %s" % summ)
    recs = read_ndjson(hout)
    for x in recs:
        if x.get("cells", 0) is None:          # iter() panicked on the buffer: TLC's Json cannot read null
            x["cells"] = [[-1]]
    if len({x["h"] for x in recs}) != len(hists):
        raise ToolError("rollback: histories missing from output")

    # ---- judging (TLC) ------------------------------------------------------------------------------------------
    nchunks = 4 if tier == "quick" else 8
    byh = {}
    for x in recs:
        byh.setdefault(x["h"], []).append(x)
    hs = sorted(byh)
    jobs = [("Trace_TypeCompat", "Trace_TypeCompat.cfg", cells, "matrix")]
    for c in range(nchunks):
        part = [x for h in hs[c::nchunks] for x in byh[h]]
        jobs.append(("SerializedValues", "SerializedValues.cfg", part, "rollback-%d" % c))

    def judge(job):
        mod, cf, rows, name = job
        pth = os.path.join(wd, "j-%s.ndjson" % name)
        write_ndjson(pth, rows)
        acc, rr, rej = validate_trace(mod, cf, pth, timeout=1800, xmx="3g")
        return name, rows, acc, rr.distinct, rej

    st = 0
    with concurrent.futures.ThreadPoolExecutor(max_workers=6) as ex:
        for name, rows, acc, dist, rej in ex.map(judge, jobs):
            st += dist
            if acc:
                continue
            bad = rows[(rej or 1) - 1]
            if name == "matrix":
                v.violation("carrier %s on column type %s%s: serialize %s (bytes left after refusal: %d, panic %d), type_check %s — "
                            "differs from the documented compatibility relation" % (
                                bad["carrier"], json.dumps(bad["t"]), " (collection / UDT types described as frozen)" if bad.get("frozen") else "",
                                "accepted" if bad["ser_ok"] else "refused", bad["ser_left"],
                                bad["ser_panic"], {1: "accepted", 0: "refused", -1: "n/a"}[bad["tc_ok"]]), [bad])
            else:
                hist = hists[bad["h"]]["ops"]
                prev = [x for x in byh[bad["h"]] if x["i"] == bad["i"] - 1]
                v.violation("history %s: after op %d (%s, ok=%d) count=%d iter_count=%d buf_len=%d (before: count=%s buf_len=%s)" % (
                    json.dumps([o["op"] for o in hist]), bad["i"], bad["op"], bad["ok"], bad["count"], bad["iter_count"], bad["buf_len"],
                    prev[0]["count"] if prev else 0, prev[0]["buf_len"] if prev else 0), [{"history": hist}] + prev + [bad])
    # ---- counts: whole-row binds at the 16-bit limit, vectors with a wrong number of elements, row tuples of another arity
    import re as _re
    wout = os.path.join(wd, "whole.ndjson")
    run_harness("vh-cql", ["c17-whole", "-", wout], timeout=600)
    wrec = read_ndjson(wout)
    if len(wrec) < 60:
        raise ToolError("c17-whole: %d records" % len(wrec))
    acc, rw, rej = validate_trace("Trace_BindWhole", "Trace_BindWhole.cfg", wout, timeout=300)
    if not acc:
        raise ToolError("Trace_BindWhole did not consume its input (line %s)" % rej)
    for b in sorted({int(m.group(1)) - 1 for m in _re.finditer(r'<<"BAD", (\d+)>>', rw.out)})[:10]:
        x = wrec[b]
        what = {"writer": "one RowWriter given %s (0 = a cell written directly, k = a serialised row of k-1 values appended)" % x.get("steps"),
                "row": "a whole row of %s values bound at once" % x.get("n"),
                "vec": "a sequence of %s %s elements bound to vector<%s, %s>" % (x.get("len"), x.get("elem"), x.get("elem"), x.get("d")),
                "rowtc": "a row of %s columns read into a tuple of arity %s" % (x.get("cols"), x.get("arity"))}[x["kind"]]
        v.violation("%s: %s" % (what, json.dumps({k: x[k] for k in x if k not in ("kind",)})), [x])
    v.add(count_relations=len(wrec))
    mism = sum(1 for c in cells if c["ser_ok"] == 0)
    v.add(evaluations=len(cells) + len(recs), distinct_nontrivial=len(cells) + len(hists),
          rule="evaluation = one matrix cell (carrier family x column type, both directions) or one operation of a rollback history; "
               "distinct = matrix cells + histories; every one judged by TLC",
          column_types=len(types), carrier_families=len(fams), matrix_cells=len(cells), refused_on_serialize=mism,
          accepted_on_serialize=len(cells) - mism, refused_on_type_check=sum(1 for c in cells if c["tc_ok"] == 0),
          rollback_histories=len(hists), rollback_ops=len(recs), max_history_len=maxlen,
          failing_ops=sum(1 for x in recs if x["ok"] == 0), trace_validation_states=st)
    v.sample(next(c for c in cells if c["ser_ok"] == 0 and c["t"]["k"] == "list" and c["carrier"].startswith("Vec<")))
    v.sample(next(x for x in recs if x["op"] == "nested_fail" and x["count"] > 0))
    if not v.violations:
        # binding self-tests: one flipped matrix cell, one non-rolled-back buffer
        bad = json.loads(json.dumps(next(c for c in cells if c["ser_ok"] == 0 and c["tc_ok"] == 0)))
        bad["ser_ok"] = 1
        pth = os.path.join(wd, "self1.ndjson")
        write_ndjson(pth, [bad])
        a1, _, _ = validate_trace("Trace_TypeCompat", "Trace_TypeCompat.cfg", pth)
        h = next(h for h in hs if any(x["op"] == "nested_fail" and x["count"] > 0 for x in byh[h]))
        rows = json.loads(json.dumps(byh[h]))
        k = next(i for i, x in enumerate(rows) if x["op"] == "nested_fail" and x["count"] > 0)
        rows[k]["buf_len"] += 4
        pth = os.path.join(wd, "self2.ndjson")
        write_ndjson(pth, rows)
        a2, _, _ = validate_trace("SerializedValues", "SerializedValues.cfg", pth)
        if a1 or a2:
            raise ToolError("binding self-test failed (%s, %s)" % (a1, a2))
        v.add(binding_selftest="flipped matrix cell rejected; history with 4 stray bytes after a nested failure rejected")
    v.assumptions += [
        "the compatibility relation is the documentation's (docs/source/data-types) plus three supersets found in the code and judged harmless: "
        "set-like carriers also serialize into list columns, a Rust tuple shorter than the CQL tuple serializes, the dynamic CqlValue type-checks against any type when reading",
        "carrier families are the 44 listed in harness/vh-cql/FORMAT.md; nesting is two levels as the property's quantifier says",
        "by-name struct carriers (derive macros) are C16's subject"]
    return v.finish()


def replay(path):
    for r in read_ndjson(path)[:8]:
        print(json.dumps(r)[:600])
    return 0
