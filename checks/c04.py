"""C04 — computed replica sets equal the cluster's own replica placement.

Reference: Replicas.tla (SimpleStrategy; NetworkTopologyStrategy with the rack rule; restriction to a DC;
ring-ordered view). TLC checks the reference's lemmas on every small topology and emits the topology table
(<= 4 nodes over {dc1,dc2,no dc} x {r1,r2,no rack}, vnode patterns). For each topology the harness builds
real ClusterStates through ClusterState::new (ReplicaLocator with the strategy pre-computed, and without),
for every strategy (Simple RF 0..n+2, NTS incl. RF 0, a ring DC absent from the strategy, a strategy DC
absent from the ring, empty NTS, Local, Other) and every query position (each ring token and each gap) x
DC filter, and records every view: len, iteration, ring-ordered view, membership through
choose_filtered(==n) for every node, random draws, ClusterState::get_token_endpoints. Random rings up to
12 nodes x 3 DCs x 4 racks x 8 vnodes are added. TLC judges every record (Trace_Replicas).
"""
import concurrent.futures
import json
import os
import random

from common import (SPEC, ToolError, Verdict, cargo_build, read_ndjson, run_harness, seed, tlc, validate_trace, workdir,
                    write_ndjson)

PID = "C04"


def classify(row, q):
    strat = row.get("strat", {})
    if strat.get("kind") == "nts" and any(rf == 0 for _, rf in strat.get("rfs", [])) and q and q.get("dc") == "":
        if len(q.get("ordered", [])) != q.get("len"):
            return "nts-rf0-datacentre-in-ordered-view"
    return None


def run(tier):
    v = Verdict(PID, tier, "exploration")
    wd = workdir(PID)
    thorough = tier == "thorough"
    with open(os.path.join(SPEC, "_mc_c04.cfg"), "w") as f:
        f.write("SPECIFICATION Spec\nCONSTANTS MaxNodes = 4\nINVARIANTS SimpleLemma NtsLemma Emit\nCHECK_DEADLOCK FALSE\n")
    r = tlc("MC_Replicas", "_mc_c04.cfg", workers=8, timeout=3000)
    os.remove(os.path.join(SPEC, "_mc_c04.cfg"))
    if not r.ok() or not r.finished:
        raise ToolError("Replicas reference violates its lemmas: %s %s" % (r.invariant_violated, r.out[-400:]))
    topos = r.json_prints("TOPO")
    rnd = random.Random(seed())
    if not thorough:
        topos = rnd.sample(topos, 160)
    cargo_build("vh-driver")
    nchunks = 8
    rings_per, full, nbig = (2, "1", 250) if thorough else (1, "0", 12)

    def one(c):
        inp = os.path.join(wd, "topo-%d.ndjson" % c)
        outp = os.path.join(wd, "out-%d.ndjson" % c)
        write_ndjson(inp, topos[c::nchunks])
        p = run_harness("vh-driver", ["c04", "run", inp, outp, seed() + c, rings_per, full, nbig], timeout=3000)
        summ = json.loads(p.stdout.strip().splitlines()[-1])
        acc, rr, rej = validate_trace("Trace_Replicas", "Trace_Replicas.cfg", outp, timeout=3000, xmx="3g")
        return summ, acc, rr.distinct, rej, outp

    nrec = nq = st = 0
    sample = None
    with concurrent.futures.ThreadPoolExecutor(max_workers=8) as ex:
        for summ, acc, dist, rej, outp in ex.map(one, range(nchunks)):
            nrec += summ.get("records", 0)
            nq += summ.get("queries", 0)
            st += dist
            if not acc:
                rows = read_ndjson(outp)
                bad = rows[(rej or 1) - 1]
                if "panic" in bad:
                    v.violation("replica computation panicked: %s" % bad["panic"], [bad])
                    continue
                # find the first query that a python re-statement of the judge's simplest clause flags (for the message only)
                q0 = next((q for q in bad["queries"] if not (set(q["iter"]) == set(q["ordered"]) == set(q["yes"]) and len(q["iter"]) == q["len"])), None)
                v.violation("views of a replica set disagree with the placement reference: ring=%s attr=%s strategy=%s precomputed=%s; e.g. query %s" % (
                    bad["ring"], bad["attr"], json.dumps(bad["strat"]), bad["pre"], json.dumps(q0)), [dict(bad, queries=[q0] if q0 else bad["queries"][:3])],
                    key=classify(bad, q0))
            elif sample is None:
                rows = read_ndjson(outp)
                sample = rows[len(rows) // 2]
    v.add(evaluations=nq, distinct_nontrivial=nrec,
          rule="evaluation = one (ring, strategy, precomputed?, token position, DC filter) query with all its views recorded; "
               "distinct_nontrivial = number of (ring, strategy, precomputed?) records, each a different configuration; all judged by TLC against Replicas.tla",
          topologies=len(topos), rings_per_topology=rings_per, random_big_rings=nbig * nchunks, trace_validation_states=st,
          reference_model_states=r.distinct)
    if sample:
        v.sample({k: sample[k] for k in ("ring", "attr", "strat", "pre")} | {"query": sample["queries"][len(sample["queries"]) // 2]})
    if not v.violations and sample:
        bad = json.loads(json.dumps(sample))
        q = next((q for q in bad["queries"] if q["len"] > 0), None)
        if q:
            q["ordered"] = list(reversed(q["ordered"])) if len(q["ordered"]) > 1 else q["ordered"] + [99]
            pth = os.path.join(wd, "self.ndjson")
            write_ndjson(pth, [bad])
            a, _, _ = validate_trace("Trace_Replicas", "Trace_Replicas.cfg", pth)
            if a:
                raise ToolError("binding self-test failed")
            v.add(binding_selftest="record with a corrupted ordered view rejected")
    v.assumptions += ["tokens are distinct across nodes (as in a real cluster); duplicate tokens are not generated",
                      "nodes are disabled (no pools): placement does not depend on connectivity",
                      "the NTS rule is the one in the property statement (rack new, or repeats left = RF - rack count, until min(RF, nodes)); a node without a datacentre belongs to no NTS replica set; a missing rack counts as one rack value"]
    return v.finish()


def replay(path):
    for r in read_ndjson(path)[:5]:
        print(json.dumps(r)[:600])
    return 0
