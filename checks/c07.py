"""C07 — paged iteration yields every row exactly once, in order, then ends.

Pager.tla models the pager as the code is built: a worker that fetches page after page through the retry core (C06's
DefaultDecide), a capacity-1 channel and a consumer with its own page cursor. TLC explores every interleaving of worker,
server and consumer for every scenario of MC_Pager (page-size sequences incl. empty pages, per-page fault lists — retryable
errors, connection drops, delayed answers, non-retried errors, exhausted plans — consumers that read everything, read slowly
or drop early) and checks: rows come out in server order, each once; a normal end means everything was delivered; an error
surfaces after all rows of the earlier pages; requests go page by page, each with the state of the page before; the channel
is bounded; the stream terminates; and that the summary functions of PagerProp.tla agree with the machine at its end.
Conformance: every scenario is then run through a REAL Session against the in-process mock cluster (3 nodes) whose handler
plays the scenario's pages / paging states / faults; the frames the mock saw (paging state of each request) and the items /
end of the real row stream are judged by TLC (Trace_Pager) with those summary functions.
Control-connection pager: sessions are built against mock clusters that answer the system tables in pages of 1..4 rows;
the resulting ClusterState must hold every node / keyspace / table (Trace_PagerControl).
"""
import json
import os
import re

from common import ToolError, Verdict, read_ndjson, run_harness, tlc, validate_trace, workdir, write_ndjson

PID = "C07"


def bad_lines(rr):
    return sorted({int(m.group(1)) - 1 for m in re.finditer(r'<<"BAD", (\d+)>>', rr.out)})


def run(tier):
    v = Verdict(PID, tier, "model_checking")
    wd = workdir(PID)
    cfg = os.path.join(wd, "MC_Pager.cfg")
    with open(cfg, "w") as f:
        f.write("SPECIFICATION Spec\nCONSTANTS Full = %s\nINVARIANTS OrderedPrefix EndMeansAll ErrorAfterEarlier ReqsMonotone SummaryAgrees Bounded Emit\n"
                "PROPERTIES Terminates\nCHECK_DEADLOCK FALSE\n" % ("TRUE" if tier == "thorough" else "FALSE"))
    r = tlc("MC_Pager", cfg, workers=8, timeout=3000, xmx="12g")
    if not r.ok() or not r.finished:
        raise ToolError("MC_Pager failed: %s" % r.out[-800:])
    scen = r.json_prints("SCEN")
    if len(scen) < 500:
        raise ToolError("too few scenarios: %d" % len(scen))
    if tier == "thorough" and len(scen) > 6000:       # the product space is model-checked in full; a seeded sample of it is executed
        import random
        from common import seed
        rng = random.Random(seed())
        cover = [s for s in scen if len(s["pages"]) == 4 or s["consumer"]["mode"] == "slow"]
        scen = cover + rng.sample(scen, 5000)
    # the same connections also carry a request whose caller gave up and whose answer arrives late (a foreign, delayed response)
    import random as _r
    from common import seed as _seed
    g = _r.Random(_seed() + 7).sample(scen, 80 if tier == "quick" else 600)
    scen = scen + [dict(json.loads(json.dumps(s)), ghost=1) for s in g]
    for i, s in enumerate(scen):
        s["id"] = i
    sin, sout = os.path.join(wd, "scen.ndjson"), os.path.join(wd, "out.ndjson")
    write_ndjson(sin, scen)
    p = run_harness("vh-driver", ["c07", sin, sout], timeout=3000)
    summ = json.loads(p.stdout.strip().splitlines()[-1])
    rows = read_ndjson(sout)
    if len(rows) != len(scen) or summ.get("bad_lines") or summ.get("not_ready"):
        raise ToolError("c07 harness: %s" % summ)
    for x in rows:
        for f in x["frames"]:
            if f["paging_state"] == []:
                f["paging_state"] = "none"
    jp = os.path.join(wd, "j.ndjson")
    write_ndjson(jp, rows)
    acc, rr, rej = validate_trace("Trace_Pager", "Trace_Pager.cfg", jp, timeout=1800)
    if not acc:
        raise ToolError("Trace_Pager did not consume its input (line %s)" % rej)
    for b in bad_lines(rr)[:20]:
        x = rows[b]
        v.violation("%s query%s, pages %s, faults %s, consumer %s: requests (page, reply) %s; the stream yielded %s and then '%s' %s" % (
            x["kind"], " (after abandoned requests whose answers arrive late)" if x.get("ghost") else "", x["pages"], x["faults"], x["consumer"], [(f["page"], f["reply"]) for f in x["frames"]], x["items"], x["end"],
            (x["err"] or x["start_err"])[:120]), [x])
    # ---- control connection --------------------------------------------------------------------------------------
    ctl = [{"id": i, "nodes": n, "keyspaces": k, "tables": t, "sys_page": p, "empty": e}
           for i, (n, k, t, p, e) in enumerate((n, k, t, p, e) for n in (1, 2, 3, 5) for k in (0, 1, 3) for t in (0, 1, 3) for p in (0, 1, 2, 4) for e in (0, 1)
                                               if not (k == 0 and t > 0) and not (e == 1 and p == 0))]
    # a busy node: every page of the system tables takes 70 ms, the client-side timeout of a metadata request is 500 ms
    # (a table read in 18 or more pages takes longer than that in total, no single page does)
    ctl += [{"id": len(ctl) + j, "nodes": n, "keyspaces": 3, "tables": 3, "sys_page": 1, "empty": 0, "slow": 1} for j, n in enumerate((1, 3))]
    cin, cout = os.path.join(wd, "ctl.ndjson"), os.path.join(wd, "ctl.out.ndjson")
    write_ndjson(cin, ctl)
    run_harness("vh-driver", ["c07-control", cin, cout], timeout=1800)
    crow = read_ndjson(cout)
    if len(crow) != len(ctl):
        raise ToolError("c07-control: %d of %d" % (len(crow), len(ctl)))
    for x in crow:
        if x.get("seen_keyspaces") == {}:
            x["seen_keyspaces"] = "none"
    cj = os.path.join(wd, "cj.ndjson")
    write_ndjson(cj, crow)
    acc, rc, rej = validate_trace("Trace_PagerControl", "Trace_PagerControl.cfg", cj, timeout=600)
    if not acc:
        raise ToolError("Trace_PagerControl did not consume its input (line %s)" % rej)
    for b in bad_lines(rc)[:10]:
        x = crow[b]
        v.violation("control connection, %d nodes / %d keyspaces x %d tables, system tables paged by %d: session saw nodes %s keyspaces %s %s" % (
            x["nodes"], x["keyspaces"], x["tables"], x["sys_page"], x.get("seen_nodes"), json.dumps(x.get("seen_keyspaces")), x.get("start_err", "")[:100]), [x])
    faults = sorted({f for s in scen for fl in s["faults"] for f in fl})
    v.add(states=r.distinct, evaluations=len(rows) + len(crow), distinct_nontrivial=len(rows) + len(crow),
          rule="states = distinct states of the pager machine over all scenarios (all worker / server / consumer interleavings); evaluation = one scenario run "
               "through a real Session against the mock cluster and judged by TLC",
          scenarios_model_checked=len(r.json_prints("SCEN")), scenarios_executed=len(rows), scenarios_with_late_foreign_response=sum(1 for x in rows if x.get("ghost")), control_scenarios=len(crow),
          fault_kinds=faults, frames_seen=sum(len(x["frames"]) for x in rows),
          ended={e: sum(1 for x in rows if x["end"] == e) for e in ("done", "error", "dropped")},
          model_bounds={"pages": "1..4 of 0..2 rows", "faults_per_page": "0..3", "plan_targets": 3, "channel_capacity": 1},
          invariants=["OrderedPrefix", "EndMeansAll", "ErrorAfterEarlier", "ReqsMonotone", "SummaryAgrees", "Bounded"], liveness=["Terminates"])
    v.sample({k: rows[0][k] for k in ("kind", "pages", "faults", "consumer", "items", "end")})
    v.sample(next(({k: x[k] for k in ("kind", "pages", "faults", "consumer", "frames", "items", "end")} for x in rows if any(x["faults"]) and x["end"] == "done"), rows[0]))
    if not v.violations:
        base = next(x for x in rows if x["end"] == "done" and len(x["items"]) >= 3 and x["consumer"]["mode"] == "all")
        b1 = json.loads(json.dumps(base)); b1["items"] = b1["items"][:1] + b1["items"][2:]                     # a lost row
        b2 = json.loads(json.dumps(base)); b2["items"] = b2["items"][:2] + b2["items"][1:]                     # a duplicated row
        b3 = json.loads(json.dumps(base)); b3["frames"] = b3["frames"] + [b3["frames"][-1]]                    # a page requested twice
        res = []
        for k, b in enumerate((b1, b2, b3)):
            pth = os.path.join(wd, "self%d.ndjson" % k)
            write_ndjson(pth, [b])
            res.append(bad_lines(validate_trace("Trace_Pager", "Trace_Pager.cfg", pth)[1]) == [0])
        if not all(res):
            raise ToolError("binding self-test failed %s" % res)
        v.add(binding_selftest="records with a lost row, a duplicated row and a page requested twice are rejected")
    v.assumptions += [
        "retry decisions are those of C06's DefaultDecide for an idempotent statement with a 3-node plan; scenarios after a connection drop keep within what two plan targets absorb (a dropped pool may still be reconnecting)",
        "the mock attributes a request to a page by its paging state; empty paging states are not generated",
        "speculative execution off; one connection per node"]
    return v.finish()


def replay(path):
    for r in read_ndjson(path)[:5]:
        print(json.dumps(r)[:1200])
    return 0
