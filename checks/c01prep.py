"""Canonicalisation of C01 records before TLC judges them (documented in DESIGN.md):
 - carriers whose iteration order is not the wire order of the freshly decoded instance (HashSet / HashMap):
   `decoded` is re-ordered to the order of `v` when it is a permutation of it (otherwise left as is, so TLC rejects);
 - Rust tuples of smaller arity than the column type can serialise a short tuple but cannot be deserialised into:
   their `decoded` is marked skip."""
import json


def canon(x):
    return json.dumps(x, sort_keys=True)


def prep(r):
    r = _prep(r)
    for k in ('ser_err', 'de_err'):
        if r.get(k) is None:
            r[k] = ''
    if r.get('cell') is None:
        r['cell'] = []
    if r.get('decoded') is None:
        r['decoded'] = {'k': 'none'}
    return r


def _prep(r):
    c = r.get("carrier", "")
    t, v, d = r.get("t"), r.get("v"), r.get("decoded")
    if c.startswith("(") and t and t.get("k") == "tuple" and v and v.get("k") == "tup" and len(v["vs"]) < len(t["ts"]):
        r["decoded"] = {"k": "skip"}
        r["de_err"] = None
        return r
    if "Hash" in c and isinstance(d, dict) and isinstance(v, dict):
        for key in ("vs", "kvs"):
            if key in d and key in v and len(d[key]) == len(v[key]):
                if sorted(canon(e) for e in d[key]) == sorted(canon(e) for e in v[key]):
                    d[key] = v[key]
    return r
