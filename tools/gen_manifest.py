#!/usr/bin/env python3
"""Regenerates MANIFEST.json from checks/registry.json (single source of truth for claimed checks)."""
import json, os, subprocess
V = os.path.dirname(os.path.dirname(os.path.abspath(__file__)))
reg = json.load(open(os.path.join(V, "checks", "registry.json")))
props = [json.loads(l)["id"] for l in open(os.path.join(V, "properties.jsonl")) if l.strip()]
commits = subprocess.run(["git", "-C", "/repo", "log", "--format=%h %s", "4c61d34..HEAD"], capture_output=True, text=True).stdout.strip().splitlines()
hook_commits = [c.split()[0] for c in commits if c.split(" ", 1)[1].startswith("verif hooks")]
checks = []
for pid in props:
    if pid not in reg["checks"]:
        continue
    c = reg["checks"][pid]
    checks.append({
        "property_id": pid,
        "quick_cmd": "bin/check %s --tier quick" % pid,
        "thorough_cmd": "bin/check %s --tier thorough" % pid,
        "evidence_file": "/verif/evidence/%s.json" % pid,
        "replay_cmd_template": "bin/check %s --replay {path}" % pid,
        "engine": c.get("engine", "tlc+harness"),
        "level_claimed": {"category": c["level"], "text": c["text"], "design_ref": c.get("design_ref", "DESIGN.md §5 " + pid)},
        "level_note": c["note"],
        "technique": c["technique"],
    })
na = [{"property_id": p, "reason": reg["not_applicable"].get(p, "check not built yet in this round; planned per DESIGN.md §5")}
      for p in props if p not in reg["checks"]]
m = {
    "version": 1,
    "setup_cmd": "bin/setup",
    "hooks": {
        "guard": "cfg(scylla_verif)",
        "enable": "RUSTFLAGS --cfg scylla_verif via /verif/harness/.cargo/config.toml (harness workspace has path dependencies on /repo)",
        "baseline_off_cmd": "cd /repo && cargo nextest run --workspace --no-fail-fast --test-threads 8 --offline || cargo test --workspace --no-fail-fast --offline",
        "source_commits": hook_commits,
        "add_only": True,
    },
    "engines": [
        {"name": "tlc", "path": "/verif/spec", "serves_properties": [c["property_id"] for c in checks],
         "kind_free_text": "explicit TLA+ specifications model-checked with TLC; trace validation and behaviour generation"},
        {"name": "harness", "path": "/verif/harness", "serves_properties": [c["property_id"] for c in checks],
         "kind_free_text": "Rust conformance harness (vh-driver, vh-cql) built against /repo's working tree with --cfg scylla_verif"},
    ],
    "checks": checks,
    "not_applicable": na,
    "notes": reg.get("notes", ""),
}
json.dump(m, open(os.path.join(V, "MANIFEST.json"), "w"), indent=1)
print("MANIFEST.json: %d checks, %d not_applicable" % (len(checks), len(na)))
