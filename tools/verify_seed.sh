#!/bin/bash
# usage: tools/verify_seed.sh <worktree> <seed-dir> <crate>
# Confirms: demo passes on HEAD, fails with patch; crate --lib unit tests fail set with patch == baseline fail set.
set -u
wt=$1; sd=$2; crate=${3:-scylla}
cd "$wt" || exit 2
clean() { git checkout -q -- . && git clean -fdq -e target; }
clean
demo_cmd=$(python3 -c "import json;print(json.load(open('$sd/meta.json'))['demo_cmd'].split('  #')[0])")
echo "demo_cmd: $demo_cmd"
base=/tmp/seed/baseline-$crate.txt
if [ ! -f $base ]; then
  cargo test --offline -p $crate --lib 2>&1 | grep -E "^test \S+ \.\.\. FAILED" | sort > $base
  echo "baseline failing: $(wc -l < $base)"
fi
pre() { if [ -f $sd/demo.diff ] && ! echo "$demo_cmd" | grep -q "demo.diff"; then git apply $sd/demo.diff || echo "DEMO DOES NOT APPLY"; fi; }
pre
( eval "$demo_cmd" ) > /tmp/seed/v.out 2>&1; rc1=$?
echo "demo on HEAD: rc=$rc1 (expect 0)"
clean
git apply $sd/patch.diff || { echo "PATCH DOES NOT APPLY"; exit 3; }
pre
( eval "$demo_cmd" ) > /tmp/seed/v2.out 2>&1; rc2=$?
echo "demo with patch: rc=$rc2 (expect != 0)"
grep -E "^test .*(FAILED|ok)$|panicked|assert" /tmp/seed/v2.out | head -5
clean
git apply $sd/patch.diff
cargo test --offline -p $crate --lib 2>&1 | grep -E "^test \S+ \.\.\. FAILED" | sort > /tmp/seed/withpatch.txt
if diff -q $base /tmp/seed/withpatch.txt >/dev/null; then echo "unit tests: same failing set as baseline ($(wc -l < $base))"; ut=0; else echo "unit tests DIFFER:"; diff $base /tmp/seed/withpatch.txt | head; ut=1; fi
RUSTFLAGS="--cfg scylla_verif" cargo check --offline -q -p $crate 2>&1 | grep -E "^error" | head -3
clean
if [ $rc1 -eq 0 ] && [ $rc2 -ne 0 ] && [ $ut -eq 0 ]; then echo "SEED-CONFIRMED"; exit 0; else echo "SEED-REJECTED"; exit 1; fi
