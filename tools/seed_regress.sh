#!/bin/bash
# usage: tools/seed_regress.sh [seed-name ...]   — every kept seeded change against its property's quick check (sequential; patches /repo)
cd /verif
out=/verif/work/logs/regress.tsv
mkdir -p /verif/work/logs
names="$@"
[ -z "$names" ] && names=$(ls /verif/seeded)
for n in $names; do
  d=/verif/seeded/$n
  id=$(python3 -c "import json;print(json.load(open('$d/meta.json'))['property'])")
  t0=$(date +%s)
  res=$(tools/mutrun.sh $d/patch.diff $id quick 2>&1)
  rc=$(echo "$res" | grep -o "rc=[0-9]*" | head -1)
  first=$(echo "$res" | grep -E "violation:|TOOL-ERROR|PATCH DOES NOT" | head -1 | cut -c1-300)
  printf "%s\t%s\t%s\t%ss\t%s\n" "$n" "$id" "$rc" "$(( $(date +%s) - t0 ))" "$first" >> $out
done
echo DONE >> $out
