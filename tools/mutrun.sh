#!/bin/bash
# usage: tools/mutrun.sh <patch-file> <ID> [tier]   — apply a patch to /repo, run a check, always revert
set -u
patch=$1; id=$2; tier=${3:-quick}
cd /repo
if ! git apply --check "$patch" 2>/dev/null; then echo "PATCH DOES NOT APPLY: $patch"; exit 3; fi
git apply "$patch"
cd /verif
bin/check "$id" --tier "$tier" 2>/verif/work/mutrun.err | grep -E "^(VIOLATION|OK|KNOWN)" ; rc=${PIPESTATUS[0]}
echo "rc=$rc"
grep -E "TOOL-ERROR|violation:" /verif/work/mutrun.err | head -5
cd /repo && git checkout -- . && git status --short | head -3
exit $rc
