#!/usr/bin/env python3
"""keep_seed.py <seed-dir> <name> <status> <detected-by text>  — copies a confirmed seeded change into /verif/seeded/<name>/"""
import json, os, shutil, sys
sd, name, status, detected = sys.argv[1:5]
dst = os.path.join("/verif/seeded", name)
os.makedirs(dst, exist_ok=True)
for f in os.listdir(sd):
    if f in ("patch.diff", "demo.diff", "demo.rs", "meta.json") or f.startswith("demo"):
        shutil.copy(os.path.join(sd, f), os.path.join(dst, f))
meta = json.load(open(os.path.join(dst, "meta.json")))
log = "/tmp/seed/verify-%s.log" % os.path.basename(sd.rstrip("/"))
meta["confirmed"] = open(log).read().strip().splitlines()[-6:] if os.path.exists(log) else []
meta["ran"] = "tools/verify_seed.sh (demo passes on HEAD, fails with patch; crate --lib failing set unchanged; builds with --cfg scylla_verif); tools/mutrun.sh <patch> <ID>"
meta["check_status"] = status
meta["detected_by"] = detected
json.dump(meta, open(os.path.join(dst, "meta.json"), "w"), indent=1)
print("kept", dst)
