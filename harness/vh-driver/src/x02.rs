//! `vh-driver x02 run <scripts.ndjson> <out.ndjson>`: the Session's view of the cluster after membership changes
//! (growth beyond the listed properties: Topology.tla). Four node slots (addresses 127.0.32.1..4); slot 0 is always a member
//! (contact point). Input {"id":N,"init":[slots present at start],"ops":[{"op":"add"|"remove"|"replace"|"movedc","n":slot}|{"op":"check"}]}
//!   add      the slot's node joins (listener started, NEW_NODE event)
//!   remove   the node leaves (left out of system.peers, listener stopped, REMOVED_NODE event)
//!   replace  the node at that address is replaced by a new one (new host id, same address, other tokens)
//!   movedc   the node comes back in the other datacenter (same host id)
//!   check    session.refresh_metadata(), then the view is recorded and 12 requests are sent
//! Output {"id","start_err","checks":[{"at":op index,"refresh_ok":0|1,"view":[{"slot","gen","dc","rack","tokens_ok"}...] sorted by slot,
//!          "frames_to":[slots that received one of the 12 requests, sorted, distinct],"req_err":k}]}
use std::io::{BufRead, Write};
use std::net::{Ipv4Addr, SocketAddr};
use std::sync::Arc;
use std::sync::atomic::Ordering;
use std::time::{Duration, Instant};

use serde_json::{Value, json};

use crate::mock::{Action, MockCluster, MockColumn, MockConfig, MockKeyspace, MockNodeCfg, MockTable, Reply, Request, type_bytes};

const PORT: u16 = 19432;
const SLOTS: usize = 4;

fn ip(slot: usize) -> Ipv4Addr {
    Ipv4Addr::new(127, 0, 32, slot as u8 + 1)
}
fn host_id(slot: usize, generation: u32) -> uuid::Uuid {
    uuid::Uuid::from_u128((0x02u128 << 64) | ((generation as u128) << 16) | (slot as u128 + 1))
}
fn decode(id: uuid::Uuid) -> (i64, i64) {
    let v = id.as_u128();
    if v >> 64 != 0x02 {
        return (-1, -1);
    }
    (((v & 0xffff) as i64) - 1, ((v >> 16) & 0xffff_ffff) as i64)
}
fn tokens(slot: usize, generation: u32) -> Vec<i64> {
    vec![(slot as i64 + 1) * 1_000_000 + generation as i64 * 10, -((slot as i64 + 1) * 1_000_000) - generation as i64 * 10]
}
fn node(slot: usize, generation: u32, dc: &str) -> MockNodeCfg {
    MockNodeCfg { ip: ip(slot), host_id: host_id(slot, generation), dc: dc.into(), rack: format!("r{}", slot % 2 + 1), tokens: tokens(slot, generation),
                  nr_shards: None, msb_ignore: 0, metadata_id_ext: false, tablets_ext: false, lwt_mark: false }
}

fn config(gens: &[u32; SLOTS], dcs: &[String; SLOTS]) -> MockConfig {
    MockConfig {
        port: PORT,
        shard_aware_port: None,
        nodes: (0..SLOTS).map(|s| node(s, gens[s], &dcs[s])).collect(),
        keyspaces: vec![MockKeyspace {
            name: "ks".into(),
            replication: vec![("class".into(), "org.apache.cassandra.locator.SimpleStrategy".into()), ("replication_factor".into(), "1".into())],
            tablets: false,
            tables: vec![MockTable { name: "t".into(), columns: vec![MockColumn { name: "pk".into(), kind: "partition_key".into(), position: 0, typ: "int".into() }], partitioner: None }],
        }],
        system_page_size_override: None,
    }
}

fn hidden_mask(present: &[bool; SLOTS]) -> u32 {
    (0..SLOTS).filter(|s| !present[*s]).map(|s| 1u32 << s).sum()
}

async fn start_retrying(mock: &MockCluster, i: usize) -> Result<(), String> {
    let t0 = Instant::now();
    loop {
        match mock.try_start_node(i).await {
            Ok(()) => return Ok(()),
            Err(_) if t0.elapsed() < Duration::from_secs(3) => tokio::time::sleep(Duration::from_millis(40)).await,
            Err(e) => return Err(e.to_string()),
        }
    }
}

async fn run_script(sc: &Value) -> Value {
    use scylla::client::PoolSize;
    use scylla::client::session_builder::SessionBuilder;
    let fail = |e: String| json!({"id": sc["id"], "start_err": e, "checks": []});
    let mut present = [false; SLOTS];
    present[0] = true;
    for s in sc["init"].as_array().cloned().unwrap_or_default() {
        if let Some(s) = s.as_u64().filter(|s| (*s as usize) < SLOTS) {
            present[s as usize] = true;
        }
    }
    let mut gens = [0u32; SLOTS];
    let mut dcs: [String; SLOTS] = std::array::from_fn(|_| "dc1".to_string());
    crate::mock::HIDDEN_NODES.store(hidden_mask(&present), Ordering::SeqCst);
    let handler: crate::mock::Handler = Arc::new(|req: &Request| {
        if req.opcode == 7 {
            return Action::Reply(Reply::Rows { cols: vec![("pk".into(), type_bytes("int").unwrap())], ks: "ks".into(), table: "t".into(), rows: vec![], paging_state: None, no_metadata: false, new_metadata_id: None });
        }
        Action::Reply(Reply::Void)
    });
    let t0 = Instant::now();
    let mock = loop {
        match MockCluster::try_start(config(&gens, &dcs), handler.clone()).await {
            Ok(m) => break m,
            Err(_) if t0.elapsed() < Duration::from_secs(3) => tokio::time::sleep(Duration::from_millis(50)).await,
            Err(e) => return fail(format!("mock start: {e}")),
        }
    };
    for s in 0..SLOTS {
        if !present[s] {
            mock.stop_node(s).await;
        }
    }
    let session = match SessionBuilder::new().known_node(mock.contact_point(0)).pool_size(PoolSize::PerHost(std::num::NonZeroUsize::new(1).unwrap())).build().await {
        Ok(s) => s,
        Err(e) => {
            mock.shutdown().await;
            return fail(format!("session build: {e}"));
        }
    };
    let event = |mock: &MockCluster, kind: &str, slot: usize| {
        mock.send_event("TOPOLOGY_CHANGE", kind, SocketAddr::from((ip(slot), PORT)));
    };
    let mut checks = Vec::new();
    let ops = sc["ops"].as_array().cloned().unwrap_or_default();
    for (k, op) in ops.iter().enumerate() {
        let slot = op["n"].as_u64().unwrap_or(0) as usize % SLOTS;
        match op["op"].as_str().unwrap_or("") {
            "add" => {
                present[slot] = true;
                crate::mock::HIDDEN_NODES.store(hidden_mask(&present), Ordering::SeqCst);
                if let Err(e) = start_retrying(&mock, slot).await {
                    checks.push(json!({"at": k, "harness_err": format!("add {slot}: {e}")}));
                    break;
                }
                event(&mock, "NEW_NODE", slot);
            }
            "remove" => {
                present[slot] = false;
                crate::mock::HIDDEN_NODES.store(hidden_mask(&present), Ordering::SeqCst);
                mock.stop_node(slot).await;
                event(&mock, "REMOVED_NODE", slot);
            }
            "replace" | "movedc" => {
                mock.stop_node(slot).await;
                if op["op"] == "replace" {
                    gens[slot] += 1;
                } else {
                    dcs[slot] = if dcs[slot] == "dc1" { "dc2".into() } else { "dc1".into() };
                }
                mock.set_config(config(&gens, &dcs));
                if let Err(e) = start_retrying(&mock, slot).await {
                    checks.push(json!({"at": k, "harness_err": format!("restart {slot}: {e}")}));
                    break;
                }
                event(&mock, "NEW_NODE", slot);
            }
            "check" => {
                let refresh_ok = session.refresh_metadata().await.is_ok();
                let st = session.get_cluster_state();
                let mut view: Vec<Value> = st
                    .get_nodes_info()
                    .iter()
                    .map(|n| {
                        let (slot, generation) = decode(n.host_id);
                        let addr_ok = slot >= 0 && n.address.ip() == std::net::IpAddr::V4(ip(slot as usize));
                        json!({"slot": slot, "gen": generation, "dc": n.datacenter.clone().unwrap_or_default(), "rack": n.rack.clone().unwrap_or_default(), "addr_ok": addr_ok as u8})
                    })
                    .collect();
                view.sort_by_key(|v| v["slot"].as_i64().unwrap_or(-1));
                // wait (at most 2 s) until the members have a connection, then 12 requests
                let t1 = Instant::now();
                while !st.get_nodes_info().iter().all(|n| n.is_connected()) && t1.elapsed() < Duration::from_secs(2) {
                    tokio::time::sleep(Duration::from_millis(20)).await;
                }
                let from = mock.log().len();
                let mut req_err = 0;
                for _ in 0..12 {
                    if session.query_unpaged("SELECT pk FROM ks.t", ()).await.is_err() {
                        req_err += 1;
                    }
                }
                let log = mock.log();
                let mut to: Vec<u64> = log[from.min(log.len())..].iter().filter(|e| e["dir"] == "in" && e["opcode"] == 7 && e["query"].as_str().is_some_and(|q| q.contains("ks.t"))).filter_map(|e| e["node"].as_u64()).collect();
                to.sort();
                to.dedup();
                checks.push(json!({"at": k, "refresh_ok": refresh_ok as u8, "view": view, "frames_to": to, "req_err": req_err}));
            }
            _ => {}
        }
    }
    drop(session);
    mock.shutdown().await;
    crate::mock::HIDDEN_NODES.store(0, Ordering::SeqCst);
    json!({"id": sc["id"], "start_err": "", "init": sc["init"], "ops": sc["ops"], "checks": checks})
}

pub fn cmd_run(args: &[String]) -> i32 {
    if args.len() != 2 {
        eprintln!("usage: vh-driver x02 run <scripts.ndjson> <out.ndjson>");
        return 2;
    }
    let rt = tokio::runtime::Builder::new_multi_thread().worker_threads(2).enable_all().build().expect("runtime");
    let inp = std::io::BufReader::new(std::fs::File::open(&args[0]).expect("in"));
    let mut out = std::io::BufWriter::new(std::fs::File::create(&args[1]).expect("out"));
    let mut n = 0;
    for line in inp.lines().map_while(Result::ok) {
        if line.trim().is_empty() {
            continue;
        }
        let sc: Value = serde_json::from_str(&line).expect("json");
        let o = rt.block_on(run_script(&sc));
        writeln!(out, "{o}").unwrap();
        n += 1;
    }
    out.flush().unwrap();
    println!("{}", json!({"cmd": "x02", "lines": n}));
    0
}
