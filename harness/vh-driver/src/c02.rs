//! C02 / C10: the real ResponseHandlerMap (probe) and the real Connection::router over an in-memory
//! duplex pipe. The harness plays callers and server; everything runs on one thread, so the recorded
//! events are totally ordered.

use scylla::verif::connection::{HandlerMapProbe, Lookup, VRouter, spawn_router};
use serde_json::{Value, json};
use std::collections::{BTreeMap, BTreeSet};
use std::future::Future;
use std::io::{BufRead, Write};
use std::pin::Pin;
use std::sync::{Arc, Mutex};
use std::task::{Context, Poll};
use std::time::Duration;
use tokio::io::{AsyncRead, AsyncWriteExt};

// ---------------------------------------------------------------------------------------------
// handler-map probe

fn prefilled(free: &[i16]) -> HandlerMapProbe {
    let mut p = HandlerMapProbe::new();
    for i in 0..32768u64 {
        p.allocate((1u64 << 62) + i as u64).expect("prefill");   // far above every base + r of the sequences (a run of > 10 000 sequences once reached 1 000 000)
    }
    for s in free {
        // the dummy owner of `s` gets its response: the id becomes free
        let _ = p.lookup(*s);
    }
    p
}

/// `c02 map <seqs.ndjson> <out.ndjson> <free ids comma separated>`
pub fn cmd_map(args: &[String]) -> i32 {
    let inp = std::fs::File::open(&args[0]).expect("seqs");
    let mut out = std::io::BufWriter::new(std::fs::File::create(&args[1]).expect("out"));
    let free: Vec<i16> = args[2].split(',').map(|s| s.parse().unwrap()).collect();
    let mut probe = Some(prefilled(&free));
    let mut next_req: u64 = 1;
    let (mut n, mut panics) = (0usize, 0usize);
    for line in std::io::BufReader::new(inp).lines() {
        let line = line.unwrap();
        if line.trim().is_empty() {
            continue;
        }
        let ops: Vec<Value> = serde_json::from_str(&line).unwrap();
        n += 1;
        writeln!(out, "{}", json!({"ev":"Init","free":free,"ops":ops})).unwrap();
        let base = next_req;
        next_req += 100;
        let mut stream_of: BTreeMap<u64, i16> = BTreeMap::new(); // request -> stream it was given
        let mut held: BTreeSet<i16> = BTreeSet::new(); // ids allocated in this sequence and not yet looked up
        let r = std::panic::catch_unwind(std::panic::AssertUnwindSafe(|| {
            let mut evs: Vec<Value> = Vec::new();
            for op in &ops {
                let kind = op[0].as_str().unwrap();
                let r = op[1].as_u64().unwrap();
                let p = probe.as_mut().unwrap();
                match kind {
                    "A" => match p.allocate(base + r) {
                        Ok(s) => {
                            stream_of.insert(r, s);
                            held.insert(s);
                            evs.push(json!({"ev":"PAlloc","r":r,"ok":1,"stream":s}));
                        }
                        Err(()) => evs.push(json!({"ev":"PAlloc","r":r,"ok":0,"stream":-1})),
                    },
                    "L" | "LU" => {
                        let s = if kind == "L" {
                            stream_of.get(&r).copied()
                        } else {
                            free.iter().copied().find(|s| !held.contains(s))
                        };
                        if let Some(s) = s {
                            let res = p.lookup(s);
                            held.remove(&s);
                            let (name, req) = match res {
                                Lookup::Handler(q) => ("handler", if q >= base && q < base + 100 { (q - base) as i64 } else { -2 }),
                                Lookup::Orphaned => ("orphaned", -1),
                                Lookup::Missing => ("missing", -1),
                            };
                            evs.push(json!({"ev":"PLookup","stream":s,"res":name,"req":req}));
                        }
                    }
                    "O" => {
                        p.orphan(base + r);
                        evs.push(json!({"ev":"POrphan","r":r}));
                    }
                    "I" => {
                        // into_handlers consumes the map (the next sequence needs a fresh prefill, which is
                        // slow), so it is executed for every 10th sequence only
                        if n % 10 != 0 {
                            continue;
                        }
                        let pr = probe.take().unwrap();
                        let mut pairs: Vec<(i16, i64)> = pr
                            .into_handlers()
                            .into_iter()
                            .filter(|(_, q)| *q >= base && *q < base + 100)
                            .map(|(s, q)| (s, (q - base) as i64))
                            .collect();
                        pairs.sort();
                        evs.push(json!({"ev":"PInto","pairs":pairs}));
                    }
                    _ => {}
                }
            }
            evs
        }));
        match r {
            Ok(evs) => {
                for e in evs {
                    writeln!(out, "{}", e).unwrap();
                }
            }
            Err(_) => {
                panics += 1;
                writeln!(out, "{}", json!({"ev":"Panic","msg":crate::last_panic()})).unwrap();
                probe = None;
            }
        }
        writeln!(out, "{}", json!({"ev":"Reset"})).unwrap();
        match probe.as_mut() {
            None => probe = Some(prefilled(&free)),
            Some(p) => {
                // return to the baseline: answer everything still held
                for s in held.iter() {
                    let _ = p.lookup(*s);
                }
            }
        }
    }
    out.flush().unwrap();
    println!("{}", json!({"sequences":n,"panics":panics}));
    0
}

/// `c02 exhaust <out.ndjson>` — the full 32768-id space: allocate all, one more must fail, free in a
/// scattered order, re-allocate; records what the judge needs.
pub fn cmd_exhaust(args: &[String]) -> i32 {
    let mut out = std::io::BufWriter::new(std::fs::File::create(&args[0]).expect("out"));
    // a panic inside the real map is data (the property failed on this history), not a harness error
    let r = std::panic::catch_unwind(std::panic::AssertUnwindSafe(exhaust_cycle));
    let rec = match r {
        Ok(v) => v,
        Err(e) => {
            let msg = e.downcast_ref::<String>().cloned().or_else(|| e.downcast_ref::<&str>().map(|s| s.to_string())).unwrap_or_default();
            json!({"ev":"Exhaust","panic":msg})
        }
    };
    writeln!(out, "{}", rec).unwrap();
    out.flush().unwrap();
    println!("{}", json!({"ok":true}));
    0
}

fn exhaust_cycle() -> Value {
    let mut p = HandlerMapProbe::new();
    let mut got: Vec<i64> = Vec::new();
    for i in 0..32768u64 {
        match p.allocate(i) {
            Ok(s) => got.push(s as i64),
            Err(()) => got.push(-1),
        }
    }
    let extra = p.allocate(40000).is_ok();
    let distinct: BTreeSet<i64> = got.iter().copied().collect();
    // free a scattered subset, each must be answered by its own request
    let mut wrong = 0;
    let mut freed = Vec::new();
    for s in (0..32768i64).step_by(97) {
        match p.lookup(s as i16) {
            Lookup::Handler(q) => {
                if got[q as usize] != s {
                    wrong += 1;
                }
                freed.push(s);
            }
            _ => wrong += 1,
        }
    }
    let mut re = Vec::new();
    for (k, _) in freed.iter().enumerate() {
        match p.allocate(50000 + k as u64) {
            Ok(s) => re.push(s as i64),
            Err(()) => re.push(-1),
        }
    }
    let again = p.allocate(60000).is_ok();
    let re_set: BTreeSet<i64> = re.iter().copied().collect();
    let freed_set: BTreeSet<i64> = freed.iter().copied().collect();
    json!({"ev":"Exhaust","allocated":got.len(),"distinct":distinct.len(),"min":distinct.iter().next(),"max":distinct.iter().last(),
        "extra_ok": extra, "wrong_owner": wrong, "freed": freed.len(), "realloc_equals_freed": re_set == freed_set, "again_ok": again})
}

// ---------------------------------------------------------------------------------------------
// router over a duplex pipe

struct NoopWake;
impl std::task::Wake for NoopWake {
    fn wake(self: Arc<Self>) {}
}

type CallFut = Pin<Box<dyn Future<Output = Result<(i16, u8, Vec<u8>), String>>>>;

const QUIET_BASE: u64 = 1 << 40;

struct Sim {
    quiet_wrong: u64,
    quiet_clash: u64,
    router: Arc<VRouter>,
    srv: tokio::io::DuplexStream,
    srv_closed: bool,
    /// the server has stopped READING (not only answering): whatever the client writes stays in the pipe
    deaf: bool,
    /// responses of which only a first part has been written: request -> (stream, rest of the frame)
    partial: BTreeMap<u64, (i16, Vec<u8>)>,
    buf: Vec<u8>,
    events: Arc<Mutex<Vec<Value>>>,
    calls: BTreeMap<u64, CallFut>,
    have: BTreeMap<u64, i16>, // request -> stream of the frame the server holds unanswered
    finished: BTreeSet<u64>,
    resp_size: BTreeMap<u64, usize>,
}

fn req_body(r: u64) -> Vec<u8> {
    r.to_be_bytes().to_vec()
}

fn resp_frame(stream: i16, r: u64, size: usize) -> Vec<u8> {
    let mut body = (r + 1000).to_be_bytes().to_vec();
    body.resize(8 + size, 0xAB);
    let mut f = vec![0x84u8, 0x00];
    f.extend_from_slice(&stream.to_be_bytes());
    f.push(0x08); // RESULT
    f.extend_from_slice(&(body.len() as u32).to_be_bytes());
    f.extend_from_slice(&body);
    f
}

impl Sim {
    fn ev(&self, v: Value) {
        // requests of a quiet churn (["Q",..]) are judged by counters and one summary event, not one by one
        if v.get("r").and_then(|r| r.as_u64()).map_or(false, |r| r >= QUIET_BASE && r < u64::MAX / 2) {
            return;
        }
        self.events.lock().unwrap().push(v);
    }

    fn submit(&mut self, r: u64) {
        let router = self.router.clone();
        let fut: CallFut = Box::pin(async move {
            let resp = router.send_raw(&req_body(r)).await?;
            Ok((resp.stream, resp.opcode, resp.body.to_vec()))
        });
        self.calls.insert(r, fut);
        self.ev(json!({"ev":"Submit","r":r}));
    }

    fn cancel(&mut self, r: u64) {
        if self.calls.remove(&r).is_some() {
            self.ev(json!({"ev":"Cancel","r":r}));
        }
    }

    fn poll_calls(&mut self) -> bool {
        let waker = std::task::Waker::from(Arc::new(NoopWake));
        let mut cx = Context::from_waker(&waker);
        let mut progressed = false;
        let keys: Vec<u64> = self.calls.keys().copied().collect();
        for r in keys {
            let res = self.calls.get_mut(&r).unwrap().as_mut().poll(&mut cx);
            if let Poll::Ready(res) = res {
                self.calls.remove(&r);
                self.finished.insert(r);
                progressed = true;
                match res {
                    Ok((_stream, _op, body)) => {
                        let tag = if body.len() >= 8 { u64::from_be_bytes(body[..8].try_into().unwrap()) as i64 } else { -1 };
                        if r >= QUIET_BASE && tag != (r + 1000) as i64 {
                            self.quiet_wrong += 1;
                        }
                        self.ev(json!({"ev":"Done","r":r,"tag":tag,"len":body.len()}));
                    }
                    Err(e) => {
                        if r >= QUIET_BASE {
                            self.quiet_wrong += 1;
                        }
                        self.ev(json!({"ev":"DoneErr","r":r,"err":e.chars().take(60).collect::<String>()}))
                    }
                }
            }
        }
        progressed
    }

    async fn drain_server(&mut self) -> bool {
        let mut progressed = false;
        if self.srv_closed || self.deaf {
            return false;
        }
        loop {
            let mut tmp = [0u8; 4096];
            let waker = std::task::Waker::from(Arc::new(NoopWake));
            let mut cx = Context::from_waker(&waker);
            let mut rb = tokio::io::ReadBuf::new(&mut tmp);
            let r = Pin::new(&mut self.srv).poll_read(&mut cx, &mut rb);
            match r {
                Poll::Ready(Ok(())) => {
                    let n = rb.filled().len();
                    if n == 0 {
                        break;
                    }
                    self.buf.extend_from_slice(rb.filled());
                    progressed = true;
                }
                _ => break,
            }
        }
        // parse complete request frames: 9-byte header + body
        loop {
            if self.buf.len() < 9 {
                break;
            }
            let len = u32::from_be_bytes(self.buf[5..9].try_into().unwrap()) as usize;
            if self.buf.len() < 9 + len {
                break;
            }
            let stream = i16::from_be_bytes(self.buf[2..4].try_into().unwrap());
            let opcode = self.buf[4];
            let body: Vec<u8> = self.buf[9..9 + len].to_vec();
            self.buf.drain(..9 + len);
            if opcode == 0x05 {
                // OPTIONS = keep-alive probe
                self.ev(json!({"ev":"SrvKeepalive","stream":stream}));
                self.have.insert(u64::MAX - stream as u64, stream);
                continue;
            }
            let r = if body.len() >= 8 { u64::from_be_bytes(body[..8].try_into().unwrap()) } else { 0 };
            if r >= QUIET_BASE && (stream < 0 || self.have.values().any(|s| *s == stream)) {
                self.quiet_clash += 1;
            }
            self.have.insert(r, stream);
            self.ev(json!({"ev":"SrvRecv","stream":stream,"r":r,"version":self.buf_version_ok()}));
        }
        progressed
    }

    fn buf_version_ok(&self) -> i64 {
        1
    }

    async fn pump(&mut self) {
        for _ in 0..200 {
            let mut progressed = false;
            for _ in 0..4 {
                tokio::task::yield_now().await;
            }
            progressed |= self.drain_server().await;
            progressed |= self.poll_calls();
            if !progressed {
                // one more round of yields to be sure the router is idle
                for _ in 0..4 {
                    tokio::task::yield_now().await;
                }
                if !self.drain_server().await && !self.poll_calls() {
                    break;
                }
            }
        }
    }

    /// writes only the first `k` bytes of r's response; `respond_rest` writes the remainder (and only then the response counts as sent)
    async fn respond_part(&mut self, r: u64, k: usize) -> bool {
        if self.srv_closed {
            return false;
        }
        if let Some(stream) = self.have.remove(&r) {
            let size = self.resp_size.get(&r).copied().unwrap_or(0);
            let f = resp_frame(stream, r, size);
            let k = k.min(f.len().saturating_sub(1)).max(1);
            if self.srv.write_all(&f[..k]).await.is_err() {
                return false;
            }
            self.partial.insert(r, (stream, f[k..].to_vec()));
            true
        } else {
            false
        }
    }

    async fn respond_rest(&mut self, r: u64) -> bool {
        if self.srv_closed {
            return false;
        }
        if let Some((stream, rest)) = self.partial.remove(&r) {
            if self.srv.write_all(&rest).await.is_err() {
                return false;
            }
            self.ev(json!({"ev":"SrvSend","stream":stream,"r":r}));
            true
        } else {
            false
        }
    }

    async fn respond(&mut self, r: u64) -> bool {
        if self.srv_closed {
            return false;
        }
        if let Some(stream) = self.have.remove(&r) {
            let size = self.resp_size.get(&r).copied().unwrap_or(0);
            let f = resp_frame(stream, r, size);
            if self.srv.write_all(&f).await.is_err() {
                return false;
            }
            self.ev(json!({"ev":"SrvSend","stream":stream,"r":r}));
            true
        } else {
            false
        }
    }
}

fn install_router_sink(events: Arc<Mutex<Vec<Value>>>) {
    let sink: Arc<scylla::verif::trace::Sink> = Arc::new(move |ev: &scylla::verif::trace::Event<'_>| {
        if ev.src != "router" {
            return;
        }
        let mut o = serde_json::Map::new();
        o.insert("src".into(), json!(ev.src));
        o.insert("ev".into(), json!(ev.name));
        for (k, v) in ev.fields {
            o.insert((*k).into(), json!(v));
        }
        events.lock().unwrap().push(Value::Object(o));
    });
    scylla::verif::trace::install_local(Some(sink));
}

/// Runs one schedule: list of ["S",r] | ["C",r] | ["R",r] | ["Y",0] | ["F",kind,arg] ops.
fn run_schedule(ops: &[Value], coalescing: bool, keepalive: Option<(u64, u64)>) -> Vec<Value> {
    let rt = tokio::runtime::Builder::new_current_thread().enable_time().start_paused(true).build().unwrap();
    let events: Arc<Mutex<Vec<Value>>> = Arc::new(Mutex::new(Vec::new()));
    install_router_sink(events.clone());
    let evs = events.clone();
    let ops = ops.to_vec();
    let res = std::panic::catch_unwind(std::panic::AssertUnwindSafe(|| {
        rt.block_on(async move {
            // ["CAP", n] as first op: the pipe holds only n bytes in each direction (a peer with a full receive buffer)
            let cap = ops.first().filter(|o| o[0] == "CAP").and_then(|o| o[1].as_u64()).unwrap_or(1 << 20) as usize;
            let (client, server) = tokio::io::duplex(cap);
            let router = Arc::new(spawn_router(
                client,
                keepalive.map(|(i, _)| Duration::from_millis(i)),
                keepalive.map(|(_, t)| Duration::from_millis(t)),
                coalescing,
            ));
            let mut sim = Sim {
                quiet_wrong: 0,
                quiet_clash: 0,
                router,
                srv: server,
                srv_closed: false,
                deaf: false,
                partial: BTreeMap::new(),
                buf: Vec::new(),
                events: evs,
                calls: BTreeMap::new(),
                have: BTreeMap::new(),
                finished: BTreeSet::new(),
                resp_size: BTreeMap::new(),
            };
            let mut broken = false;
            for op in &ops {
                let kind = op[0].as_str().unwrap();
                match kind {
                    "S" => {
                        let r = op[1].as_u64().unwrap();
                        if let Some(sz) = op.get(2).and_then(|x| x.as_u64()) {
                            sim.resp_size.insert(r, sz as usize);
                        }
                        sim.submit(r);
                        // first poll: serialise + enqueue (the request is now "queued")
                        sim.poll_calls();
                    }
                    "B" => {
                        // bulk: submit `count` requests starting at id `start`
                        let start = op[1].as_u64().unwrap();
                        let count = op[2].as_u64().unwrap();
                        for r in start..start + count {
                            sim.submit(r);
                        }
                        sim.poll_calls();
                    }
                    "Q" => {
                        // quiet churn: `count` further requests pass through the connection (submitted, written, answered) in
                        // batches while the tracked requests stay as they are; judged by counters, reported as ONE event
                        let start = QUIET_BASE + op[1].as_u64().unwrap();
                        let count = op[2].as_u64().unwrap();
                        let (w0, c0) = (sim.quiet_wrong, sim.quiet_clash);
                        let mut next = start;
                        while next < start + count {
                            let hi = (next + 250).min(start + count);
                            for r in next..hi {
                                sim.submit(r);
                            }
                            sim.poll_calls();
                            sim.pump().await;
                            for r in next..hi {
                                sim.respond(r).await;
                            }
                            sim.pump().await;
                            next = hi;
                        }
                        let unfinished = sim.calls.keys().filter(|r| **r >= QUIET_BASE).count();
                        sim.ev(json!({"ev":"Quiet","n":count,"wrong":sim.quiet_wrong - w0,"clash":sim.quiet_clash - c0,"unfinished":unfinished}));
                    }
                    "RA" => {
                        // the server answers everything it holds, newest first
                        sim.drain_server().await;
                        let mut rs: Vec<u64> = sim.have.keys().copied().filter(|r| *r < u64::MAX / 2).collect();
                        rs.reverse();
                        for r in rs {
                            sim.respond(r).await;
                        }
                    }
                    "C" => sim.cancel(op[1].as_u64().unwrap()),
                    "RP" => {
                        // the server has written only the first k bytes of r's response so far
                        let r = op[1].as_u64().unwrap();
                        let k = op[2].as_u64().unwrap() as usize;
                        sim.drain_server().await;
                        sim.respond_part(r, k).await;
                    }
                    "RQ" => {
                        sim.respond_rest(op[1].as_u64().unwrap()).await;
                    }
                    "T" => {
                        // time passes (virtual clock), in steps, the router running in between
                        let ms = op[1].as_u64().unwrap();
                        let steps = 10u64;
                        for _ in 0..steps {
                            tokio::time::advance(Duration::from_millis(ms / steps + 1)).await;
                            sim.pump().await;
                        }
                    }
                    "R" => {
                        let r = op[1].as_u64().unwrap();
                        sim.drain_server().await;
                        sim.respond(r).await;
                    }
                    "Y" => sim.pump().await,
                    "F" => {
                        // fault: ["F", kind, arg]
                        let fk = op[1].as_str().unwrap();
                        sim.pump().await;
                        match fk {
                            "fin" => {
                                sim.ev(json!({"ev":"Fault","kind":"fin"}));
                                let _ = sim.srv.shutdown().await;
                                sim.srv_closed = true;
                            }
                            "cut" => {
                                // write the responses of all held frames, concatenated, but only `arg` bytes, then close
                                let cut = op[2].as_u64().unwrap() as usize;
                                let held: Vec<(u64, i16)> = sim.have.iter().filter(|(r, _)| **r < u64::MAX / 2).map(|(r, s)| (*r, *s)).collect();
                                let mut stream_bytes = Vec::new();
                                let mut ends = Vec::new();
                                for (r, s) in &held {
                                    stream_bytes.extend_from_slice(&resp_frame(*s, *r, sim.resp_size.get(r).copied().unwrap_or(0)));
                                    ends.push((stream_bytes.len(), *r, *s));
                                }
                                let cut = cut.min(stream_bytes.len());
                                let _ = sim.srv.write_all(&stream_bytes[..cut]).await;
                                for (end, r, s) in &ends {
                                    if *end <= cut {
                                        sim.have.remove(r);
                                        sim.ev(json!({"ev":"SrvSend","stream":s,"r":r}));
                                    }
                                }
                                sim.ev(json!({"ev":"Fault","kind":"cut","cut":cut,"total":stream_bytes.len()}));
                                let _ = sim.srv.shutdown().await;
                                sim.srv_closed = true;
                            }
                            "garbage" => {
                                let which = op[2].as_u64().unwrap();
                                let bytes: Vec<u8> = match which {
                                    0 => vec![0x04, 0, 0, 0, 0x08, 0, 0, 0, 0],      // client-direction version bit
                                    1 => vec![0x85, 0, 0, 0, 0x08, 0, 0, 0, 0],      // unsupported version
                                    2 => vec![0x84, 0, 0, 0, 0xFF, 0, 0, 0, 0],      // unknown opcode
                                    _ => vec![0xde, 0xad, 0xbe, 0xef, 0, 1, 2, 3, 4],
                                };
                                sim.ev(json!({"ev":"Fault","kind":"garbage","which":which}));
                                let _ = sim.srv.write_all(&bytes).await;
                            }
                            "unsolicited" => {
                                // a complete, well-formed response on a stream id nobody waits on
                                let used: BTreeSet<i16> = sim.have.values().copied().collect();
                                let s = (0..32767i16).rev().find(|s| !used.contains(s)).unwrap();
                                sim.ev(json!({"ev":"Fault","kind":"unsolicited","stream":s}));
                                let _ = sim.srv.write_all(&resp_frame(s, 424242, 0)).await;
                            }
                            "stall" => {
                                // the server stops answering (also keep-alives); advance virtual time
                                sim.ev(json!({"ev":"Fault","kind":"stall"}));
                                let (i, t) = keepalive.unwrap_or((1000, 1000));
                                let mode = op.get(2).and_then(|x| x.as_u64()).unwrap_or(0);
                                let busy = mode >= 1;
                                if mode == 2 {
                                    sim.deaf = true; // the peer does not even read any more: the writer backs up
                                }
                                let steps = if busy { 40 } else { 6 };
                                let step_ms = if busy { i / 3 + 1 } else { (i + t) / 2 + 1 };
                                for k in 0..steps {
                                    if busy {
                                        // callers keep submitting (and abandoning) requests while the peer is silent
                                        sim.submit(9000 + k);
                                        sim.poll_calls();
                                        if k >= 2 {
                                            sim.cancel(9000 + k - 2);
                                        }
                                    }
                                    tokio::time::advance(Duration::from_millis(step_ms)).await;
                                    sim.pump().await;
                                }
                            }
                            _ => {}
                        }
                        broken = true;
                        sim.pump().await;
                    }
                    _ => {}
                }
            }
            // end of schedule: without a fault the server answers everything it still holds
            sim.pump().await;
            if !broken {
                let halves: Vec<u64> = sim.partial.keys().copied().collect();
                for r in halves {
                    sim.respond_rest(r).await;
                }
                let rest: Vec<u64> = sim.have.keys().copied().filter(|r| *r < u64::MAX / 2).collect();
                for r in rest {
                    sim.respond(r).await;
                }
                sim.pump().await;
            } else {
                // give timers a chance (keep-alive, nothing else): callers must be resolved by now
                tokio::time::advance(Duration::from_secs(5)).await;
                sim.pump().await;
            }
            let pending: Vec<u64> = sim.calls.keys().copied().collect();
            sim.ev(json!({"ev":"End","pending":pending,"broken": if broken {1} else {0}}));
        });
    }));
    scylla::verif::trace::install_local(None);
    let mut evs = events.lock().unwrap().clone();
    if res.is_err() {
        evs.push(json!({"ev":"Panic","msg":crate::last_panic()}));
    }
    evs
}

/// `c02 router <schedules.ndjson> <out.ndjson> [coalescing 0/1]`
pub fn cmd_router(args: &[String]) -> i32 {
    let inp = std::fs::File::open(&args[0]).expect("schedules");
    let mut out = std::io::BufWriter::new(std::fs::File::create(&args[1]).expect("out"));
    let coalescing = args.get(2).map(|s| s == "1").unwrap_or(true);
    let (mut n, mut panics) = (0usize, 0usize);
    for line in std::io::BufReader::new(inp).lines() {
        let line = line.unwrap();
        if line.trim().is_empty() {
            continue;
        }
        let v: Value = serde_json::from_str(&line).unwrap();
        let (ops, ka) = if v.is_object() {
            let ka = v.get("keepalive").and_then(|k| k.as_array()).map(|a| (a[0].as_u64().unwrap(), a[1].as_u64().unwrap()));
            (v["ops"].as_array().unwrap().clone(), ka)
        } else {
            (v.as_array().unwrap().clone(), None)
        };
        let evs = run_schedule(&ops, coalescing, ka);
        n += 1;
        if evs.iter().any(|e| e["ev"] == "Panic") {
            panics += 1;
        }
        writeln!(out, "{}", json!({"ev":"Begin","n":n,"ops":ops})).unwrap();
        for e in evs {
            writeln!(out, "{}", e).unwrap();
        }
        writeln!(out, "{}", json!({"ev":"Reset"})).unwrap();
    }
    out.flush().unwrap();
    println!("{}", json!({"schedules":n,"panics":panics}));
    0
}
