//! `vh-driver c09 e2e <scenarios.ndjson> <out.ndjson>`: the request frames a real Session puts on the wire (property C09,
//! session level). One mock cluster (1 node) + one Session for the whole run; per scenario ONE request is issued with the
//! options the scenario asks for; the mock records header flags, opcode and the raw body of every QUERY / EXECUTE / BATCH
//! frame it receives for it. The judge re-encodes the request from the scenario (CqlRequest.tla) and compares bytes.
//! Input: {"id":N,"kind":"query"|"query_iter"|"execute"|"execute_iter"|"batch","cl":code,"serial":[0|1,code],"page":[0|1,n],
//!         "ts":[0|1,n],"tracing":0|1,"idem":0|1,"values":[CELL,...],"btype":0|1|2}
//!   CELL = {"k":"val","b":[bytes]} | {"k":"null"} | {"k":"unset"}   (every bind marker is a blob column)
//!   query / query_iter: unprepared statement WITHOUT values; execute / execute_iter: prepared statement with the values;
//!   batch: [prepared with the values, unprepared without values, prepared with the values]
//! Output: {"id":N,"ok":0|1,"err":"","ids":{"stmt":[bytes]},"frames":[{"opcode":o,"flags":f,"body":[bytes]}...]}
use std::io::{BufRead, Write};
use std::net::Ipv4Addr;
use std::num::NonZeroUsize;
use std::sync::{Arc, Mutex};
use std::time::{Duration, Instant};

use futures::TryStreamExt;
use serde_json::{Value, json};

use crate::mock::{Action, MockCluster, MockColumn, MockConfig, MockKeyspace, MockNodeCfg, MockTable, Reply, Request, stable_id, type_bytes};

const PORT: u16 = 19409;
const NVAL_MAX: usize = 4;

fn stmt_text(n: usize) -> String {
    // INSERT with n blob bind markers (n = 0: none)
    let cols: Vec<String> = (0..n).map(|i| format!("c{i}")).collect();
    let marks: Vec<&str> = (0..n).map(|_| "?").collect();
    if n == 0 { "SELECT c0 FROM ks.t".to_string() } else { format!("INSERT INTO ks.t ({}) VALUES ({})", cols.join(", "), marks.join(", ")) }
}

#[derive(Default)]
struct Model {
    frames: Vec<Value>,
    /// the node "forgets" the statement: the next EXECUTE is answered UNPREPARED (once)
    evict_next: bool,
}

impl Model {
    fn handle(&mut self, req: &Request) -> Action {
        let blob = type_bytes("blob").unwrap();
        match req.opcode {
            9 => {
                let text = req.query.clone().unwrap_or_default();
                let n = text.matches('?').count();
                Action::Reply(Reply::Prepared {
                    id: stable_id(text.as_bytes()),
                    result_metadata_id: None,
                    pk_indexes: if n > 0 { vec![0] } else { vec![] },
                    bind_cols: (0..n).map(|i| (format!("c{i}"), blob.clone())).collect(),
                    result_cols: if n == 0 { vec![("c0".into(), blob.clone())] } else { vec![] },
                    ks: "ks".into(),
                    table: "t".into(),
                })
            }
            7 | 10 | 13 => {
                self.frames.push(json!({"opcode": req.opcode, "flags": req.flags, "body": req.raw_body}));
                if req.opcode == 10 && self.evict_next {
                    self.evict_next = false;
                    let id = req.prepared_id.clone().unwrap_or_default();
                    let mut extra = vec![(id.len() >> 8) as u8, id.len() as u8];
                    extra.extend_from_slice(&id);
                    return Action::Reply(Reply::Error { code: 0x2500, message: "scripted unprepared".into(), extra });
                }
                let is_select = req.query.as_deref().map(|q| q.starts_with("SELECT")).unwrap_or(false) || (req.opcode == 10 && req.values.is_empty());
                if is_select {
                    Action::Reply(Reply::Rows { cols: vec![("c0".into(), blob)], ks: "ks".into(), table: "t".into(), rows: vec![vec![Some(vec![1, 2])]], paging_state: None, no_metadata: false, new_metadata_id: None })
                } else {
                    Action::Reply(Reply::Void)
                }
            }
            _ => Action::Reply(Reply::Void),
        }
    }
}

fn mock_config() -> MockConfig {
    MockConfig {
        port: PORT,
        shard_aware_port: None,
        nodes: vec![MockNodeCfg {
            ip: Ipv4Addr::new(127, 0, 9, 1),
            host_id: uuid::Uuid::from_u128((0xC09u128 << 64) | 1),
            dc: "dc1".into(),
            rack: "r1".into(),
            tokens: vec![0],
            nr_shards: None,
            msb_ignore: 0,
            metadata_id_ext: false,
            tablets_ext: false,
            lwt_mark: false,
        }],
        keyspaces: vec![MockKeyspace {
            name: "ks".into(),
            replication: vec![("class".into(), "org.apache.cassandra.locator.SimpleStrategy".into()), ("replication_factor".into(), "1".into())],
            tablets: false,
            tables: vec![MockTable {
                name: "t".into(),
                columns: (0..NVAL_MAX).map(|i| MockColumn { name: format!("c{i}"), kind: if i == 0 { "partition_key".into() } else { "regular".into() }, position: if i == 0 { 0 } else { -1 }, typ: "blob".into() }).collect(),
                partitioner: Some("org.apache.cassandra.dht.Murmur3Partitioner".into()),
            }],
        }],
        system_page_size_override: None,
    }
}

type Cells = Vec<scylla::value::MaybeUnset<Option<Vec<u8>>>>;

fn cells(v: &Value) -> Cells {
    use scylla::value::MaybeUnset;
    v.as_array()
        .cloned()
        .unwrap_or_default()
        .iter()
        .map(|c| match c["k"].as_str().unwrap_or("") {
            "null" => MaybeUnset::Set(None),
            "unset" => MaybeUnset::Unset,
            _ => MaybeUnset::Set(Some(c["b"].as_array().map(|a| a.iter().filter_map(|x| x.as_u64()).map(|x| x as u8).collect()).unwrap_or_default())),
        })
        .collect()
}

fn consistency(code: u64) -> scylla::statement::Consistency {
    use scylla::statement::Consistency::*;
    match code {
        0 => Any,
        1 => One,
        2 => Two,
        3 => Three,
        5 => All,
        6 => LocalQuorum,
        7 => EachQuorum,
        10 => LocalOne,
        _ => Quorum,
    }
}

async fn run_all(inp: &str, outp: &str) -> Result<Value, String> {
    use scylla::client::PoolSize;
    use scylla::client::session_builder::SessionBuilder;
    use scylla::statement::SerialConsistency;
    use scylla::statement::batch::{Batch, BatchType};
    use scylla::statement::unprepared::Statement;

    let model = Arc::new(Mutex::new(Model::default()));
    let m2 = model.clone();
    let handler: crate::mock::Handler = Arc::new(move |req: &Request| m2.lock().unwrap().handle(req));
    let t0 = Instant::now();
    let mock = loop {
        match MockCluster::try_start(mock_config(), handler.clone()).await {
            Ok(m) => break m,
            Err(_) if t0.elapsed() < Duration::from_secs(3) => tokio::time::sleep(Duration::from_millis(50)).await,
            Err(e) => return Err(format!("mock start: {e}")),
        }
    };
    let session = SessionBuilder::new()
        .known_node(mock.contact_point(0))
        .pool_size(PoolSize::PerHost(NonZeroUsize::new(1).unwrap()))
        .build()
        .await
        .map_err(|e| format!("session build: {e}"))?;
    // a second session that ASKS for compression; the node does not offer any, so nothing may be compressed
    let session_plain = session;
    let mut prepared_plain = Vec::new();
    for n in 0..=NVAL_MAX {
        prepared_plain.push(session_plain.prepare(stmt_text(n)).await.map_err(|e| format!("prepare {n}: {e}"))?);
    }
    // frames the node could not read because they carry the "compressed" flag although nothing was negotiated (mock log)
    let unnegotiated = |mock: &MockCluster| mock.log().iter().filter(|e| e["parse_error"].as_str().map_or(false, |m| m.contains("compressed frame received"))).count();
    let built = tokio::time::timeout(Duration::from_secs(15), async {
        let s = SessionBuilder::new()
            .known_node(mock.contact_point(0))
            .pool_size(PoolSize::PerHost(NonZeroUsize::new(1).unwrap()))
            .compression(Some(scylla::frame::Compression::Snappy))
            .build()
            .await
            .map_err(|e| format!("session (compression asked) build: {e}"))?;
        let mut ps = Vec::new();
        for n in 0..=NVAL_MAX {
            ps.push(s.prepare(stmt_text(n)).await.map_err(|e| format!("prepare {n} (compression asked): {e}"))?);
        }
        Ok::<_, String>((s, ps))
    })
    .await;
    let (session_c, prepared_c, c_err) = match built {
        Ok(Ok((s, ps))) => (Some(s), ps, String::new()),
        Ok(Err(e)) => (None, Vec::new(), e),
        Err(_) => (None, Vec::new(), "session (compression asked): not usable after 15 s".to_string()),
    };
    let bad_flags = unnegotiated(&mock);
    if session_c.is_none() && bad_flags == 0 {
        // not explained by anything the property talks about: a harness / environment problem
        return Err(c_err);
    }
    let input = std::fs::File::open(inp).map_err(|e| format!("open {inp}: {e}"))?;
    let mut out = std::io::BufWriter::new(std::fs::File::create(outp).map_err(|e| format!("create {outp}: {e}"))?);
    let mut lines = 0u64;
    for line in std::io::BufReader::new(input).lines() {
        let line = line.map_err(|e| e.to_string())?;
        if line.trim().is_empty() {
            continue;
        }
        let sc: Value = serde_json::from_str(&line).map_err(|e| format!("bad line: {e}"))?;
        let cl = consistency(sc["cl"].as_u64().unwrap_or(4));
        let serial = if sc["serial"][0].as_u64() == Some(1) { Some(if sc["serial"][1].as_u64() == Some(9) { SerialConsistency::LocalSerial } else { SerialConsistency::Serial }) } else { None };
        let page = if sc["page"][0].as_u64() == Some(1) { Some(sc["page"][1].as_i64().unwrap_or(1) as i32) } else { None };
        let ts = if sc["ts"][0].as_u64() == Some(1) { Some(sc["ts"][1].as_i64().unwrap_or(0)) } else { None };
        let tracing = sc["tracing"].as_u64() == Some(1);
        // where the caller says consistency / serial consistency: 0 on the statement (both profiles say something else),
        // 1 on the statement's own execution profile (the session's default profile says something else), 2 on the session's
        // default profile only. Statement beats its profile beats the session default.
        let lvl = sc["lvl"].as_u64().unwrap_or(0);
        let decoy = |k: u64| {
            scylla::client::execution_profile::ExecutionProfile::builder()
                .consistency(if k == 0 { scylla::statement::Consistency::All } else { scylla::statement::Consistency::Three })
                // (both decoys name a serial consistency: a statement that says "none" explicitly must beat them too)
                .serial_consistency(if k == 0 { Some(SerialConsistency::LocalSerial) } else { Some(SerialConsistency::Serial) })
                .build()
        };
        let wanted_profile = scylla::client::execution_profile::ExecutionProfile::builder().consistency(cl).serial_consistency(serial).build();
        let idem = sc["idem"].as_u64() == Some(1);
        let vals = cells(&sc["values"]);
        let n = vals.len().min(NVAL_MAX);
        let (session, prepared) = if sc["comp"].as_u64() == Some(1) {
            match &session_c {
                Some(s) => (s, &prepared_c),
                None => {
                    let o = json!({"id": sc["id"], "ok": 0, "err": format!("the node received {bad_flags} frames flagged compressed although no compression was negotiated; {c_err}"),
                                   "ids": {"select": [], "insert": []}, "frames": []});
                    writeln!(out, "{o}").map_err(|e| e.to_string())?;
                    lines += 1;
                    continue;
                }
            }
        } else {
            (&session_plain, &prepared_plain)
        };
        let pstate = || {
            if sc["ps"][0].as_u64() == Some(1) {
                scylla::response::PagingState::new_from_raw_bytes(sc["ps"][1].as_array().map(|a| a.iter().filter_map(|x| x.as_u64()).map(|x| x as u8).collect::<Vec<u8>>()).unwrap_or_default())
            } else {
                scylla::response::PagingState::start()
            }
        };
        {
            let mut m = model.lock().unwrap();
            m.frames.clear();
            m.evict_next = sc["evict"].as_u64() == Some(1);
        }
        // the session's default profile for this scenario
        session.get_default_execution_profile_handle().clone().map_to_another_profile(if lvl == 2 { wanted_profile.clone() } else { decoy(0) });
        let stmt_profile = match lvl {
            0 => Some(decoy(1).into_handle()),
            1 => Some(wanted_profile.clone().into_handle()),
            _ => None,
        };
        let res: Result<(), String> = match sc["kind"].as_str().unwrap_or("") {
            k @ ("query" | "query_iter" | "query_page") => {
                let mut q = Statement::new(stmt_text(0));
                if lvl == 0 {
                    q.set_consistency(cl);
                    q.set_serial_consistency(serial);
                }
                q.set_execution_profile_handle(stmt_profile.clone());
                q.set_timestamp(ts);
                q.set_tracing(tracing);
                q.set_is_idempotent(idem);
                if let Some(p) = page {
                    q.set_page_size(p);
                }
                if k == "query" {
                    session.query_unpaged(q, ()).await.map(|_| ()).map_err(|e| e.to_string())
                } else if k == "query_page" {
                    session.query_single_page(q, (), pstate()).await.map(|_| ()).map_err(|e| e.to_string())
                } else {
                    match session.query_iter(q, ()).await {
                        Ok(pager) => match pager.rows_stream::<(Vec<u8>,)>() {
                            Ok(s) => s.try_collect::<Vec<_>>().await.map(|_| ()).map_err(|e| e.to_string()),
                            Err(e) => Err(e.to_string()),
                        },
                        Err(e) => Err(e.to_string()),
                    }
                }
            }
            k @ ("execute" | "execute_iter" | "execute_page") => {
                let mut p = prepared[n].clone();
                if lvl == 0 {
                    p.set_consistency(cl);
                    p.set_serial_consistency(serial);
                }
                p.set_execution_profile_handle(stmt_profile.clone());
                p.set_timestamp(ts);
                p.set_tracing(tracing);
                p.set_is_idempotent(idem);
                if let Some(ps) = page {
                    p.set_page_size(ps);
                }
                if k == "execute" {
                    session.execute_unpaged(&p, vals.clone()).await.map(|_| ()).map_err(|e| e.to_string())
                } else if k == "execute_page" {
                    session.execute_single_page(&p, vals.clone(), pstate()).await.map(|_| ()).map_err(|e| e.to_string())
                } else {
                    match session.execute_iter(p, vals.clone()).await {
                        Ok(pager) => match pager.rows_stream::<(Vec<u8>,)>() {
                            Ok(s) => s.try_collect::<Vec<_>>().await.map(|_| ()).map_err(|e| e.to_string()),
                            // an INSERT has no rows to stream: the frames are what matters
                            Err(_) => Ok(()),
                        },
                        Err(e) => Err(e.to_string()),
                    }
                }
            }
            "batch" => {
                let mut b = Batch::new(match sc["btype"].as_u64().unwrap_or(0) {
                    1 => BatchType::Unlogged,
                    2 => BatchType::Counter,
                    _ => BatchType::Logged,
                });
                // "bunprep": the middle statement is given as TEXT although it has values: the driver prepares it on the fly
                // (and rebuilds the batch); the frame must still say everything the caller said
                let bunprep = sc["bunprep"].as_u64() == Some(1) && n > 0;
                b.append_statement(prepared[n].clone());
                b.append_statement(Statement::new(stmt_text(if bunprep { n } else { 0 })));
                b.append_statement(prepared[n].clone());
                if lvl == 0 {
                    b.set_consistency(cl);
                    b.set_serial_consistency(serial);
                }
                b.set_execution_profile_handle(stmt_profile.clone());
                b.set_timestamp(ts);
                b.set_tracing(tracing);
                b.set_is_idempotent(idem);
                let empty: Cells = Vec::new();
                let mid = if bunprep { vals.clone() } else { empty };
                session.batch(&b, (vals.clone(), mid, vals.clone())).await.map(|_| ()).map_err(|e| e.to_string())
            }
            other => Err(format!("HARNESS: unknown kind {other:?}")),
        };
        let frames = model.lock().unwrap().frames.clone();
        let o = json!({"id": sc["id"], "ok": res.is_ok() as u8, "err": res.err().map(|e| e.chars().take(200).collect::<String>()).unwrap_or_default(),
                       "ids": {"select": prepared[0].get_id().to_vec(), "insert": prepared[n].get_id().to_vec()}, "frames": frames});
        writeln!(out, "{o}").map_err(|e| e.to_string())?;
        lines += 1;
    }
    out.flush().map_err(|e| e.to_string())?;
    drop(session_plain);
    drop(session_c);
    mock.shutdown().await;
    Ok(json!({"cmd": "c09-e2e", "lines": lines, "compressed_unnegotiated": bad_flags}))
}

pub fn cmd_e2e(args: &[String]) -> i32 {
    if args.len() != 2 {
        eprintln!("usage: vh-driver c09 e2e <scenarios.ndjson> <out.ndjson>");
        return 2;
    }
    let rt = tokio::runtime::Builder::new_multi_thread().worker_threads(2).enable_all().build().expect("runtime");
    match rt.block_on(run_all(&args[0], &args[1])) {
        Ok(s) => {
            println!("{s}");
            0
        }
        Err(e) => {
            eprintln!("c09 e2e: {e}");
            2
        }
    }
}
