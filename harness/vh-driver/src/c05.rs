//! C05: default load-balancing plans on real ClusterStates with per-node liveness overrides.

use crate::c04::{node_of, peers_of, strategy_of, tok_of_pos};
use rand::{Rng, SeedableRng, seq::SliceRandom};
use scylla::cluster::NodeRef;
use scylla::frame::response::result::TableSpec;
use scylla::policies::load_balancing::{DefaultPolicy, LoadBalancingPolicy, Plan, RoutingInfo};
use scylla::routing::{NodeLocationPreference, Shard, ShardCount, Sharder, Token};
use scylla::statement::Consistency;
use scylla::verif::cluster::{VKeyspace, build};
use serde_json::{Value, json};
use std::io::{BufRead, Write};
use std::sync::Arc;

const NOSHARD: i64 = 99999;

fn raw_plan(policy: &dyn LoadBalancingPolicy, ri: &RoutingInfo, state: &scylla::cluster::ClusterState) -> Vec<(usize, i64)> {
    let conv = |(n, s): (NodeRef<'_>, Option<Shard>)| (node_of(n.host_id), s.map(|x| x as i64).unwrap_or(NOSHARD));
    let picked = policy.pick(ri, state);
    let mut v: Vec<(usize, i64)> = Vec::new();
    if let Some(p) = picked {
        v.push(conv(p));
    }
    let mut skipped = false;
    for e in policy.fallback(ri, state) {
        // Plan filters the picked target out of fallback (same node and same shard hint)
        if let Some(p) = picked {
            if !skipped && std::ptr::eq(Arc::as_ptr(p.0), Arc::as_ptr(e.0)) && p.1 == e.1 {
                skipped = true;
                continue;
            }
        }
        v.push(conv(e));
    }
    v
}

/// `c05 run <topologies.ndjson> <out.ndjson> <seed> <combos per topology>`
pub fn cmd_run(args: &[String]) -> i32 {
    let inp = std::fs::File::open(&args[0]).expect("topologies");
    let mut out = std::io::BufWriter::new(std::fs::File::create(&args[1]).expect("out"));
    let seed: u64 = args[2].parse().unwrap();
    let per: usize = args[3].parse().unwrap();
    let mut rng = rand::rngs::StdRng::seed_from_u64(seed);
    let rt = tokio::runtime::Builder::new_current_thread().enable_all().build().unwrap();
    let (mut n, mut panics) = (0usize, 0usize);
    for line in std::io::BufReader::new(inp).lines() {
        let line = line.unwrap();
        if line.trim().is_empty() {
            continue;
        }
        let t: Value = serde_json::from_str(&line).unwrap();
        let attr: Vec<(String, String)> = t["attr"].as_array().unwrap().iter().map(|a| (a[0].as_str().unwrap().to_string(), a[1].as_str().unwrap().to_string())).collect();
        let vn: Vec<usize> = t["vnodes"].as_array().unwrap().iter().map(|x| x.as_u64().unwrap() as usize).collect();
        let nn = attr.len();
        let mut owners: Vec<usize> = Vec::new();
        for (i, k) in vn.iter().enumerate() {
            for _ in 0..*k {
                owners.push(i + 1);
            }
        }
        owners.shuffle(&mut rng);
        let ring: Vec<(usize, usize)> = owners.iter().enumerate().map(|(i, x)| (i + 1, *x)).collect();
        let nring = ring.len();
        let strats = [
            json!({"kind":"simple","rf":2}),
            json!({"kind":"simple","rf":nn}),
            json!({"kind":"nts","rfs":[["dc1",1],["dc2",1]]}),
            json!({"kind":"nts","rfs":[["dc1",2],["dc2",0]]}),
            json!({"kind":"nts","rfs":[["dc1",3],["dc2",2]]}),
        ];
        for _ in 0..per {
            let strat_v = strats[rng.random_range(0..strats.len())].clone();
            let r = std::panic::catch_unwind(std::panic::AssertUnwindSafe(|| {
                let state = rt.block_on(build(
                    peers_of(&attr, &ring, nring),
                    vec![VKeyspace { name: "ks_pre".into(), strategy: strategy_of(&strat_v), tablet_based: false, tables: vec!["t".into()] }],
                ));
                // liveness / enabled / sharder overrides
                let mut en = vec![0; nn];
                let mut al = vec![0; nn];
                for node in state.get_nodes_info() {
                    let i = node_of(node.host_id) - 1;
                    let e = rng.random_bool(0.85);
                    let a = e && rng.random_bool(0.75);
                    en[i] = e as i64;
                    al[i] = a as i64;
                    node.verif_override().set(e, a);
                    node.verif_override().set_sharder(if i % 2 == 0 { Some(Sharder::new(ShardCount::new(4).unwrap(), 12)) } else { None });
                }
                // policy
                let token_aware = rng.random_bool(0.8);
                let failover = rng.random_bool(0.5);
                let shuffle = rng.random_bool(0.5);
                let pref_kind = rng.random_range(0..6);
                let (pk, pdc, prack) = match pref_kind {
                    0 => ("any", "", ""),
                    1 => ("dc", "dc1", ""),
                    2 => ("dc", "dc2", ""),
                    3 => ("dcrack", "dc1", "r1"),
                    4 => ("dc", "dc3", ""),          // a datacenter that does not exist
                    _ => ("dcrack", "dc2", "r2"),
                };
                let inherit = rng.random_bool(0.3);
                let pref_val = match pk {
                    "any" => NodeLocationPreference::Any,
                    "dc" => NodeLocationPreference::Datacenter(pdc.to_string()),
                    _ => NodeLocationPreference::DatacenterAndRack(pdc.to_string(), prack.to_string()),
                };
                let mk_policy = || -> Arc<dyn LoadBalancingPolicy> {
                    let mut b = DefaultPolicy::builder().token_aware(token_aware).permit_dc_failover(failover).enable_shuffling_replicas(shuffle);
                    if inherit {
                        b = b.inherit_location_preference();
                    } else {
                        b = match pk {
                            "any" => b.prefer_no_datacenter(),
                            "dc" => b.prefer_datacenter(pdc.to_string()),
                            _ => b.prefer_datacenter_and_rack(pdc.to_string(), prack.to_string()),
                        };
                    }
                    b.build()
                };
                // request
                let q = if rng.random_bool(0.8) { rng.random_range(2..=2 * nring) } else { 0 };
                let token = if q == 0 { None } else if q % 2 == 0 { Some(tok_of_pos(q / 2, nring)) } else { Some(tok_of_pos((q - 1) / 2, nring) + 1) };
                let table_known = rng.random_bool(0.85);
                let ks_known = rng.random_bool(0.9);
                let lwt_kind = rng.random_range(0..4); // 0,1: no; 2: confirmed lwt; 3: serial consistency
                let known = TableSpec::borrowed("ks_pre", "t");
                let unknown = TableSpec::borrowed("nosuchks", "t");
                let mut ri = RoutingInfo::default();
                ri.token = token.map(Token::new);
                ri.table = if table_known { Some(if ks_known { &known } else { &unknown }) } else { None };
                ri.is_confirmed_lwt = lwt_kind == 2;
                ri.consistency = if lwt_kind == 3 { Consistency::LocalSerial } else { Consistency::Quorum };
                ri.node_location_preference = &pref_val;
                // the request's serial consistency: the plan must not depend on it
                let serial_kind = rng.random_range(0..3);
                ri.serial_consistency = match serial_kind {
                    0 => None,
                    1 => Some(scylla::statement::SerialConsistency::Serial),
                    _ => Some(scylla::statement::SerialConsistency::LocalSerial),
                };
                let policy = mk_policy();
                let plan = raw_plan(policy.as_ref(), &ri, &state);
                let plan_iter: Vec<(usize, i64)> = Plan::new(policy.as_ref(), &ri, &state).map(|(nd, s)| (node_of(nd.host_id), s as i64)).collect();
                let mut variants = Vec::new();
                for _ in 0..3 {
                    let p2 = mk_policy();
                    variants.push(raw_plan(p2.as_ref(), &ri, &state));
                }
                let strat_rec = if table_known && ks_known { strat_v.clone() } else { json!({"kind":"none"}) };
                json!({
                    "ring": ring.iter().map(|(p, x)| json!([2 * p, x])).collect::<Vec<_>>(),
                    "attr": attr.iter().map(|(d, r)| json!([d, r])).collect::<Vec<_>>(),
                    "strat": strat_rec, "q": q, "en": en, "al": al,
                    "tokenaware": token_aware as i64, "pref": [pk, pdc, prack], "inherit": inherit as i64, "failover": failover as i64, "shuffle": shuffle as i64,
                    "lwt": (lwt_kind >= 2) as i64, "serial": serial_kind,
                    "plan": plan, "plan_iter": plan_iter, "variants": variants
                })
            }));
            match r {
                Ok(v) => writeln!(out, "{}", v).unwrap(),
                Err(_) => {
                    panics += 1;
                    writeln!(out, "{}", json!({"panic": crate::last_panic()})).unwrap();
                }
            }
            n += 1;
        }
    }
    out.flush().unwrap();
    println!("{}", json!({"plans": n, "panics": panics}));
    0
}
