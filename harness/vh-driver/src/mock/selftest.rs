//! `vh-driver mock demo selftest [port]`: exercises the parts of the mock the plain demo does not
//! (malformed input, every Action, events, kill/stop/start, set_config, paging override, BATCH).

use std::collections::HashMap;
use std::net::{Ipv4Addr, SocketAddr};
use std::sync::{Arc, Mutex};
use std::time::Duration;

use tokio::io::{AsyncReadExt, AsyncWriteExt};
use tokio::net::TcpStream;

use super::demo::{demo_config, demo_handler};
use super::wire::{self, Rd};
use super::{Action, MockCluster, Reply, Request};

fn frame(stream: i16, opcode: u8, body: &[u8]) -> Vec<u8> {
    let mut f = vec![0x04, 0x00];
    f.extend_from_slice(&stream.to_be_bytes());
    f.push(opcode);
    f.extend_from_slice(&(body.len() as u32).to_be_bytes());
    f.extend_from_slice(body);
    f
}

async fn read_frame(s: &mut TcpStream) -> Result<(u8, i16, u8, Vec<u8>), String> {
    let mut h = [0u8; 9];
    tokio::time::timeout(Duration::from_secs(3), s.read_exact(&mut h)).await.map_err(|_| "timeout reading header".to_string())?.map_err(|e| format!("read header: {e}"))?;
    let len = u32::from_be_bytes([h[5], h[6], h[7], h[8]]) as usize;
    let mut b = vec![0u8; len];
    s.read_exact(&mut b).await.map_err(|e| format!("read body: {e}"))?;
    if h[0] != 0x84 {
        return Err(format!("response version byte {:#04x}", h[0]));
    }
    Ok((h[1], i16::from_be_bytes([h[2], h[3]]), h[4], b))
}

fn query_body(text: &str) -> Vec<u8> {
    let mut b = Vec::new();
    wire::put_i32(&mut b, text.len() as i32);
    b.extend_from_slice(text.as_bytes());
    wire::put_u16(&mut b, 1); // ONE
    b.push(0); // no flags
    b
}

fn check(name: &str, ok: bool, detail: String) -> Result<(), String> {
    println!("  [{}] {name} {detail}", if ok { "ok" } else { "FAIL" });
    if ok { Ok(()) } else { Err(format!("{name}: {detail}")) }
}

fn scripted(seen_batch: Arc<Mutex<Option<Request>>>) -> super::Handler {
    Arc::new(move |req: &Request| {
        if req.opcode == wire::OP_BATCH {
            *seen_batch.lock().unwrap() = Some(req.clone());
            return Action::Reply(Reply::Void);
        }
        match req.query.as_deref() {
            Some("never") => Action::Never,
            Some("delay") => Action::DelayMs(150, Box::new(Action::DelayMs(50, Box::new(Action::Reply(Reply::Void))))),
            Some("closeafter") => Action::CloseAfter(5, Reply::Void),
            Some("reset") => Action::Reset,
            Some("garbage") => Action::Garbage(vec![0xde, 0xad, 0xbe, 0xef]),
            Some("payload") => Action::ReplyWithPayload(HashMap::from([("k".to_string(), vec![1, 2, 3])]), Reply::Void),
            Some("panic") => panic!("scripted handler panic"),
            _ => demo_handler(req),
        }
    })
}

async fn raw_checks(mock: &MockCluster, port: u16) -> Result<(), String> {
    let addr = SocketAddr::from((Ipv4Addr::new(127, 0, 1, 1), port));
    let mut s = TcpStream::connect(addr).await.map_err(|e| format!("connect: {e}"))?;

    // Wrong protocol version.
    let mut bad = frame(7, wire::OP_OPTIONS, &[]);
    bad[0] = 0x03;
    s.write_all(&bad).await.unwrap();
    let (_, st, op, body) = read_frame(&mut s).await?;
    let code = Rd::new(&body).i32().unwrap_or(-1);
    check("wrong version -> ERROR protocol", op == 0 && st == 7 && code == wire::ERR_PROTOCOL, format!("(opcode {op}, stream {st}, code {code:#x})"))?;

    // OPTIONS -> SUPPORTED multimap.
    s.write_all(&frame(1, wire::OP_OPTIONS, &[])).await.unwrap();
    let (_, _, op, body) = read_frame(&mut s).await?;
    let mut rd = Rd::new(&body);
    let n = rd.u16().unwrap_or(0);
    let mut m = HashMap::new();
    for _ in 0..n {
        let k = rd.string()?;
        m.insert(k, rd.string_list()?);
    }
    check("OPTIONS -> SUPPORTED", op == wire::OP_SUPPORTED && m.contains_key("SCYLLA_SHARD") && m.get("SCYLLA_NR_SHARDS") == Some(&vec!["4".to_string()]) && rd.remaining() == 0, format!("({} keys)", m.len()))?;

    // STARTUP -> READY.
    let mut sb = Vec::new();
    wire::put_u16(&mut sb, 1);
    wire::put_string(&mut sb, "CQL_VERSION");
    wire::put_string(&mut sb, "4.0.0");
    s.write_all(&frame(2, wire::OP_STARTUP, &sb)).await.unwrap();
    let (_, _, op, _) = read_frame(&mut s).await?;
    check("STARTUP -> READY", op == wire::OP_READY, String::new())?;

    // Unknown opcode, truncated QUERY, trailing junk; the connection must survive all of them.
    s.write_all(&frame(3, 0x42, &[1, 2, 3])).await.unwrap();
    let (_, st, op, _) = read_frame(&mut s).await?;
    check("unknown opcode -> ERROR", op == 0 && st == 3, String::new())?;
    s.write_all(&frame(4, wire::OP_QUERY, &[0, 0, 0, 50, b'x'])).await.unwrap();
    let (_, st, op, _) = read_frame(&mut s).await?;
    check("truncated QUERY -> ERROR", op == 0 && st == 4, String::new())?;
    let mut junk = query_body("SELECT pk, v FROM ks.t");
    junk.extend_from_slice(&[9, 9]);
    s.write_all(&frame(5, wire::OP_QUERY, &junk)).await.unwrap();
    let (_, st, op, _) = read_frame(&mut s).await?;
    check("trailing bytes -> ERROR", op == 0 && st == 5, String::new())?;
    s.write_all(&frame(6, wire::OP_QUERY, &query_body("panic"))).await.unwrap();
    let (_, st, op, body) = read_frame(&mut s).await?;
    check("handler panic -> ERROR server", op == 0 && st == 6 && Rd::new(&body).i32() == Ok(wire::ERR_SERVER), String::new())?;

    // Frame split across writes + two frames in one write.
    let q = frame(8, wire::OP_QUERY, &query_body("SELECT pk, v FROM ks.t"));
    s.write_all(&q[..11]).await.unwrap();
    s.flush().await.unwrap();
    tokio::time::sleep(Duration::from_millis(20)).await;
    let mut rest = q[11..].to_vec();
    rest.extend_from_slice(&frame(9, wire::OP_OPTIONS, &[]));
    s.write_all(&rest).await.unwrap();
    let (_, st1, op1, body) = read_frame(&mut s).await?;
    let (_, st2, op2, _) = read_frame(&mut s).await?;
    let mut rd = Rd::new(&body);
    let (kind, flags, ncols) = (rd.i32()?, rd.i32()?, rd.i32()?);
    check("split + coalesced frames", (st1, op1, st2, op2) == (8, wire::OP_RESULT, 9, wire::OP_SUPPORTED) && kind == 2 && flags == 0x3 && ncols == 2, format!("(rows flags {flags:#x})"))?;

    // USE -> SetKeyspace, remembered.
    s.write_all(&frame(10, wire::OP_QUERY, &query_body("USE \"ks\""))).await.unwrap();
    let (_, _, op, body) = read_frame(&mut s).await?;
    let mut rd = Rd::new(&body);
    check("USE -> SetKeyspace", op == wire::OP_RESULT && rd.i32() == Ok(3) && rd.string().as_deref() == Ok("ks"), String::new())?;
    s.write_all(&frame(11, wire::OP_QUERY, &query_body("payload"))).await.unwrap();
    let (fl, _, op, body) = read_frame(&mut s).await?;
    let mut rd = Rd::new(&body);
    let pm = rd.bytes_map()?;
    check("ReplyWithPayload", fl == 0x04 && op == wire::OP_RESULT && pm.get("k") == Some(&vec![1, 2, 3]) && rd.i32() == Ok(1), String::new())?;
    let last_in = mock.log().into_iter().rev().find(|e| e["dir"] == "in" && e["kind"] == "user").unwrap_or_default();
    check("keyspace_at_arrival logged", last_in["ks"] == "ks" && last_in["query"] == "payload", String::new())?;

    // BATCH: logged, one text statement with a null + unset value, one prepared.
    let mut b = vec![1u8];
    wire::put_u16(&mut b, 2);
    b.push(0);
    wire::put_i32(&mut b, 3);
    b.extend_from_slice(b"abc");
    wire::put_u16(&mut b, 3);
    wire::put_bytes(&mut b, Some(&[7]));
    wire::put_i32(&mut b, -1);
    wire::put_i32(&mut b, -2);
    b.push(1);
    wire::put_short_bytes(&mut b, &[0xaa, 0xbb]);
    wire::put_u16(&mut b, 0);
    wire::put_u16(&mut b, 6); // LOCAL_QUORUM
    b.push(0x30);
    wire::put_u16(&mut b, 9);
    b.extend_from_slice(&1234i64.to_be_bytes());
    s.write_all(&frame(12, wire::OP_BATCH, &b)).await.unwrap();
    let (_, _, op, _) = read_frame(&mut s).await?;
    check("BATCH answered", op == wire::OP_RESULT, String::new())?;

    // Delay (nested), then garbage, then never.
    let t0 = std::time::Instant::now();
    s.write_all(&frame(13, wire::OP_QUERY, &query_body("delay"))).await.unwrap();
    let (_, st, _, _) = read_frame(&mut s).await?;
    check("DelayMs", st == 13 && t0.elapsed() >= Duration::from_millis(195), format!("({:?})", t0.elapsed()))?;
    s.write_all(&frame(14, wire::OP_QUERY, &query_body("garbage"))).await.unwrap();
    let mut g = [0u8; 4];
    s.read_exact(&mut g).await.map_err(|e| e.to_string())?;
    check("Garbage", g == [0xde, 0xad, 0xbe, 0xef], String::new())?;
    s.write_all(&frame(15, wire::OP_QUERY, &query_body("never"))).await.unwrap();
    let r = tokio::time::timeout(Duration::from_millis(200), s.read_u8()).await;
    check("Never", r.is_err(), String::new())?;

    // CloseAfter: exactly 5 bytes then EOF.
    s.write_all(&frame(16, wire::OP_QUERY, &query_body("closeafter"))).await.unwrap();
    let mut all = Vec::new();
    let n = tokio::time::timeout(Duration::from_secs(2), s.read_to_end(&mut all)).await.map_err(|_| "closeafter: no EOF".to_string())?.map_err(|e| e.to_string())?;
    check("CloseAfter(5)", n == 5 && all[0] == 0x84, format!("({n} bytes)"))?;

    // Reset -> ECONNRESET.
    let mut s = TcpStream::connect(addr).await.map_err(|e| e.to_string())?;
    s.write_all(&frame(1, wire::OP_QUERY, &query_body("reset"))).await.unwrap();
    let r = tokio::time::timeout(Duration::from_secs(2), s.read_u8()).await.map_err(|_| "reset: timeout".to_string())?;
    check("Reset", matches!(&r, Err(e) if e.kind() == std::io::ErrorKind::ConnectionReset), format!("({r:?})"))?;

    // Oversized length -> ERROR then close.
    let mut s = TcpStream::connect(addr).await.map_err(|e| e.to_string())?;
    s.write_all(&[0x04, 0, 0, 1, wire::OP_QUERY, 0xff, 0xff, 0xff, 0xff]).await.unwrap();
    let (_, _, op, _) = read_frame(&mut s).await?;
    let eof = tokio::time::timeout(Duration::from_secs(2), s.read_u8()).await.map_err(|_| "oversize: no close".to_string())?;
    check("oversized frame -> ERROR + close", op == 0 && eof.is_err(), String::new())?;

    // kill_connections with RST on a raw connection.
    let mut s = TcpStream::connect(addr).await.map_err(|e| e.to_string())?;
    s.write_all(&frame(1, wire::OP_OPTIONS, &[])).await.unwrap();
    read_frame(&mut s).await?;
    let my_port = s.local_addr().unwrap().port();
    let my_id = mock.open_connections(0).into_iter().find(|(_, _, p)| *p == my_port).map(|(id, _, _)| id);
    let killed = mock.kill_connections(0, &|id, _| Some(id) == my_id, true);
    let r = tokio::time::timeout(Duration::from_secs(2), s.read_u8()).await.map_err(|_| "kill: timeout".to_string())?;
    check("kill_connections(rst)", killed == 1 && matches!(&r, Err(e) if e.kind() == std::io::ErrorKind::ConnectionReset), format!("(killed {killed}, {r:?})"))?;
    Ok(())
}

async fn session_checks(mock: &MockCluster, port: u16) -> Result<(), String> {
    // Tiny system pages + keyspace filter.
    let mut cfg = mock.config();
    cfg.system_page_size_override = Some(1);
    mock.set_config(cfg.clone());
    let session = scylla::client::session_builder::SessionBuilder::new()
        .known_node(mock.contact_point(1))
        .keyspaces_to_fetch(["ks"])
        .build()
        .await
        .map_err(|e| format!("session build: {e}"))?;
    let st = session.get_cluster_state();
    check("session with 1-row system pages + keyspace filter", st.get_nodes_info().len() == 3 && st.get_keyspace("ks").is_some_and(|k| k.tables.contains_key("t")), String::new())?;
    let filtered = mock.log().iter().any(|e| e["kind"] == "system" && e["query"].as_str().is_some_and(|q| q.contains("where keyspace_name in ?")));
    let paged = mock.log().iter().any(|e| e["kind"] == "system" && e["dir"] == "in" && !e["paging_state"].is_null());
    check("filter statement seen, paging state seen", filtered && paged, String::new())?;

    // Wait for the pools, then kill node 0's connections and see them come back.
    let wait = |node: usize, want: usize| async move {
        for _ in 0..600 {
            if mock.open_connection_count(node) >= want {
                return true;
            }
            tokio::time::sleep(Duration::from_millis(10)).await;
        }
        false
    };
    check("pools filled", wait(0, 4).await && wait(1, 5).await && wait(2, 1).await, String::new())?;
    let killed = mock.kill_connections(0, &|_, shard| shard == Some(2), false);
    check("kill_connections(shard 2, fin)", killed >= 1 && mock.open_connections(0).iter().all(|(_, s, _)| *s != Some(2)), format!("(killed {killed})"))?;
    let mut back = false;
    for _ in 0..1000 {
        if mock.open_connections(0).iter().any(|(_, s, _)| *s == Some(2)) {
            back = true;
            break;
        }
        tokio::time::sleep(Duration::from_millis(10)).await;
    }
    check("driver reopened shard 2", back, String::new())?;

    // stop_node / start_node.
    let a2 = SocketAddr::from((Ipv4Addr::new(127, 0, 1, 3), port));
    mock.stop_node(2).await;
    let refused = TcpStream::connect(a2).await;
    check("stop_node refuses connections", refused.is_err() && mock.open_connection_count(2) == 0 && !mock.is_node_running(2), String::new())?;
    mock.start_node(2).await;
    check("start_node accepts again", TcpStream::connect(a2).await.is_ok(), String::new())?;

    // Events: a fourth node appears.
    let mut n4 = cfg.nodes[2].clone();
    n4.ip = Ipv4Addr::new(127, 0, 1, 4);
    n4.host_id = uuid::Uuid::from_u128(0xA000_0000_0000_4000_8000_0000_0000_0004);
    n4.tokens = vec![17, -17];
    cfg.nodes.push(n4);
    mock.set_config(cfg);
    mock.start_node(3).await;
    let a4 = SocketAddr::from((Ipv4Addr::new(127, 0, 1, 4), port));
    let sent = mock.send_event("TOPOLOGY_CHANGE", "NEW_NODE", a4);
    let sent_schema = mock.send_event("SCHEMA_CHANGE", "UPDATED TABLE ks t", a4);
    check("send_event reached the control connection", sent == 1 && sent_schema == 1, format!("({sent}, {sent_schema})"))?;
    let mut seen = 0;
    for _ in 0..1000 {
        seen = session.get_cluster_state().get_nodes_info().len();
        if seen == 4 {
            break;
        }
        tokio::time::sleep(Duration::from_millis(10)).await;
    }
    check("driver learned the new node after the event", seen == 4, format!("({seen} nodes)"))?;
    drop(session);
    Ok(())
}

async fn run(port: u16) -> Result<(), String> {
    let seen_batch = Arc::new(Mutex::new(None));
    let mock = MockCluster::try_start(demo_config(port), scripted(seen_batch.clone())).await.map_err(|e| format!("start: {e}"))?;
    println!("raw protocol checks:");
    raw_checks(&mock, port).await?;
    let b = seen_batch.lock().unwrap().clone().and_then(|r| r.batch.map(|b| (r.consistency, b)));
    let ok = matches!(&b, Some((6, b)) if b.kind == 1 && b.statements.len() == 2
        && b.statements[0].query.as_deref() == Some("abc") && b.statements[0].values == vec![Some(vec![7]), None, None] && b.statements[0].unset == vec![false, false, true]
        && b.statements[1].prepared_id.as_deref() == Some(&[0xaa, 0xbb][..]) && b.serial_consistency == Some(9) && b.timestamp == Some(1234));
    check("BATCH parsed", ok, String::new())?;
    let log = mock.log();
    let strictly_increasing = log.windows(2).all(|w| w[0]["seq"].as_u64() < w[1]["seq"].as_u64());
    let closes = log.iter().filter(|e| e["ev"] == "close").map(|e| e["reason"].as_str().unwrap_or("").to_string()).collect::<Vec<_>>();
    check("log seq strictly increasing", strictly_increasing, format!("({} entries; close reasons {closes:?})", log.len()))?;
    mock.clear_log();
    println!("session checks:");
    session_checks(&mock, port).await?;
    mock.shutdown().await;
    check("shutdown closed everything", (0..4).all(|i| mock.open_connection_count(i) == 0), String::new())?;
    Ok(())
}

pub fn cmd_selftest(args: &[String]) -> i32 {
    let port: u16 = args.first().and_then(|s| s.parse().ok()).unwrap_or(19242);
    let rt = tokio::runtime::Builder::new_multi_thread().worker_threads(2).enable_all().build().unwrap();
    match rt.block_on(async { tokio::time::timeout(Duration::from_secs(90), run(port)).await }) {
        Ok(Ok(())) => {
            println!("mock selftest: OK");
            0
        }
        Ok(Err(e)) => {
            println!("mock selftest: FAILED: {e}");
            1
        }
        Err(_) => {
            println!("mock selftest: FAILED: timed out");
            1
        }
    }
}
