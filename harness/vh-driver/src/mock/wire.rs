//! Independent CQL v4 wire primitives for the mock: notation readers/writers, frame splitting,
//! request body parsing and reply body encoding. Nothing here uses scylla / scylla-cql code.

use std::collections::HashMap;

use bytes::BytesMut;

use super::{BatchReq, BatchStmt, Reply, Request};

pub type PResult<T> = Result<T, String>;

/// Largest frame body the mock accepts (the protocol's own limit is 256 MiB).
pub const MAX_BODY: usize = 256 * 1024 * 1024;

// Request opcodes.
pub const OP_STARTUP: u8 = 0x01;
pub const OP_OPTIONS: u8 = 0x05;
pub const OP_QUERY: u8 = 0x07;
pub const OP_PREPARE: u8 = 0x09;
pub const OP_EXECUTE: u8 = 0x0A;
pub const OP_REGISTER: u8 = 0x0B;
pub const OP_BATCH: u8 = 0x0D;
pub const OP_AUTH_RESPONSE: u8 = 0x0F;
// Response opcodes.
pub const OP_ERROR: u8 = 0x00;
pub const OP_READY: u8 = 0x02;
pub const OP_SUPPORTED: u8 = 0x06;
pub const OP_RESULT: u8 = 0x08;
pub const OP_EVENT: u8 = 0x0C;

// Error codes.
pub const ERR_SERVER: i32 = 0x0000;
pub const ERR_PROTOCOL: i32 = 0x000A;
pub const ERR_INVALID: i32 = 0x2200;

// Frame header flags.
pub const FLAG_COMPRESSION: u8 = 0x01;
pub const FLAG_TRACING: u8 = 0x02;
pub const FLAG_CUSTOM_PAYLOAD: u8 = 0x04;

// ---------------------------------------------------------------------------------------------
// Reader
// ---------------------------------------------------------------------------------------------

pub struct Rd<'a> {
    b: &'a [u8],
    pos: usize,
}

impl<'a> Rd<'a> {
    pub fn new(b: &'a [u8]) -> Self {
        Rd { b, pos: 0 }
    }
    pub fn remaining(&self) -> usize {
        self.b.len() - self.pos
    }
    pub fn take(&mut self, n: usize) -> PResult<&'a [u8]> {
        if self.remaining() < n {
            return Err(format!("truncated body: need {} bytes at offset {}, have {}", n, self.pos, self.remaining()));
        }
        let s = &self.b[self.pos..self.pos + n];
        self.pos += n;
        Ok(s)
    }
    pub fn u8(&mut self) -> PResult<u8> {
        Ok(self.take(1)?[0])
    }
    pub fn u16(&mut self) -> PResult<u16> {
        let s = self.take(2)?;
        Ok(u16::from_be_bytes([s[0], s[1]]))
    }
    pub fn i32(&mut self) -> PResult<i32> {
        let s = self.take(4)?;
        Ok(i32::from_be_bytes([s[0], s[1], s[2], s[3]]))
    }
    pub fn i64(&mut self) -> PResult<i64> {
        let s = self.take(8)?;
        let mut a = [0u8; 8];
        a.copy_from_slice(s);
        Ok(i64::from_be_bytes(a))
    }
    /// [string]
    pub fn string(&mut self) -> PResult<String> {
        let n = self.u16()? as usize;
        let s = self.take(n)?;
        String::from_utf8(s.to_vec()).map_err(|e| format!("invalid utf8 in [string]: {e}"))
    }
    /// [long string]
    pub fn long_string(&mut self) -> PResult<String> {
        let n = self.i32()?;
        if n < 0 {
            return Err(format!("negative [long string] length {n}"));
        }
        let s = self.take(n as usize)?;
        String::from_utf8(s.to_vec()).map_err(|e| format!("invalid utf8 in [long string]: {e}"))
    }
    /// [short bytes]
    pub fn short_bytes(&mut self) -> PResult<Vec<u8>> {
        let n = self.u16()? as usize;
        Ok(self.take(n)?.to_vec())
    }
    /// [bytes]: negative length => None
    pub fn bytes(&mut self) -> PResult<Option<Vec<u8>>> {
        let n = self.i32()?;
        if n < 0 {
            return Ok(None);
        }
        Ok(Some(self.take(n as usize)?.to_vec()))
    }
    /// [value]: (value, unset). -1 => null, -2 => unset.
    pub fn value(&mut self) -> PResult<(Option<Vec<u8>>, bool)> {
        let n = self.i32()?;
        if n == -1 {
            return Ok((None, false));
        }
        if n == -2 {
            return Ok((None, true));
        }
        if n < 0 {
            return Err(format!("invalid [value] length {n}"));
        }
        Ok((Some(self.take(n as usize)?.to_vec()), false))
    }
    pub fn string_list(&mut self) -> PResult<Vec<String>> {
        let n = self.u16()? as usize;
        let mut v = Vec::with_capacity(n.min(1024));
        for _ in 0..n {
            v.push(self.string()?);
        }
        Ok(v)
    }
    pub fn string_map(&mut self) -> PResult<HashMap<String, String>> {
        let n = self.u16()? as usize;
        let mut m = HashMap::new();
        for _ in 0..n {
            let k = self.string()?;
            let v = self.string()?;
            m.insert(k, v);
        }
        Ok(m)
    }
    pub fn bytes_map(&mut self) -> PResult<HashMap<String, Vec<u8>>> {
        let n = self.u16()? as usize;
        let mut m = HashMap::new();
        for _ in 0..n {
            let k = self.string()?;
            let v = self.bytes()?.unwrap_or_default();
            m.insert(k, v);
        }
        Ok(m)
    }
}

// ---------------------------------------------------------------------------------------------
// Writer helpers
// ---------------------------------------------------------------------------------------------

pub fn put_u16(b: &mut Vec<u8>, v: u16) {
    b.extend_from_slice(&v.to_be_bytes());
}
pub fn put_i32(b: &mut Vec<u8>, v: i32) {
    b.extend_from_slice(&v.to_be_bytes());
}
pub fn put_string(b: &mut Vec<u8>, s: &str) {
    let n = s.len().min(u16::MAX as usize);
    put_u16(b, n as u16);
    b.extend_from_slice(&s.as_bytes()[..n]);
}
pub fn put_short_bytes(b: &mut Vec<u8>, s: &[u8]) {
    let n = s.len().min(u16::MAX as usize);
    put_u16(b, n as u16);
    b.extend_from_slice(&s[..n]);
}
pub fn put_bytes(b: &mut Vec<u8>, s: Option<&[u8]>) {
    match s {
        None => put_i32(b, -1),
        Some(s) => {
            put_i32(b, s.len() as i32);
            b.extend_from_slice(s);
        }
    }
}
pub fn put_string_list(b: &mut Vec<u8>, l: &[String]) {
    put_u16(b, l.len() as u16);
    for s in l {
        put_string(b, s);
    }
}
pub fn put_string_multimap(b: &mut Vec<u8>, m: &[(String, Vec<String>)]) {
    put_u16(b, m.len() as u16);
    for (k, v) in m {
        put_string(b, k);
        put_string_list(b, v);
    }
}
pub fn put_bytes_map(b: &mut Vec<u8>, m: &HashMap<String, Vec<u8>>) {
    put_u16(b, m.len() as u16);
    let mut keys: Vec<&String> = m.keys().collect();
    keys.sort();
    for k in keys {
        put_string(b, k);
        put_bytes(b, Some(&m[k]));
    }
}
/// [inet]: one length byte, the address, an [int] port.
pub fn put_inet(b: &mut Vec<u8>, a: std::net::SocketAddr) {
    match a.ip() {
        std::net::IpAddr::V4(ip) => {
            b.push(4);
            b.extend_from_slice(&ip.octets());
        }
        std::net::IpAddr::V6(ip) => {
            b.push(16);
            b.extend_from_slice(&ip.octets());
        }
    }
    put_i32(b, a.port() as i32);
}

// ---------------------------------------------------------------------------------------------
// Frames
// ---------------------------------------------------------------------------------------------

pub struct Frame {
    pub version: u8,
    pub flags: u8,
    pub stream: i16,
    pub opcode: u8,
    pub body: Vec<u8>,
    /// Header + body exactly as received.
    pub raw: Vec<u8>,
}

/// Splits one complete frame off the front of `buf`, if there is one.
pub fn try_take_frame(buf: &mut BytesMut) -> PResult<Option<Frame>> {
    if buf.len() < 9 {
        return Ok(None);
    }
    let len = u32::from_be_bytes([buf[5], buf[6], buf[7], buf[8]]) as usize;
    if len > MAX_BODY {
        return Err(format!("frame body length {len} exceeds the maximum of {MAX_BODY}"));
    }
    if buf.len() < 9 + len {
        buf.reserve(9 + len - buf.len());
        return Ok(None);
    }
    let raw = buf.split_to(9 + len).to_vec();
    Ok(Some(Frame {
        version: raw[0],
        flags: raw[1],
        stream: i16::from_be_bytes([raw[2], raw[3]]),
        opcode: raw[4],
        body: raw[9..].to_vec(),
        raw,
    }))
}

pub fn encode_frame(flags: u8, stream: i16, opcode: u8, body: &[u8]) -> Vec<u8> {
    let mut f = Vec::with_capacity(9 + body.len());
    f.push(0x84);
    f.push(flags);
    f.extend_from_slice(&stream.to_be_bytes());
    f.push(opcode);
    f.extend_from_slice(&(body.len() as u32).to_be_bytes());
    f.extend_from_slice(body);
    f
}

// ---------------------------------------------------------------------------------------------
// Request parsing
// ---------------------------------------------------------------------------------------------

/// What the connection has negotiated so far (needed to parse EXECUTE and to encode results).
#[derive(Clone, Copy, Debug, Default)]
pub struct Negotiated {
    pub metadata_id: bool,
    pub tablets: bool,
    pub lwt_mark: bool,
}

/// Strips the parts of the body announced by header flags; returns the custom payload if any.
pub fn body_prelude<'a>(flags: u8, rd: &mut Rd<'a>) -> PResult<Option<HashMap<String, Vec<u8>>>> {
    if flags & FLAG_COMPRESSION != 0 {
        return Err("compressed frame received but no compression was negotiated".into());
    }
    if flags & FLAG_CUSTOM_PAYLOAD != 0 {
        return Ok(Some(rd.bytes_map()?));
    }
    Ok(None)
}

type Values = (Vec<Option<Vec<u8>>>, Vec<bool>, Vec<Option<String>>);

fn read_values(rd: &mut Rd<'_>, named: bool) -> PResult<Values> {
    let n = rd.u16()? as usize;
    let mut vals = Vec::with_capacity(n.min(4096));
    let mut unset = Vec::with_capacity(n.min(4096));
    let mut names = Vec::with_capacity(n.min(4096));
    for _ in 0..n {
        names.push(if named { Some(rd.string()?) } else { None });
        let (v, u) = rd.value()?;
        vals.push(v);
        unset.push(u);
    }
    Ok((vals, unset, names))
}

/// <consistency><flags>[<n>[name_1]<value_1>...][<page_size>][<paging_state>][<serial>][<timestamp>]
fn read_query_params(rd: &mut Rd<'_>, req: &mut Request) -> PResult<()> {
    req.consistency = rd.u16()?;
    let flags = rd.u8()?;
    req.query_flags = flags as u32;
    if flags & 0x80 != 0 {
        return Err(format!("unknown query flag 0x80 in flags byte {flags:#04x}"));
    }
    req.skip_metadata = flags & 0x02 != 0;
    if flags & 0x01 != 0 {
        let (v, u, n) = read_values(rd, flags & 0x40 != 0)?;
        req.values = v;
        req.unset = u;
        if flags & 0x40 != 0 {
            req.value_names = n.into_iter().map(|x| x.unwrap_or_default()).collect();
        }
    }
    if flags & 0x04 != 0 {
        req.page_size = Some(rd.i32()?);
    }
    if flags & 0x08 != 0 {
        req.paging_state = Some(rd.bytes()?.unwrap_or_default());
    }
    if flags & 0x10 != 0 {
        req.serial_consistency = Some(rd.u16()?);
    }
    if flags & 0x20 != 0 {
        req.timestamp = Some(rd.i64()?);
    }
    Ok(())
}

fn read_batch(rd: &mut Rd<'_>, req: &mut Request) -> PResult<()> {
    let kind = rd.u8()?;
    let n = rd.u16()? as usize;
    let mut statements = Vec::with_capacity(n.min(4096));
    // In v4 BATCH the "names for values" flag comes after the statements, so named values inside a
    // batch cannot be parsed reliably (a known protocol wart); values are read as unnamed.
    for i in 0..n {
        let sk = rd.u8()?;
        let (query, prepared_id) = match sk {
            0 => (Some(rd.long_string()?), None),
            1 => (None, Some(rd.short_bytes()?)),
            k => return Err(format!("batch statement {i}: unknown kind {k}")),
        };
        let (values, unset, _) = read_values(rd, false)?;
        statements.push(BatchStmt { query, prepared_id, values, unset });
    }
    let consistency = rd.u16()?;
    let flags = rd.u8()?;
    let serial_consistency = if flags & 0x10 != 0 { Some(rd.u16()?) } else { None };
    let timestamp = if flags & 0x20 != 0 { Some(rd.i64()?) } else { None };
    req.consistency = consistency;
    req.query_flags = flags as u32;
    req.serial_consistency = serial_consistency;
    req.timestamp = timestamp;
    req.batch = Some(BatchReq { kind, statements, consistency, serial_consistency, timestamp });
    Ok(())
}

/// Parses the body of QUERY / PREPARE / EXECUTE / BATCH into `req` (which already carries the
/// connection-level fields).
pub fn parse_statement_request(frame: &Frame, neg: Negotiated, req: &mut Request) -> PResult<()> {
    let mut rd = Rd::new(&frame.body);
    req.custom_payload = body_prelude(frame.flags, &mut rd)?;
    match frame.opcode {
        OP_QUERY => {
            req.query = Some(rd.long_string()?);
            read_query_params(&mut rd, req)?;
        }
        OP_PREPARE => {
            req.query = Some(rd.long_string()?);
        }
        OP_EXECUTE => {
            req.prepared_id = Some(rd.short_bytes()?);
            if neg.metadata_id {
                req.result_metadata_id = Some(rd.short_bytes()?);
            }
            read_query_params(&mut rd, req)?;
        }
        OP_BATCH => read_batch(&mut rd, req)?,
        o => return Err(format!("not a statement opcode: {o:#04x}")),
    }
    if rd.remaining() != 0 {
        return Err(format!("{} trailing bytes after the request body", rd.remaining()));
    }
    Ok(())
}

// ---------------------------------------------------------------------------------------------
// Reply encoding
// ---------------------------------------------------------------------------------------------

fn put_col_specs(b: &mut Vec<u8>, cols: &[(String, Vec<u8>)]) {
    for (name, typ) in cols {
        put_string(b, name);
        b.extend_from_slice(typ);
    }
}

/// `<flags><columns_count>[<paging_state>][<new_metadata_id>][<global_table_spec>?<col_spec_1>...]`
#[allow(clippy::too_many_arguments)]
fn put_result_metadata(
    b: &mut Vec<u8>,
    cols: &[(String, Vec<u8>)],
    ks: &str,
    table: &str,
    paging_state: Option<&[u8]>,
    no_metadata: bool,
    new_metadata_id: Option<&[u8]>,
) {
    let mut flags = 0i32;
    if paging_state.is_some() {
        flags |= 0x0002;
    }
    if no_metadata {
        flags |= 0x0004;
    } else if !cols.is_empty() {
        flags |= 0x0001;
    }
    if new_metadata_id.is_some() {
        flags |= 0x0008;
    }
    put_i32(b, flags);
    put_i32(b, cols.len() as i32);
    if let Some(ps) = paging_state {
        put_bytes(b, Some(ps));
    }
    if let Some(id) = new_metadata_id {
        put_short_bytes(b, id);
    }
    if !no_metadata && !cols.is_empty() {
        put_string(b, ks);
        put_string(b, table);
        put_col_specs(b, cols);
    }
}

/// Body of RESULT/Prepared. `extra_prepared_flags` is OR-ed into the prepared-metadata flags (this
/// is where the LWT mark negotiated through SCYLLA_LWT_ADD_METADATA_MARK goes).
#[allow(clippy::too_many_arguments)]
pub fn encode_prepared_body(
    metadata_id_negotiated: bool,
    id: &[u8],
    result_metadata_id: Option<&[u8]>,
    extra_prepared_flags: u32,
    pk_indexes: &[u16],
    bind_cols: &[(String, Vec<u8>)],
    result_cols: &[(String, Vec<u8>)],
    ks: &str,
    table: &str,
) -> Vec<u8> {
    let mut b = Vec::new();
    put_i32(&mut b, 0x0004);
    put_short_bytes(&mut b, id);
    if metadata_id_negotiated {
        match result_metadata_id {
            Some(m) => put_short_bytes(&mut b, m),
            None => put_short_bytes(&mut b, &super::stable_id(&col_fingerprint(result_cols))),
        }
    }
    // Prepared metadata.
    let mut flags = extra_prepared_flags;
    if !bind_cols.is_empty() {
        flags |= 0x0001;
    }
    b.extend_from_slice(&flags.to_be_bytes());
    put_i32(&mut b, bind_cols.len() as i32);
    put_i32(&mut b, pk_indexes.len() as i32);
    for i in pk_indexes {
        put_u16(&mut b, *i);
    }
    if !bind_cols.is_empty() {
        put_string(&mut b, ks);
        put_string(&mut b, table);
        put_col_specs(&mut b, bind_cols);
    }
    // Result metadata (NO_METADATA with zero columns for statements that return nothing).
    put_result_metadata(&mut b, result_cols, ks, table, None, result_cols.is_empty(), None);
    b
}

pub fn col_fingerprint(cols: &[(String, Vec<u8>)]) -> Vec<u8> {
    let mut v = Vec::new();
    for (n, t) in cols {
        put_string(&mut v, n);
        v.extend_from_slice(t);
    }
    v
}

pub fn encode_error_body(code: i32, message: &str, extra: &[u8]) -> Vec<u8> {
    let mut b = Vec::new();
    put_i32(&mut b, code);
    put_string(&mut b, message);
    b.extend_from_slice(extra);
    b
}

/// Encodes a scripted reply into (opcode, body) for a connection with the given negotiated state.
pub fn encode_reply(neg: Negotiated, r: &Reply) -> (u8, Vec<u8>) {
    match r {
        Reply::Void => {
            let mut b = Vec::new();
            put_i32(&mut b, 0x0001);
            (OP_RESULT, b)
        }
        Reply::SetKeyspace(ks) => {
            let mut b = Vec::new();
            put_i32(&mut b, 0x0003);
            put_string(&mut b, ks);
            (OP_RESULT, b)
        }
        Reply::Rows { cols, ks, table, rows, paging_state, no_metadata, new_metadata_id } => {
            let mut b = Vec::new();
            put_i32(&mut b, 0x0002);
            let new_id = if neg.metadata_id { new_metadata_id.as_deref() } else { None };
            put_result_metadata(&mut b, cols, ks, table, paging_state.as_deref(), *no_metadata, new_id);
            put_i32(&mut b, rows.len() as i32);
            for row in rows {
                for v in row {
                    put_bytes(&mut b, v.as_deref());
                }
            }
            (OP_RESULT, b)
        }
        Reply::Prepared { id, result_metadata_id, pk_indexes, bind_cols, result_cols, ks, table } => (
            OP_RESULT,
            encode_prepared_body(neg.metadata_id, id, result_metadata_id.as_deref(), 0, pk_indexes, bind_cols, result_cols, ks, table),
        ),
        Reply::Error { code, message, extra } => (OP_ERROR, encode_error_body(*code, message, extra)),
        Reply::Raw { opcode, body } => (*opcode, body.clone()),
    }
}

/// Body of an EVENT frame. For SCHEMA_CHANGE `change` is `"<CREATED|UPDATED|DROPPED> <TARGET> <ks> [<name>]"`
/// (a bare change type means `KEYSPACE` with `default_ks`).
pub fn encode_event_body(kind: &str, change: &str, addr: std::net::SocketAddr, default_ks: &str) -> Vec<u8> {
    let mut b = Vec::new();
    put_string(&mut b, kind);
    if kind == "SCHEMA_CHANGE" {
        let parts: Vec<&str> = change.split_whitespace().collect();
        put_string(&mut b, parts.first().copied().unwrap_or("UPDATED"));
        let target = parts.get(1).copied().unwrap_or("KEYSPACE");
        put_string(&mut b, target);
        put_string(&mut b, parts.get(2).copied().unwrap_or(default_ks));
        if target != "KEYSPACE" {
            put_string(&mut b, parts.get(3).copied().unwrap_or(""));
            if target == "FUNCTION" || target == "AGGREGATE" {
                let args: Vec<String> = parts.iter().skip(4).map(|s| s.to_string()).collect();
                put_string_list(&mut b, &args);
            }
        }
    } else {
        put_string(&mut b, change);
        put_inet(&mut b, addr);
    }
    b
}

/// `[option]` type bytes for a CQL type written as text (`int`, `list<text>`, `map<text, frozen<set<int>>>`,
/// `tuple<int, text>`). UDTs and custom types are not supported (None).
pub fn type_bytes(cql: &str) -> Option<Vec<u8>> {
    let s = cql.trim().to_ascii_lowercase();
    let native = |id: u16| Some(id.to_be_bytes().to_vec());
    match s.as_str() {
        "ascii" => return native(0x01),
        "bigint" => return native(0x02),
        "blob" => return native(0x03),
        "boolean" => return native(0x04),
        "counter" => return native(0x05),
        "decimal" => return native(0x06),
        "double" => return native(0x07),
        "float" => return native(0x08),
        "int" => return native(0x09),
        "timestamp" => return native(0x0B),
        "uuid" => return native(0x0C),
        "text" | "varchar" => return native(0x0D),
        "varint" => return native(0x0E),
        "timeuuid" => return native(0x0F),
        "inet" => return native(0x10),
        "date" => return native(0x11),
        "time" => return native(0x12),
        "smallint" => return native(0x13),
        "tinyint" => return native(0x14),
        "duration" => return native(0x15),
        _ => {}
    }
    let open = s.find('<')?;
    if !s.ends_with('>') {
        return None;
    }
    let head = s[..open].trim();
    let inner = &s[open + 1..s.len() - 1];
    let mut args = Vec::new();
    let (mut depth, mut start) = (0i32, 0usize);
    for (i, ch) in inner.char_indices() {
        match ch {
            '<' => depth += 1,
            '>' => depth -= 1,
            ',' if depth == 0 => {
                args.push(&inner[start..i]);
                start = i + 1;
            }
            _ => {}
        }
    }
    args.push(&inner[start..]);
    let mut out = Vec::new();
    match (head, args.len()) {
        ("frozen", 1) => return type_bytes(args[0]),
        ("list", 1) => out.extend_from_slice(&0x20u16.to_be_bytes()),
        ("map", 2) => out.extend_from_slice(&0x21u16.to_be_bytes()),
        ("set", 1) => out.extend_from_slice(&0x22u16.to_be_bytes()),
        ("tuple", n) if n >= 1 => {
            out.extend_from_slice(&0x31u16.to_be_bytes());
            out.extend_from_slice(&(n as u16).to_be_bytes());
        }
        _ => return None,
    }
    for a in args {
        out.extend_from_slice(&type_bytes(a)?);
    }
    Some(out)
}

pub fn hex(b: &[u8]) -> String {
    let mut s = String::with_capacity(b.len() * 2);
    for x in b {
        s.push_str(&format!("{x:02x}"));
    }
    s
}
