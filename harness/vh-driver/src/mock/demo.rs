//! `vh-driver mock demo [port]`: self-test of the mock cluster against a real `Session`.

use std::net::Ipv4Addr;
use std::sync::Arc;

use futures::TryStreamExt;
use serde_json::Value;

use super::{Action, MockCluster, MockColumn, MockConfig, MockKeyspace, MockNodeCfg, MockTable, Reply, Request, stable_id, type_bytes};

const INSERT: &str = "INSERT INTO ks.t (pk, v) VALUES (?, ?)";
const SELECT: &str = "SELECT pk, v FROM ks.t";

pub fn demo_config(port: u16) -> MockConfig {
    let node = |i: u8, dc: &str, shards: Option<u16>, tokens: Vec<i64>| MockNodeCfg {
        ip: Ipv4Addr::new(127, 0, 1, i),
        host_id: uuid::Uuid::from_u128(0xA000_0000_0000_4000_8000_0000_0000_0000u128 + i as u128),
        dc: dc.to_string(),
        rack: "r1".to_string(),
        tokens,
        nr_shards: shards,
        msb_ignore: 12,
        metadata_id_ext: shards.is_some(),
        tablets_ext: false,
        lwt_mark: shards.is_some(),
    };
    let q = i64::MAX / 4;
    MockConfig {
        port,
        shard_aware_port: Some(port + 100),
        nodes: vec![
            node(1, "dc1", Some(4), vec![-3 * q, 0, 3 * q]),
            node(2, "dc1", Some(4), vec![-2 * q, q, 4 * q - 7]),
            node(3, "dc2", None, vec![-q, 2 * q, -4 * q + 7]),
        ],
        keyspaces: vec![MockKeyspace {
            name: "ks".into(),
            replication: vec![("class".into(), "org.apache.cassandra.locator.NetworkTopologyStrategy".into()), ("dc1".into(), "2".into()), ("dc2".into(), "1".into())],
            tablets: false,
            tables: vec![MockTable {
                name: "t".into(),
                columns: vec![
                    MockColumn { name: "pk".into(), kind: "partition_key".into(), position: 0, typ: "int".into() },
                    MockColumn { name: "v".into(), kind: "regular".into(), position: -1, typ: "text".into() },
                ],
                partitioner: Some("org.apache.cassandra.dht.Murmur3Partitioner".into()),
            }],
        }],
        system_page_size_override: None,
    }
}

fn cols() -> Vec<(String, Vec<u8>)> {
    vec![("pk".to_string(), type_bytes("int").unwrap()), ("v".to_string(), type_bytes("text").unwrap())]
}

fn invalid(msg: String) -> Action {
    Action::Reply(Reply::Error { code: 0x2200, message: msg, extra: vec![] })
}

/// Answers INSERT / SELECT on ks.t: SELECT yields 5 rows in two pages (3 + 2).
pub fn demo_handler(req: &Request) -> Action {
    let ins_id = stable_id(INSERT.as_bytes());
    let sel_id = stable_id(SELECT.as_bytes());
    let sel_meta = stable_id(b"ks.t:pk,v");
    let select_page = |req: &Request| {
        let all: Vec<(i32, &str)> = vec![(1, "one"), (2, "two"), (3, "three"), (4, "four"), (5, "five")];
        let (slice, next) = match req.paging_state.as_deref() {
            None => (&all[..3], Some(vec![3u8])),
            Some([3]) => (&all[3..], None),
            Some(other) => return invalid(format!("unknown paging state {other:?}")),
        };
        // Metadata may be skipped only if the client's cached metadata id is current.
        let id_current = req.result_metadata_id.as_deref() == Some(&sel_meta[..]);
        let skip = req.skip_metadata && (!req.ext_metadata_id || id_current);
        Action::Reply(Reply::Rows {
            cols: cols(),
            ks: "ks".into(),
            table: "t".into(),
            rows: slice.iter().map(|(pk, v)| vec![Some(pk.to_be_bytes().to_vec()), Some(v.as_bytes().to_vec())]).collect(),
            paging_state: next,
            no_metadata: skip,
            new_metadata_id: if req.skip_metadata && req.ext_metadata_id && !id_current { Some(sel_meta.clone()) } else { None },
        })
    };
    match req.opcode {
        0x09 => match req.query.as_deref() {
            Some(INSERT) => Action::Reply(Reply::Prepared { id: ins_id, result_metadata_id: None, pk_indexes: vec![0], bind_cols: cols(), result_cols: vec![], ks: "ks".into(), table: "t".into() }),
            Some(SELECT) => {
                Action::Reply(Reply::Prepared { id: sel_id, result_metadata_id: Some(sel_meta), pk_indexes: vec![], bind_cols: vec![], result_cols: cols(), ks: "ks".into(), table: "t".into() })
            }
            other => invalid(format!("demo handler cannot prepare {other:?}")),
        },
        0x0A => match req.prepared_id.as_deref() {
            Some(id) if id == ins_id => Action::Reply(Reply::Void),
            Some(id) if id == sel_id => select_page(req),
            Some(id) => {
                // UNPREPARED (0x2500) carries the [short bytes] id.
                let mut extra = (id.len() as u16).to_be_bytes().to_vec();
                extra.extend_from_slice(id);
                Action::Reply(Reply::Error { code: 0x2500, message: "unknown prepared statement".into(), extra })
            }
            None => invalid("EXECUTE without id".into()),
        },
        0x07 => match req.query.as_deref() {
            Some(q) if q.trim_start().to_ascii_uppercase().starts_with("INSERT") => Action::Reply(Reply::Void),
            Some(q) if q.trim_start().to_ascii_uppercase().starts_with("SELECT") => select_page(req),
            other => invalid(format!("demo handler cannot run {other:?}")),
        },
        _ => Action::Reply(Reply::Void),
    }
}

fn compact(v: &Value) -> String {
    let mut v = v.clone();
    if let Some(m) = v.as_object_mut()
        && let Some(raw) = m.remove("raw")
    {
        m.insert("raw_len".into(), Value::from(raw.as_array().map(|a| a.len()).unwrap_or(0)));
    }
    v.to_string()
}

async fn run(port: u16) -> Result<(), String> {
    let mock = MockCluster::try_start(demo_config(port), Arc::new(demo_handler)).await.map_err(|e| format!("start: {e}"))?;
    println!("mock cluster up: contact point {}", mock.contact_point(0));

    let session = scylla::client::session_builder::SessionBuilder::new().known_node(mock.contact_point(0)).build().await.map_err(|e| format!("session build: {e}"))?;

    let state = session.get_cluster_state();
    let nodes = state.get_nodes_info();
    println!("nodes in cluster state: {}", nodes.len());
    for n in nodes {
        println!("  {} dc={:?} rack={:?} sharder={:?} connected={}", n.address, n.datacenter, n.rack, n.sharder(), n.is_connected());
    }
    println!("keyspace ks known: {}  (table t: {})", state.get_keyspace("ks").is_some(), state.get_keyspace("ks").map(|k| k.tables.contains_key("t")).unwrap_or(false));
    if nodes.len() != 3 {
        return Err(format!("expected 3 nodes, got {}", nodes.len()));
    }

    // Let the per-shard pools fill (1 control connection + 4 shards on node 0, 4 on node 1, 1 on node 2).
    for _ in 0..200 {
        if mock.open_connection_count(0) >= 5 && mock.open_connection_count(1) >= 4 && mock.open_connection_count(2) >= 1 {
            break;
        }
        tokio::time::sleep(std::time::Duration::from_millis(10)).await;
    }
    let sa_port = port + 100;
    let mut sa_conns = 0;
    for e in mock.log().iter().filter(|e| e["ev"] == "accept" && e["port"] == sa_port) {
        sa_conns += 1;
        let (sp, sh) = (e["src_port"].as_u64().unwrap_or(0), e["shard"].as_u64().unwrap_or(99));
        if sp % 4 != sh {
            return Err(format!("shard-aware connection {e} has shard != src_port % 4"));
        }
    }
    println!("connections accepted on the shard-aware port {sa_port}: {sa_conns} (all with shard == src_port % 4)");
    if sa_conns == 0 {
        return Err("the driver never used the shard-aware port".into());
    }

    // Prepared INSERT.
    let insert = session.prepare(INSERT).await.map_err(|e| format!("prepare insert: {e}"))?;
    let ins_id_hex: String = stable_id(INSERT.as_bytes()).iter().map(|b| format!("{b:02x}")).collect();
    let res = session.execute_unpaged(&insert, (42i32, "forty-two")).await;
    println!("prepared INSERT result: {}", if res.is_ok() { "Ok".to_string() } else { format!("{:?}", res.as_ref().err()) });
    res.map_err(|e| format!("insert: {e}"))?;
    let first = mock.log().into_iter().find(|e| e["dir"] == "in" && e["kind"] == "user" && e["opcode"] == 0x0A && e["prepared_id"] == ins_id_hex.as_str());
    match &first {
        Some(e) => println!("  first EXECUTE frame went to node {} shard {} (conn {}, src_port {}, values {})", e["node"], e["shard"], e["conn"], e["src_port"], e["values"]),
        None => return Err("no EXECUTE of the INSERT in the log".into()),
    }
    let replicas = state.get_endpoints("ks", "t", &(42i32,)).map_err(|e| format!("get_endpoints: {e}"))?;
    let wanted: Vec<(String, u32)> = replicas.iter().map(|(n, s)| (n.address.ip().to_string(), *s)).collect();
    println!("  driver-side replicas (ip, shard) for pk=42: {wanted:?}");
    if let Some(e) = &first {
        let ip = format!("127.0.1.{}", e["node"].as_u64().unwrap_or(99) + 1);
        let hit = wanted.iter().any(|(wip, ws)| *wip == ip && (e["shard"].is_null() || e["shard"].as_u64() == Some(*ws as u64)));
        println!("  first frame landed on a replica's owning shard: {hit}");
        if !hit {
            return Err("token/shard-aware routing did not reach a replica shard".into());
        }
    }

    // Paged SELECT.
    let select = session.prepare(SELECT).await.map_err(|e| format!("prepare select: {e}"))?;
    let pager = session.execute_iter(select, ()).await.map_err(|e| format!("execute_iter: {e}"))?;
    let rows: Vec<(i32, String)> = pager.rows_stream::<(i32, String)>().map_err(|e| format!("rows_stream: {e}"))?.try_collect().await.map_err(|e| format!("next row: {e}"))?;
    println!("paged SELECT rows: {rows:?}");
    if rows.len() != 5 || rows[4] != (5, "five".to_string()) {
        return Err("SELECT did not return the 5 scripted rows".into());
    }

    // USE keyspace.
    let used = session.use_keyspace("ks", false).await;
    println!("use_keyspace(\"ks\") result: {used:?}");
    used.map_err(|e| format!("use_keyspace: {e}"))?;

    for i in 0..3 {
        println!("node {i}: {} open connections {:?}", mock.open_connection_count(i), mock.open_connections(i));
    }

    let log = mock.log();
    println!("log has {} entries; last 30:", log.len());
    for e in log.iter().skip(log.len().saturating_sub(30)) {
        println!("{}", compact(e));
    }
    let uses = log.iter().filter(|e| e["dir"] == "out" && e["kind"] == "system" && e["opcode"] == 8 && !e["ks"].is_null()).count();
    println!("connections that acknowledged USE ks: {uses}");

    drop(session);
    mock.shutdown().await;
    Ok(())
}

pub fn cmd_demo(args: &[String]) -> i32 {
    if args.first().map(|s| s.as_str()) == Some("selftest") {
        return super::selftest::cmd_selftest(&args[1..]);
    }
    let port: u16 = args.first().and_then(|s| s.parse().ok()).unwrap_or(19042);
    let rt = tokio::runtime::Builder::new_multi_thread().worker_threads(2).enable_all().build().unwrap();
    let r = rt.block_on(async { tokio::time::timeout(std::time::Duration::from_secs(60), run(port)).await });
    match r {
        Ok(Ok(())) => {
            println!("mock demo: OK");
            0
        }
        Ok(Err(e)) => {
            println!("mock demo: FAILED: {e}");
            1
        }
        Err(_) => {
            println!("mock demo: FAILED: timed out after 60s");
            1
        }
    }
}
