//! Answers to the driver's metadata statements (`system.local`, `system.peers`, `system_schema.*`),
//! computed from the `MockConfig`.

use std::net::Ipv4Addr;

use super::wire::{self, Rd, ERR_INVALID};
use super::{stable_id, MockConfig, Reply, Request};

#[derive(Clone, Copy, Debug, PartialEq)]
pub enum T {
    Text,
    Int,
    Uuid,
    Inet,
    Bool,
    SetText,
    ListText,
    MapTextText,
}

impl T {
    pub fn bytes(self) -> Vec<u8> {
        match self {
            T::Text => vec![0, 0x0D],
            T::Int => vec![0, 0x09],
            T::Uuid => vec![0, 0x0C],
            T::Inet => vec![0, 0x10],
            T::Bool => vec![0, 0x04],
            T::SetText => vec![0, 0x22, 0, 0x0D],
            T::ListText => vec![0, 0x20, 0, 0x0D],
            T::MapTextText => vec![0, 0x21, 0, 0x0D, 0, 0x0D],
        }
    }
}

#[derive(Clone, Debug)]
pub enum V {
    Null,
    Text(String),
    Int(i32),
    Uuid(uuid::Uuid),
    Inet(std::net::IpAddr),
    Bool(bool),
    Strs(Vec<String>),
    Map(Vec<(String, String)>),
}

impl V {
    pub fn enc(&self) -> Option<Vec<u8>> {
        match self {
            V::Null => None,
            V::Text(s) => Some(s.as_bytes().to_vec()),
            V::Int(i) => Some(i.to_be_bytes().to_vec()),
            V::Uuid(u) => Some(u.as_bytes().to_vec()),
            V::Inet(std::net::IpAddr::V4(a)) => Some(a.octets().to_vec()),
            V::Inet(std::net::IpAddr::V6(a)) => Some(a.octets().to_vec()),
            V::Bool(b) => Some(vec![*b as u8]),
            V::Strs(l) => {
                let mut b = Vec::new();
                wire::put_i32(&mut b, l.len() as i32);
                for s in l {
                    wire::put_bytes(&mut b, Some(s.as_bytes()));
                }
                Some(b)
            }
            V::Map(m) => {
                let mut b = Vec::new();
                wire::put_i32(&mut b, m.len() as i32);
                for (k, v) in m {
                    wire::put_bytes(&mut b, Some(k.as_bytes()));
                    wire::put_bytes(&mut b, Some(v.as_bytes()));
                }
                Some(b)
            }
        }
    }
}

/// A parsed `SELECT <cols> FROM <system table> [WHERE ...]`.
#[derive(Clone, Debug)]
pub struct SysQuery {
    pub ks: String,
    pub table: String,
    pub cols: Vec<String>,
    /// `WHERE keyspace_name IN ?`
    pub ks_filter: bool,
    pub n_binds: usize,
}

/// Recognises a SELECT on `system.*` / `system_schema.*` (case-insensitive, optional
/// `USING TIMEOUT ..` suffix, optional trailing `;`).
pub fn parse_sys_query(text: &str) -> Option<SysQuery> {
    let lower = text.trim().trim_end_matches(';').trim().to_ascii_lowercase();
    let lower = lower.split_whitespace().collect::<Vec<_>>().join(" ");
    let rest = lower.strip_prefix("select ")?;
    let from = rest.find(" from ")?;
    let cols: Vec<String> = rest[..from].split(',').map(|c| c.trim().trim_matches('"').to_string()).collect();
    let after = &rest[from + 6..];
    let full = after.split(' ').next()?;
    let (ks, table) = full.split_once('.')?;
    let ks = ks.trim_matches('"');
    let table = table.trim_matches('"');
    if ks != "system" && ks != "system_schema" {
        return None;
    }
    let tail = &after[full.len()..];
    let ks_filter = tail.contains("keyspace_name in ?");
    Some(SysQuery { ks: ks.to_string(), table: table.to_string(), cols, ks_filter, n_binds: tail.matches('?').count() })
}

/// `USE <ks>` / `USE "<Ks>"` -> keyspace name.
pub fn parse_use(text: &str) -> Option<String> {
    let t = text.trim().trim_end_matches(';').trim();
    if t.len() < 4 || !t[..3].eq_ignore_ascii_case("use") || !t.as_bytes()[3].is_ascii_whitespace() {
        return None;
    }
    let name = t[4..].trim();
    if name.is_empty() || name.contains(char::is_whitespace) {
        return None;
    }
    if name.len() >= 2 && name.starts_with('"') && name.ends_with('"') {
        Some(name[1..name.len() - 1].to_string())
    } else {
        Some(name.to_ascii_lowercase())
    }
}

fn table_def(ks: &str, table: &str) -> Option<Vec<(&'static str, T)>> {
    use T::*;
    Some(match (ks, table) {
        ("system", "local") => vec![
            ("key", Text),
            ("host_id", Uuid),
            ("rpc_address", Inet),
            ("broadcast_address", Inet),
            ("listen_address", Inet),
            ("data_center", Text),
            ("rack", Text),
            ("tokens", SetText),
            ("cluster_name", Text),
            ("partitioner", Text),
            ("release_version", Text),
            ("cql_version", Text),
            ("native_protocol_version", Text),
            ("schema_version", Uuid),
            ("bootstrapped", Text),
        ],
        ("system", "peers") => vec![
            ("peer", Inet),
            ("host_id", Uuid),
            ("rpc_address", Inet),
            ("preferred_ip", Inet),
            ("data_center", Text),
            ("rack", Text),
            ("tokens", SetText),
            ("release_version", Text),
            ("schema_version", Uuid),
        ],
        ("system_schema", "keyspaces") => vec![("keyspace_name", Text), ("replication", MapTextText), ("durable_writes", Bool)],
        ("system_schema", "types") => vec![("keyspace_name", Text), ("type_name", Text), ("field_names", ListText), ("field_types", ListText)],
        ("system_schema", "tables") => vec![("keyspace_name", Text), ("table_name", Text)],
        ("system_schema", "views") => vec![("keyspace_name", Text), ("view_name", Text), ("base_table_name", Text)],
        ("system_schema", "columns") => vec![
            ("keyspace_name", Text),
            ("table_name", Text),
            ("column_name", Text),
            ("clustering_order", Text),
            ("kind", Text),
            ("position", Int),
            ("type", Text),
        ],
        ("system_schema", "scylla_tables") => vec![("keyspace_name", Text), ("table_name", Text), ("partitioner", Text)],
        ("system_schema", "scylla_keyspaces") => vec![("keyspace_name", Text), ("initial_tablets", Int)],
        _ => return None,
    })
}

pub const SCHEMA_VERSION: uuid::Uuid = uuid::Uuid::from_u128(0x5ca1ab1e_0000_4000_8000_00000000c0de);
pub const CLUSTER_NAME: &str = "vh-mock-cluster";
pub const PARTITIONER: &str = "org.apache.cassandra.dht.Murmur3Partitioner";

/// Rows of a system table in the column order of `table_def`.
fn table_rows(cfg: &MockConfig, node: usize, ks: &str, table: &str) -> Vec<Vec<V>> {
    let text = |s: &str| V::Text(s.to_string());
    let tokens = |n: &super::MockNodeCfg| V::Strs(n.tokens.iter().map(|t| t.to_string()).collect());
    match (ks, table) {
        ("system", "local") => match cfg.nodes.get(node) {
            None => vec![],
            Some(n) => vec![vec![
                text("local"),
                V::Uuid(n.host_id),
                V::Inet(super::node_addr(node, n.ip)),
                V::Inet(super::node_addr(node, n.ip)),
                V::Inet(super::node_addr(node, n.ip)),
                text(&n.dc),
                text(&n.rack),
                tokens(n),
                text(CLUSTER_NAME),
                text(PARTITIONER),
                text("3.0.8"),
                text("3.3.1"),
                text("4"),
                V::Uuid(SCHEMA_VERSION),
                text("COMPLETED"),
            ]],
        },
        ("system", "peers") => cfg
            .nodes
            .iter()
            .enumerate()
            .filter(|(i, _)| *i != node && (super::HIDDEN_NODES.load(std::sync::atomic::Ordering::SeqCst) >> *i) & 1 == 0)
            .map(|(i, n)| {
                vec![V::Inet(super::node_addr(i, n.ip)), V::Uuid(n.host_id), V::Inet(super::node_addr(i, n.ip)), V::Null, text(&n.dc), text(&n.rack), tokens(n), text("3.0.8"), V::Uuid(SCHEMA_VERSION)]
            })
            .collect(),
        ("system_schema", "keyspaces") => cfg.keyspaces.iter().map(|k| vec![text(&k.name), V::Map(k.replication.clone()), V::Bool(true)]).collect(),
        ("system_schema", "tables") => cfg.keyspaces.iter().flat_map(|k| k.tables.iter().map(move |t| vec![V::Text(k.name.clone()), V::Text(t.name.clone())])).collect(),
        ("system_schema", "columns") => cfg
            .keyspaces
            .iter()
            .flat_map(|k| {
                k.tables.iter().flat_map(move |t| {
                    t.columns.iter().map(move |c| {
                        vec![
                            V::Text(k.name.clone()),
                            V::Text(t.name.clone()),
                            V::Text(c.name.clone()),
                            V::Text(if c.kind == "clustering" { "asc".into() } else { "none".into() }),
                            V::Text(c.kind.clone()),
                            V::Int(c.position),
                            V::Text(c.typ.clone()),
                        ]
                    })
                })
            })
            .collect(),
        ("system_schema", "scylla_tables") => cfg
            .keyspaces
            .iter()
            .flat_map(|k| {
                k.tables.iter().map(move |t| vec![V::Text(k.name.clone()), V::Text(t.name.clone()), t.partitioner.clone().map(V::Text).unwrap_or(V::Null)])
            })
            .collect(),
        ("system_schema", "scylla_keyspaces") => cfg.keyspaces.iter().map(|k| vec![text(&k.name), if k.tablets { V::Int(super::INITIAL_TABLETS.load(std::sync::atomic::Ordering::SeqCst)) } else { V::Null }]).collect(),
        // types, views: nothing to report
        _ => vec![],
    }
}

fn invalid(msg: String) -> Reply {
    Reply::Error { code: ERR_INVALID, message: msg, extra: vec![] }
}

/// Column projection: indexes into the table definition, in SELECT order.
fn project(q: &SysQuery) -> Result<(Vec<(&'static str, T)>, Vec<usize>), Reply> {
    let def = table_def(&q.ks, &q.table).ok_or_else(|| invalid(format!("unconfigured table {}.{} (mock)", q.ks, q.table)))?;
    if q.cols.len() == 1 && q.cols[0] == "*" {
        let idx = (0..def.len()).collect();
        return Ok((def, idx));
    }
    let mut idx = Vec::new();
    for c in &q.cols {
        match def.iter().position(|(n, _)| n == c) {
            Some(i) => idx.push(i),
            None => return Err(invalid(format!("Unrecognized name {} in {}.{} (mock)", c, q.ks, q.table))),
        }
    }
    Ok((def, idx))
}

fn result_cols(def: &[(&'static str, T)], idx: &[usize]) -> Vec<(String, Vec<u8>)> {
    idx.iter().map(|&i| (def[i].0.to_string(), def[i].1.bytes())).collect()
}

/// Statement id the mock hands out for a system statement.
pub fn sys_prepared_id(text: &str) -> Vec<u8> {
    stable_id(text.as_bytes())
}

/// RESULT/Prepared for a system statement.
pub fn answer_prepare(q: &SysQuery, text: &str) -> Reply {
    let (def, idx) = match project(q) {
        Ok(x) => x,
        Err(e) => return e,
    };
    let cols = result_cols(&def, &idx);
    let bind_cols: Vec<(String, Vec<u8>)> = if q.ks_filter && q.n_binds == 1 {
        vec![("keyspace_name".to_string(), T::ListText.bytes())]
    } else {
        (0..q.n_binds).map(|i| (format!("bind{i}"), vec![0, 0x03])).collect()
    };
    Reply::Prepared {
        id: sys_prepared_id(text),
        result_metadata_id: Some(stable_id(&wire::col_fingerprint(&cols))),
        pk_indexes: vec![],
        bind_cols,
        result_cols: cols,
        ks: q.ks.clone(),
        table: q.table.clone(),
    }
}

fn decode_text_list(b: &[u8]) -> Option<Vec<String>> {
    let mut rd = Rd::new(b);
    let n = rd.i32().ok()?;
    let mut out = Vec::new();
    for _ in 0..n.max(0) {
        let e = rd.bytes().ok()??;
        out.push(String::from_utf8(e).ok()?);
    }
    Some(out)
}

/// RESULT/Rows for a system statement executed on `node` (QUERY or EXECUTE; paging honoured).
pub fn answer_rows(cfg: &MockConfig, node: usize, q: &SysQuery, req: &Request) -> Reply {
    let (def, idx) = match project(q) {
        Ok(x) => x,
        Err(e) => return e,
    };
    let mut rows = table_rows(cfg, node, &q.ks, &q.table);
    if q.ks_filter
        && let Some(Some(v)) = req.values.first()
        && let Some(wanted) = decode_text_list(v)
        && let Some(kcol) = def.iter().position(|(n, _)| *n == "keyspace_name")
    {
        rows.retain(|r| matches!(&r[kcol], V::Text(k) if wanted.iter().any(|w| w == k)));
    }
    let total = rows.len();
    let offset = match &req.paging_state {
        Some(ps) if ps.len() == 8 => {
            let mut a = [0u8; 8];
            a.copy_from_slice(ps);
            (u64::from_be_bytes(a) as usize).min(total)
        }
        // 9 bytes = an offset + a marker: the page in between two real pages that carries NO rows but more pages to come
        Some(ps) if ps.len() == 9 && super::SYS_EMPTY_PAGES.load(std::sync::atomic::Ordering::SeqCst) => {
            return Reply::Rows {
                cols: result_cols(&def, &idx),
                ks: q.ks.clone(),
                table: q.table.clone(),
                rows: vec![],
                paging_state: Some(ps[..8].to_vec()),
                no_metadata: req.skip_metadata,
                new_metadata_id: None,
            };
        }
        Some(_) => return invalid("malformed paging state (mock)".into()),
        None => 0,
    };
    let page = match cfg.system_page_size_override {
        Some(n) => n.max(1),
        None => match req.page_size {
            Some(n) if n > 0 => n as usize,
            _ => usize::MAX,
        },
    };
    let end = offset.saturating_add(page).min(total);
    let paging_state = if end < total {
        let mut st = (end as u64).to_be_bytes().to_vec();
        if super::SYS_EMPTY_PAGES.load(std::sync::atomic::Ordering::SeqCst) {
            st.push(1);
        }
        Some(st)
    } else {
        None
    };
    let out_rows: Vec<Vec<Option<Vec<u8>>>> = rows[offset..end].iter().map(|r| idx.iter().map(|&i| r[i].enc()).collect()).collect();
    Reply::Rows {
        cols: result_cols(&def, &idx),
        ks: q.ks.clone(),
        table: q.table.clone(),
        rows: out_rows,
        paging_state,
        no_metadata: req.skip_metadata,
        new_metadata_id: None,
    }
}
