//! In-process mock CQL v4 cluster (see ../../MOCK.md). Own frame reader/writer and request parser;
//! nothing from scylla / scylla-cql / scylla-proxy is used on the server side.
#![allow(dead_code)]

mod demo;
mod selftest;
mod system;
mod wire;

use std::collections::HashMap;
use std::net::{Ipv4Addr, SocketAddr};
use std::sync::atomic::{AtomicBool, AtomicU32, AtomicU64, Ordering};
use std::sync::{Arc, Mutex, RwLock};
use std::time::Duration;

use bytes::BytesMut;
use serde_json::{Value, json};
use tokio::io::{AsyncReadExt, AsyncWriteExt};
use tokio::net::{TcpListener, TcpStream};
use tokio::sync::mpsc;
use tokio::task::JoinHandle;

pub use demo::cmd_demo;
#[allow(unused_imports)]
pub use wire::{Negotiated, encode_prepared_body, type_bytes};

// ---------------------------------------------------------------------------------------------
// Topology / schema description
// ---------------------------------------------------------------------------------------------

#[derive(Clone, Debug)]
pub struct MockNodeCfg {
    pub ip: Ipv4Addr,
    pub host_id: uuid::Uuid,
    pub dc: String,
    pub rack: String,
    pub tokens: Vec<i64>,
    /// None => plain Cassandra-like node (no sharding options in SUPPORTED, no shard-aware listener).
    pub nr_shards: Option<u16>,
    pub msb_ignore: u8,
    pub metadata_id_ext: bool,
    pub tablets_ext: bool,
    pub lwt_mark: bool,
}

#[derive(Clone, Debug)]
pub struct MockTable {
    pub name: String,
    pub columns: Vec<MockColumn>,
    pub partitioner: Option<String>,
}

#[derive(Clone, Debug)]
pub struct MockColumn {
    pub name: String,
    /// partition_key | clustering | regular | static
    pub kind: String,
    pub position: i32,
    /// CQL type text, e.g. "int", "text", "blob"
    pub typ: String,
}

/// Process-wide knobs (so that existing `MockConfig` literals stay valid):
/// value stored in `system_schema.scylla_keyspaces.initial_tablets` for tablet keyspaces (ScyllaDB stores 0 for `tablets = {'enabled': true}`),
pub static INITIAL_TABLETS: std::sync::atomic::AtomicI32 = std::sync::atomic::AtomicI32::new(1);
/// and what is added to the client's source port before the shard of a shard-aware-port connection is derived from it
/// (0 = faithful; k > 0 emulates a NAT rewriting source ports: the node binds the connection to another shard than requested).
pub static SHARD_SKEW: std::sync::atomic::AtomicU16 = std::sync::atomic::AtomicU16::new(0);
/// system-table answers: between two pages of rows an EMPTY page that still announces more pages is inserted
pub static SYS_EMPTY_PAGES: std::sync::atomic::AtomicBool = std::sync::atomic::AtomicBool::new(false);
/// the driver's schema-agreement probe (`SELECT schema_version FROM system.local WHERE key='local'`) goes to the scenario handler
/// instead of being answered from the system tables (the control connection's own, wider queries are unaffected)
pub static SCHEMA_PROBE_TO_HANDLER: std::sync::atomic::AtomicBool = std::sync::atomic::AtomicBool::new(false);
/// bit i set = node i of the configuration is not (or no longer) a member: it is left out of every `system.peers` answer
/// (its slot, address and listener index stay, so that it can join again)
pub static HIDDEN_NODES: std::sync::atomic::AtomicU32 = std::sync::atomic::AtomicU32::new(0);
/// every answer to a system-table query is held back this many milliseconds (a busy node: each page slow, none too slow)
pub static SYS_DELAY_MS: std::sync::atomic::AtomicU64 = std::sync::atomic::AtomicU64::new(0);
/// node 0 of the configuration lives at the IPv6 loopback address `::1` instead of its configured IPv4 address (listeners,
/// contact point, `system.local` / `system.peers`)
pub static V6_NODE0: std::sync::atomic::AtomicBool = std::sync::atomic::AtomicBool::new(false);
/// the address node `i` really lives at
pub fn node_addr(i: usize, ip: Ipv4Addr) -> std::net::IpAddr {
    if i == 0 && V6_NODE0.load(std::sync::atomic::Ordering::SeqCst) { std::net::Ipv6Addr::LOCALHOST.into() } else { ip.into() }
}
/// index of a node that currently accepts no NEW connections (they are closed at once; established ones live on), or -1
pub static REFUSE_NODE: std::sync::atomic::AtomicI32 = std::sync::atomic::AtomicI32::new(-1);

#[derive(Clone, Debug)]
pub struct MockKeyspace {
    pub name: String,
    pub replication: Vec<(String, String)>,
    pub tablets: bool,
    pub tables: Vec<MockTable>,
}

#[derive(Clone, Debug)]
pub struct MockConfig {
    pub port: u16,
    pub shard_aware_port: Option<u16>,
    pub nodes: Vec<MockNodeCfg>,
    pub keyspaces: Vec<MockKeyspace>,
    pub system_page_size_override: Option<usize>,
}

/// The mask advertised with SCYLLA_LWT_ADD_METADATA_MARK (same bit real ScyllaDB uses).
pub const LWT_MARK_MASK: u32 = 0x8000_0000;

// ---------------------------------------------------------------------------------------------
// Scripting
// ---------------------------------------------------------------------------------------------

#[derive(Clone, Debug, Default)]
pub struct BatchStmt {
    pub query: Option<String>,
    pub prepared_id: Option<Vec<u8>>,
    pub values: Vec<Option<Vec<u8>>>,
    pub unset: Vec<bool>,
}

#[derive(Clone, Debug, Default)]
pub struct BatchReq {
    /// 0 logged, 1 unlogged, 2 counter
    pub kind: u8,
    pub statements: Vec<BatchStmt>,
    pub consistency: u16,
    pub serial_consistency: Option<u16>,
    pub timestamp: Option<i64>,
}

/// One parsed request frame that is not a system query / handshake.
#[derive(Clone, Debug, Default)]
pub struct Request {
    pub seq: u64,
    pub node: usize,
    pub conn_id: u64,
    pub shard: Option<u16>,
    pub src_port: u16,
    pub stream: i16,
    pub opcode: u8,
    pub flags: u8,
    pub keyspace_at_arrival: Option<String>,
    pub query: Option<String>,
    pub prepared_id: Option<Vec<u8>>,
    pub result_metadata_id: Option<Vec<u8>>,
    pub values: Vec<Option<Vec<u8>>>,
    pub unset: Vec<bool>,
    pub consistency: u16,
    pub serial_consistency: Option<u16>,
    pub page_size: Option<i32>,
    pub paging_state: Option<Vec<u8>>,
    pub timestamp: Option<i64>,
    pub skip_metadata: bool,
    pub query_flags: u32,
    pub batch: Option<BatchReq>,
    pub raw_body: Vec<u8>,
    // --- additions to MOCK.md (read-only information for handlers) ---
    /// Names of the bound values when the request used the "names for values" flag (else empty).
    pub value_names: Vec<String>,
    /// Custom payload of the request (header flag 0x04), if any.
    pub custom_payload: Option<HashMap<String, Vec<u8>>>,
    /// Extensions this connection negotiated in STARTUP.
    pub ext_metadata_id: bool,
    pub ext_tablets: bool,
    pub ext_lwt_mark: bool,
    /// Local port the connection was accepted on (native or shard-aware).
    pub local_port: u16,
}

#[derive(Clone, Debug)]
pub enum Reply {
    Void,
    SetKeyspace(String),
    Rows {
        cols: Vec<(String, Vec<u8>)>,
        ks: String,
        table: String,
        rows: Vec<Vec<Option<Vec<u8>>>>,
        paging_state: Option<Vec<u8>>,
        no_metadata: bool,
        new_metadata_id: Option<Vec<u8>>,
    },
    Prepared {
        id: Vec<u8>,
        result_metadata_id: Option<Vec<u8>>,
        pk_indexes: Vec<u16>,
        bind_cols: Vec<(String, Vec<u8>)>,
        result_cols: Vec<(String, Vec<u8>)>,
        ks: String,
        table: String,
    },
    Error {
        code: i32,
        message: String,
        extra: Vec<u8>,
    },
    Raw {
        opcode: u8,
        body: Vec<u8>,
    },
}

#[derive(Clone, Debug)]
pub enum Action {
    Reply(Reply),
    /// Response with the custom payload flag (0x04).
    ReplyWithPayload(HashMap<String, Vec<u8>>, Reply),
    DelayMs(u64, Box<Action>),
    /// Never answer.
    Never,
    /// Write this many bytes of the response, then close the socket (FIN).
    CloseAfter(usize, Reply),
    /// Abort the connection (SO_LINGER 0 => RST).
    Reset,
    /// Write raw bytes instead of a frame.
    Garbage(Vec<u8>),
}

pub type Handler = Arc<dyn Fn(&Request) -> Action + Send + Sync>;

fn fnv1a(seed: u64, data: &[u8]) -> u64 {
    let mut h = 0xcbf2_9ce4_8422_2325u64 ^ seed;
    for b in data {
        h ^= *b as u64;
        h = h.wrapping_mul(0x0000_0100_0000_01b3);
    }
    h
}

/// Deterministic 16-byte id derived from `data` (used for statement ids / metadata ids).
pub fn stable_id(data: &[u8]) -> Vec<u8> {
    let mut v = fnv1a(0, data).to_be_bytes().to_vec();
    v.extend_from_slice(&fnv1a(0x9e37_79b9_7f4a_7c15, data).to_be_bytes());
    v
}

// ---------------------------------------------------------------------------------------------
// Shared state
// ---------------------------------------------------------------------------------------------

struct LogState {
    next_seq: u64,
    entries: Vec<Value>,
}

#[derive(Clone, Copy)]
struct ReqCtx {
    stream: i16,
    kind: &'static str,
}

enum Cmd {
    Perform(ReqCtx, Action),
    Event { kind: String, body: Vec<u8> },
    Kill { rst: bool, reason: &'static str },
}

struct ConnHandle {
    node: usize,
    shard: Option<u16>,
    src_port: u16,
    tx: mpsc::UnboundedSender<Cmd>,
    registered: Arc<Mutex<Vec<String>>>,
    join: Option<JoinHandle<()>>,
}

#[derive(Default)]
struct NodeRt {
    rr: AtomicU32,
    running: AtomicBool,
    listeners: Mutex<Vec<JoinHandle<()>>>,
}

struct Shared {
    cfg: RwLock<MockConfig>,
    handler: RwLock<Handler>,
    log: Mutex<LogState>,
    conns: Mutex<HashMap<u64, ConnHandle>>,
    next_conn: AtomicU64,
    /// Statement id -> text, for system statements the mock itself prepared.
    sys_prepared: Mutex<HashMap<Vec<u8>, String>>,
    nodes: Mutex<Vec<Arc<NodeRt>>>,
    intercept_use: AtomicBool,
}

impl Shared {
    /// Appends one entry; the sequence number is taken and the entry stored under one lock, so the
    /// log order is the seq order.
    fn log_with(&self, f: impl FnOnce(u64) -> Value) -> u64 {
        let mut g = self.log.lock().unwrap();
        let seq = g.next_seq;
        g.next_seq += 1;
        let v = f(seq);
        g.entries.push(v);
        seq
    }

    fn node_rt(&self, i: usize) -> Arc<NodeRt> {
        let mut g = self.nodes.lock().unwrap();
        while g.len() <= i {
            g.push(Arc::new(NodeRt::default()));
        }
        g[i].clone()
    }
}

/// Per-connection state owned by the connection task.
struct Conn {
    id: u64,
    node: usize,
    shard: Option<u16>,
    src_port: u16,
    local_port: u16,
    ks: Option<String>,
    neg: Negotiated,
    registered: Arc<Mutex<Vec<String>>>,
}

impl Conn {
    fn base(&self, seq: u64, dir: &str, stream: i16, opcode: Value, kind: &str) -> serde_json::Map<String, Value> {
        let mut m = serde_json::Map::new();
        m.insert("seq".into(), json!(seq));
        m.insert("dir".into(), json!(dir));
        m.insert("node".into(), json!(self.node));
        m.insert("conn".into(), json!(self.id));
        m.insert("shard".into(), json!(self.shard));
        m.insert("src_port".into(), json!(self.src_port));
        m.insert("stream".into(), json!(stream));
        m.insert("opcode".into(), opcode);
        m.insert("ks".into(), json!(self.ks));
        m.insert("kind".into(), json!(kind));
        m
    }
}

fn bytes_json(b: &[u8]) -> Value {
    Value::Array(b.iter().map(|x| json!(*x)).collect())
}

fn values_json(v: &[Option<Vec<u8>>]) -> Value {
    Value::Array(v.iter().map(|x| x.as_deref().map(bytes_json).unwrap_or(Value::Null)).collect())
}

fn request_fields(m: &mut serde_json::Map<String, Value>, r: &Request) {
    m.insert("flags".into(), json!(r.flags));
    m.insert("query".into(), json!(r.query));
    m.insert("prepared_id".into(), json!(r.prepared_id.as_deref().map(wire::hex)));
    m.insert("result_metadata_id".into(), json!(r.result_metadata_id.as_deref().map(wire::hex)));
    m.insert("values".into(), values_json(&r.values));
    m.insert("unset".into(), json!(r.unset));
    if !r.value_names.is_empty() {
        m.insert("value_names".into(), json!(r.value_names));
    }
    m.insert("consistency".into(), json!(r.consistency));
    m.insert("serial_consistency".into(), json!(r.serial_consistency));
    m.insert("page_size".into(), json!(r.page_size));
    m.insert("paging_state".into(), json!(r.paging_state.as_deref().map(wire::hex)));
    m.insert("timestamp".into(), json!(r.timestamp));
    m.insert("skip_metadata".into(), json!(r.skip_metadata));
    m.insert("query_flags".into(), json!(r.query_flags));
    m.insert(
        "batch".into(),
        match &r.batch {
            None => Value::Null,
            Some(b) => json!({
                "kind": b.kind,
                "consistency": b.consistency,
                "serial_consistency": b.serial_consistency,
                "timestamp": b.timestamp,
                "statements": b.statements.iter().map(|s| json!({
                    "query": s.query,
                    "prepared_id": s.prepared_id.as_deref().map(wire::hex),
                    "values": values_json(&s.values),
                    "unset": s.unset,
                })).collect::<Vec<_>>(),
            }),
        },
    );
}

// ---------------------------------------------------------------------------------------------
// Connection task
// ---------------------------------------------------------------------------------------------

/// Writes one response frame (logging it first). Err(reason) = the connection is finished.
async fn write_frame(shared: &Shared, stream: &mut TcpStream, c: &Conn, ctx: ReqCtx, flags: u8, opcode: u8, body: &[u8], extra: &[(&str, Value)]) -> Result<(), String> {
    let frame = wire::encode_frame(flags, ctx.stream, opcode, body);
    shared.log_with(|seq| {
        let mut m = c.base(seq, "out", ctx.stream, json!(opcode), ctx.kind);
        m.insert("flags".into(), json!(flags));
        m.insert("len".into(), json!(body.len()));
        for (k, v) in extra {
            m.insert((*k).into(), v.clone());
        }
        if ctx.kind == "user" {
            m.insert("raw".into(), bytes_json(&frame));
        }
        Value::Object(m)
    });
    stream.write_all(&frame).await.map_err(|e| format!("io_error: {e}"))
}

fn reply_frame_parts(c: &mut Conn, payload: Option<&HashMap<String, Vec<u8>>>, r: &Reply) -> (u8, u8, Vec<u8>) {
    let (opcode, body) = wire::encode_reply(c.neg, r);
    if let Reply::SetKeyspace(k) = r {
        // The keyspace counts as acknowledged from the moment the answer is written.
        c.ks = Some(k.clone());
    }
    match payload {
        None => (0, opcode, body),
        Some(p) => {
            let mut b = Vec::new();
            wire::put_bytes_map(&mut b, p);
            b.extend_from_slice(&body);
            (wire::FLAG_CUSTOM_PAYLOAD, opcode, b)
        }
    }
}

async fn write_reply(shared: &Shared, stream: &mut TcpStream, c: &mut Conn, ctx: ReqCtx, payload: Option<&HashMap<String, Vec<u8>>>, r: &Reply) -> Result<(), String> {
    let (flags, opcode, body) = reply_frame_parts(c, payload, r);
    write_frame(shared, stream, c, ctx, flags, opcode, &body, &[]).await
}

async fn write_error(shared: &Shared, stream: &mut TcpStream, c: &mut Conn, ctx: ReqCtx, code: i32, msg: String) -> Result<(), String> {
    write_reply(shared, stream, c, ctx, None, &Reply::Error { code, message: msg, extra: vec![] }).await
}

/// Carries out a scripted action. Some(reason) = the connection is finished.
async fn perform(shared: &Shared, stream: &mut TcpStream, c: &mut Conn, tx: &mpsc::UnboundedSender<Cmd>, ctx: ReqCtx, action: Action) -> Option<String> {
    match action {
        Action::Reply(r) => write_reply(shared, stream, c, ctx, None, &r).await.err(),
        Action::ReplyWithPayload(p, r) => write_reply(shared, stream, c, ctx, Some(&p), &r).await.err(),
        Action::DelayMs(ms, inner) => {
            let tx = tx.clone();
            tokio::spawn(async move {
                tokio::time::sleep(Duration::from_millis(ms)).await;
                let _ = tx.send(Cmd::Perform(ctx, *inner));
            });
            None
        }
        Action::Never => {
            shared.log_with(|seq| json!({"seq": seq, "ev": "never", "node": c.node, "conn": c.id, "src_port": c.src_port, "shard": c.shard, "stream": ctx.stream}));
            None
        }
        Action::CloseAfter(n, r) => {
            let (flags, opcode, body) = reply_frame_parts(c, None, &r);
            let frame = wire::encode_frame(flags, ctx.stream, opcode, &body);
            let n = n.min(frame.len());
            shared.log_with(|seq| {
                let mut m = c.base(seq, "out", ctx.stream, json!(opcode), ctx.kind);
                m.insert("flags".into(), json!(flags));
                m.insert("len".into(), json!(body.len()));
                m.insert("written".into(), json!(n));
                m.insert("raw".into(), bytes_json(&frame));
                Value::Object(m)
            });
            let _ = stream.write_all(&frame[..n]).await;
            let _ = stream.flush().await;
            let _ = stream.shutdown().await;
            Some("action_close_after".into())
        }
        Action::Reset => {
            let _ = stream.set_zero_linger();
            Some("action_reset".into())
        }
        Action::Garbage(bytes) => {
            shared.log_with(|seq| {
                let mut m = c.base(seq, "out", ctx.stream, Value::Null, ctx.kind);
                m.insert("garbage".into(), json!(true));
                m.insert("raw".into(), bytes_json(&bytes));
                Value::Object(m)
            });
            stream.write_all(&bytes).await.map_err(|e| format!("io_error: {e}")).err()
        }
    }
}

fn supported_options(cfg: &MockConfig, c: &Conn) -> Vec<(String, Vec<String>)> {
    let mut m: Vec<(String, Vec<String>)> = vec![("CQL_VERSION".into(), vec!["3.3.1".into()]), ("COMPRESSION".into(), vec![])];
    let Some(n) = cfg.nodes.get(c.node) else { return m };
    if let Some(nr) = n.nr_shards {
        m.push(("SCYLLA_SHARD".into(), vec![c.shard.unwrap_or(0).to_string()]));
        m.push(("SCYLLA_NR_SHARDS".into(), vec![nr.to_string()]));
        m.push(("SCYLLA_SHARDING_IGNORE_MSB".into(), vec![n.msb_ignore.to_string()]));
        m.push(("SCYLLA_PARTITIONER".into(), vec![system::PARTITIONER.into()]));
        m.push(("SCYLLA_SHARDING_ALGORITHM".into(), vec!["biased-token-round-robin".into()]));
        if let Some(p) = cfg.shard_aware_port {
            m.push(("SCYLLA_SHARD_AWARE_PORT".into(), vec![p.to_string()]));
        }
    }
    if n.metadata_id_ext {
        m.push(("SCYLLA_USE_METADATA_ID".into(), vec!["".into()]));
    }
    if n.tablets_ext {
        m.push(("TABLETS_ROUTING_V1".into(), vec!["".into()]));
    }
    if n.lwt_mark {
        m.push(("SCYLLA_LWT_ADD_METADATA_MARK".into(), vec![format!("LWT_OPTIMIZATION_META_BIT_MASK={LWT_MARK_MASK}")]));
    }
    m
}

fn log_in_simple(shared: &Shared, c: &Conn, f: &wire::Frame, kind: &'static str, extra: Vec<(&str, Value)>) -> u64 {
    shared.log_with(|seq| {
        let mut m = c.base(seq, "in", f.stream, json!(f.opcode), kind);
        m.insert("flags".into(), json!(f.flags));
        m.insert("len".into(), json!(f.body.len()));
        for (k, v) in extra {
            m.insert(k.into(), v);
        }
        if kind == "user" {
            m.insert("raw".into(), bytes_json(&f.raw));
        }
        Value::Object(m)
    })
}

enum Class {
    User,
    Use(String),
    SysPrepare(system::SysQuery, String),
    SysRows(system::SysQuery),
}

fn classify(shared: &Shared, req: &Request) -> Class {
    match req.opcode {
        wire::OP_QUERY => {
            let text = req.query.as_deref().unwrap_or("");
            if let Some(ks) = system::parse_use(text) {
                return Class::Use(ks);
            }
            match system::parse_sys_query(text) {
                Some(q) if SCHEMA_PROBE_TO_HANDLER.load(std::sync::atomic::Ordering::SeqCst) && q.table == "local" && q.cols == ["schema_version"] => Class::User,
                Some(q) => Class::SysRows(q),
                None => Class::User,
            }
        }
        wire::OP_PREPARE => {
            let text = req.query.as_deref().unwrap_or("");
            match system::parse_sys_query(text) {
                Some(q) => Class::SysPrepare(q, text.to_string()),
                None => Class::User,
            }
        }
        wire::OP_EXECUTE => {
            let id = req.prepared_id.as_deref().unwrap_or(&[]);
            let text = shared.sys_prepared.lock().unwrap().get(id).cloned();
            match text.as_deref().and_then(system::parse_sys_query) {
                Some(q) => Class::SysRows(q),
                None => Class::User,
            }
        }
        _ => Class::User,
    }
}

/// Handles one request frame. Some(reason) = the connection is finished.
async fn handle_frame(shared: &Arc<Shared>, stream: &mut TcpStream, c: &mut Conn, tx: &mpsc::UnboundedSender<Cmd>, f: wire::Frame) -> Option<String> {
    let hs = ReqCtx { stream: f.stream, kind: "handshake" };
    if f.version != 0x04 {
        log_in_simple(shared, c, &f, "handshake", vec![("version", json!(f.version))]);
        let msg = format!("Invalid or unsupported protocol version ({}); the mock speaks only v4", f.version & 0x7f);
        return write_error(shared, stream, c, hs, wire::ERR_PROTOCOL, msg).await.err();
    }
    match f.opcode {
        wire::OP_OPTIONS => {
            log_in_simple(shared, c, &f, "handshake", vec![]);
            let opts = {
                let cfg = shared.cfg.read().unwrap();
                supported_options(&cfg, c)
            };
            let mut body = Vec::new();
            wire::put_string_multimap(&mut body, &opts);
            write_frame(shared, stream, c, hs, 0, wire::OP_SUPPORTED, &body, &[]).await.err()
        }
        wire::OP_STARTUP => {
            let parsed = {
                let mut rd = wire::Rd::new(&f.body);
                wire::body_prelude(f.flags, &mut rd).and_then(|_| rd.string_map())
            };
            match parsed {
                Ok(opts) => {
                    let node = shared.cfg.read().unwrap().nodes.get(c.node).cloned();
                    if let Some(n) = node {
                        c.neg.metadata_id = n.metadata_id_ext && opts.contains_key("SCYLLA_USE_METADATA_ID");
                        c.neg.tablets = n.tablets_ext && opts.contains_key("TABLETS_ROUTING_V1");
                        c.neg.lwt_mark = n.lwt_mark && opts.contains_key("SCYLLA_LWT_ADD_METADATA_MARK");
                    }
                    let mut sorted: Vec<(&String, &String)> = opts.iter().collect();
                    sorted.sort();
                    let oj: serde_json::Map<String, Value> = sorted.into_iter().map(|(k, v)| (k.clone(), json!(v))).collect();
                    log_in_simple(shared, c, &f, "handshake", vec![("options", Value::Object(oj))]);
                    if opts.contains_key("COMPRESSION") {
                        return write_error(shared, stream, c, hs, wire::ERR_PROTOCOL, "the mock supports no compression".into()).await.err();
                    }
                    write_frame(shared, stream, c, hs, 0, wire::OP_READY, &[], &[]).await.err()
                }
                Err(e) => {
                    log_in_simple(shared, c, &f, "handshake", vec![("parse_error", json!(e))]);
                    write_error(shared, stream, c, hs, wire::ERR_PROTOCOL, format!("malformed STARTUP: {e}")).await.err()
                }
            }
        }
        wire::OP_REGISTER => {
            let parsed = {
                let mut rd = wire::Rd::new(&f.body);
                wire::body_prelude(f.flags, &mut rd).and_then(|_| rd.string_list())
            };
            match parsed {
                Ok(types) => {
                    log_in_simple(shared, c, &f, "handshake", vec![("events", json!(types))]);
                    {
                        let mut g = c.registered.lock().unwrap();
                        for t in types {
                            if !g.contains(&t) {
                                g.push(t);
                            }
                        }
                    }
                    write_frame(shared, stream, c, hs, 0, wire::OP_READY, &[], &[]).await.err()
                }
                Err(e) => {
                    log_in_simple(shared, c, &f, "handshake", vec![("parse_error", json!(e))]);
                    write_error(shared, stream, c, hs, wire::ERR_PROTOCOL, format!("malformed REGISTER: {e}")).await.err()
                }
            }
        }
        wire::OP_AUTH_RESPONSE => {
            log_in_simple(shared, c, &f, "handshake", vec![]);
            write_error(shared, stream, c, hs, wire::ERR_PROTOCOL, "unexpected AUTH_RESPONSE: the mock requires no authentication".into()).await.err()
        }
        wire::OP_QUERY | wire::OP_PREPARE | wire::OP_EXECUTE | wire::OP_BATCH => handle_statement(shared, stream, c, tx, f).await,
        other => {
            log_in_simple(shared, c, &f, "user", vec![("parse_error", json!(format!("unknown opcode {other:#04x}")))]);
            let ctx = ReqCtx { stream: f.stream, kind: "user" };
            write_error(shared, stream, c, ctx, wire::ERR_PROTOCOL, format!("unknown request opcode {other:#04x}")).await.err()
        }
    }
}

async fn handle_statement(shared: &Arc<Shared>, stream: &mut TcpStream, c: &mut Conn, tx: &mpsc::UnboundedSender<Cmd>, f: wire::Frame) -> Option<String> {
    let mut req = Request {
        node: c.node,
        conn_id: c.id,
        shard: c.shard,
        src_port: c.src_port,
        stream: f.stream,
        opcode: f.opcode,
        flags: f.flags,
        keyspace_at_arrival: c.ks.clone(),
        ext_metadata_id: c.neg.metadata_id,
        ext_tablets: c.neg.tablets,
        ext_lwt_mark: c.neg.lwt_mark,
        local_port: c.local_port,
        ..Default::default()
    };
    if let Err(e) = wire::parse_statement_request(&f, c.neg, &mut req) {
        log_in_simple(shared, c, &f, "user", vec![("parse_error", json!(e))]);
        let ctx = ReqCtx { stream: f.stream, kind: "user" };
        return write_error(shared, stream, c, ctx, wire::ERR_PROTOCOL, format!("malformed request body: {e}")).await.err();
    }
    let mut class = classify(shared, &req);
    if matches!(class, Class::Use(_)) && shared.intercept_use.load(Ordering::SeqCst) {
        class = Class::User;
    }
    match class {
        Class::User => {
            req.raw_body = f.body.clone();
            let seq = shared.log_with(|seq| {
                req.seq = seq;
                let mut m = c.base(seq, "in", f.stream, json!(f.opcode), "user");
                request_fields(&mut m, &req);
                m.insert("raw".into(), bytes_json(&f.raw));
                Value::Object(m)
            });
            req.seq = seq;
            let h = shared.handler.read().unwrap().clone();
            let action = match std::panic::catch_unwind(std::panic::AssertUnwindSafe(|| h(&req))) {
                Ok(a) => a,
                Err(_) => Action::Reply(Reply::Error { code: wire::ERR_SERVER, message: "mock handler panicked".into(), extra: vec![] }),
            };
            perform(shared, stream, c, tx, ReqCtx { stream: f.stream, kind: "user" }, action).await
        }
        Class::Use(ks) => {
            log_in_simple(shared, c, &f, "system", vec![("query", json!(req.query)), ("use", json!(ks))]);
            let ctx = ReqCtx { stream: f.stream, kind: "system" };
            write_reply(shared, stream, c, ctx, None, &Reply::SetKeyspace(ks)).await.err()
        }
        Class::SysPrepare(q, text) => {
            log_in_simple(shared, c, &f, "system", vec![("query", json!(req.query))]);
            let reply = system::answer_prepare(&q, &text);
            if let Reply::Prepared { id, .. } = &reply {
                shared.sys_prepared.lock().unwrap().insert(id.clone(), text);
            }
            let ctx = ReqCtx { stream: f.stream, kind: "system" };
            write_reply(shared, stream, c, ctx, None, &reply).await.err()
        }
        Class::SysRows(q) => {
            let text = match &req.query {
                Some(t) => Some(t.clone()),
                None => req.prepared_id.as_ref().and_then(|id| shared.sys_prepared.lock().unwrap().get(id).cloned()),
            };
            log_in_simple(
                shared,
                c,
                &f,
                "system",
                vec![("query", json!(text)), ("page_size", json!(req.page_size)), ("paging_state", json!(req.paging_state.as_deref().map(wire::hex))), ("skip_metadata", json!(req.skip_metadata))],
            );
            let reply = {
                let cfg = shared.cfg.read().unwrap();
                system::answer_rows(&cfg, c.node, &q, &req)
            };
            let ctx = ReqCtx { stream: f.stream, kind: "system" };
            let d = SYS_DELAY_MS.load(Ordering::SeqCst);
            if d > 0 {
                tokio::time::sleep(std::time::Duration::from_millis(d)).await;
            }
            write_reply(shared, stream, c, ctx, None, &reply).await.err()
        }
    }
}

async fn conn_task(shared: Arc<Shared>, mut stream: TcpStream, mut c: Conn, mut rx: mpsc::UnboundedReceiver<Cmd>, tx: mpsc::UnboundedSender<Cmd>) {
    let mut buf = BytesMut::with_capacity(16 * 1024);
    let reason: String = 'outer: loop {
        loop {
            match wire::try_take_frame(&mut buf) {
                Ok(Some(f)) => {
                    if let Some(end) = handle_frame(&shared, &mut stream, &mut c, &tx, f).await {
                        break 'outer end;
                    }
                }
                Ok(None) => break,
                Err(e) => {
                    let ctx = ReqCtx { stream: 0, kind: "handshake" };
                    let _ = write_error(&shared, &mut stream, &mut c, ctx, wire::ERR_PROTOCOL, e).await;
                    let _ = stream.shutdown().await;
                    break 'outer "protocol".into();
                }
            }
        }
        tokio::select! {
            r = stream.read_buf(&mut buf) => match r {
                Ok(0) => break "peer_eof".into(),
                Ok(_) => {}
                Err(e) => break format!("io_error: {e}"),
            },
            cmd = rx.recv() => match cmd {
                Some(Cmd::Perform(ctx, action)) => {
                    if let Some(end) = perform(&shared, &mut stream, &mut c, &tx, ctx, action).await {
                        break end;
                    }
                }
                Some(Cmd::Event { kind, body }) => {
                    let ctx = ReqCtx { stream: -1, kind: "system" };
                    if let Err(e) = write_frame(&shared, &mut stream, &c, ctx, 0, wire::OP_EVENT, &body, &[("event", json!(kind))]).await {
                        break e;
                    }
                }
                Some(Cmd::Kill { rst, reason }) => {
                    if rst {
                        let _ = stream.set_zero_linger();
                    } else {
                        let _ = stream.shutdown().await;
                    }
                    break reason.into();
                }
                None => break "dropped".into(),
            }
        }
    };
    shared.conns.lock().unwrap().remove(&c.id);
    shared.log_with(|seq| json!({"seq": seq, "ev": "close", "node": c.node, "conn": c.id, "src_port": c.src_port, "shard": c.shard, "reason": reason}));
    drop(stream);
}

async fn accept_loop(shared: Arc<Shared>, listener: TcpListener, node: usize, shard_aware: bool) {
    let local_port = listener.local_addr().map(|a| a.port()).unwrap_or(0);
    let rt = shared.node_rt(node);
    loop {
        let (stream, peer) = match listener.accept().await {
            Ok(x) => x,
            Err(_) => {
                tokio::time::sleep(Duration::from_millis(5)).await;
                continue;
            }
        };
        if REFUSE_NODE.load(Ordering::SeqCst) == node as i32 {
            drop(stream);
            continue;
        }
        let _ = stream.set_nodelay(true);
        let nr_shards = shared.cfg.read().unwrap().nodes.get(node).and_then(|n| n.nr_shards).filter(|n| *n > 0);
        let shard = nr_shards.map(|nr| if shard_aware { (peer.port().wrapping_add(SHARD_SKEW.load(Ordering::SeqCst))) % nr } else { (rt.rr.fetch_add(1, Ordering::SeqCst) % nr as u32) as u16 });
        let id = shared.next_conn.fetch_add(1, Ordering::SeqCst);
        let (tx, rx) = mpsc::unbounded_channel();
        let registered = Arc::new(Mutex::new(Vec::new()));
        let c = Conn { id, node, shard, src_port: peer.port(), local_port, ks: None, neg: Negotiated::default(), registered: registered.clone() };
        shared.log_with(|seq| json!({"seq": seq, "ev": "accept", "node": node, "conn": id, "src_port": peer.port(), "shard": shard, "port": local_port}));
        shared.conns.lock().unwrap().insert(id, ConnHandle { node, shard, src_port: peer.port(), tx: tx.clone(), registered, join: None });
        let join = tokio::spawn(conn_task(shared.clone(), stream, c, rx, tx));
        if let Some(h) = shared.conns.lock().unwrap().get_mut(&id) {
            h.join = Some(join);
        }
    }
}

// ---------------------------------------------------------------------------------------------
// Public cluster handle
// ---------------------------------------------------------------------------------------------

pub struct MockCluster {
    shared: Arc<Shared>,
}

impl MockCluster {
    /// Binds one listener per node on `ip:port` (and `ip:shard_aware_port` for sharded nodes) and
    /// spawns the server tasks on the current tokio runtime. Panics if a listener cannot be bound
    /// (use `try_start` to get the error instead).
    pub async fn start(cfg: MockConfig, handler: Handler) -> MockCluster {
        match Self::try_start(cfg, handler).await {
            Ok(c) => c,
            Err(e) => panic!("MockCluster::start: {e}"),
        }
    }

    pub async fn try_start(cfg: MockConfig, handler: Handler) -> std::io::Result<MockCluster> {
        let n = cfg.nodes.len();
        let shared = Arc::new(Shared {
            cfg: RwLock::new(cfg),
            handler: RwLock::new(handler),
            log: Mutex::new(LogState { next_seq: 0, entries: Vec::new() }),
            conns: Mutex::new(HashMap::new()),
            next_conn: AtomicU64::new(0),
            sys_prepared: Mutex::new(HashMap::new()),
            nodes: Mutex::new(Vec::new()),
            intercept_use: AtomicBool::new(false),
        });
        let cluster = MockCluster { shared };
        for i in 0..n {
            if let Err(e) = cluster.try_start_node(i).await {
                cluster.shutdown().await;
                return Err(e);
            }
        }
        Ok(cluster)
    }

    /// The whole log so far (frames and accept/close events), in seq order.
    pub fn log(&self) -> Vec<Value> {
        self.shared.log.lock().unwrap().entries.clone()
    }

    /// Forgets the log entries; seq keeps increasing.
    pub fn clear_log(&self) {
        self.shared.log.lock().unwrap().entries.clear();
    }

    pub fn set_handler(&self, h: Handler) {
        *self.shared.handler.write().unwrap() = h;
    }

    /// `ip:port` of node `i`'s native port.
    pub fn contact_point(&self, i: usize) -> String {
        let cfg = self.shared.cfg.read().unwrap();
        SocketAddr::new(node_addr(i, cfg.nodes[i].ip), cfg.port).to_string()
    }

    /// Replaces the topology/schema answered from now on. Listeners are not touched: use
    /// `start_node` / `stop_node` for nodes that appear / disappear.
    pub fn set_config(&self, cfg: MockConfig) {
        *self.shared.cfg.write().unwrap() = cfg;
    }

    pub fn config(&self) -> MockConfig {
        self.shared.cfg.read().unwrap().clone()
    }

    /// When true, `USE <ks>` QUERYs are handed to the handler as user requests instead of being
    /// answered by the mock (the keyspace is remembered iff the handler answers SetKeyspace).
    pub fn set_intercept_use(&self, on: bool) {
        self.shared.intercept_use.store(on, Ordering::SeqCst);
    }

    /// Sends an EVENT frame to every connection that REGISTERed for `kind`; returns how many.
    /// `change`: NEW_NODE|REMOVED_NODE, UP|DOWN, or for SCHEMA_CHANGE
    /// `"<CREATED|UPDATED|DROPPED> <KEYSPACE|TABLE|TYPE|...> <ks> [<name>]"`.
    pub fn send_event(&self, kind: &str, change: &str, addr: SocketAddr) -> usize {
        let default_ks = self.shared.cfg.read().unwrap().keyspaces.first().map(|k| k.name.clone()).unwrap_or_default();
        let body = wire::encode_event_body(kind, change, addr, &default_ks);
        let g = self.shared.conns.lock().unwrap();
        let mut n = 0;
        for h in g.values() {
            if h.registered.lock().unwrap().iter().any(|t| t == kind) && h.tx.send(Cmd::Event { kind: kind.to_string(), body: body.clone() }).is_ok() {
                n += 1;
            }
        }
        n
    }

    /// Closes (FIN, or RST when `rst`) the connections of `node` selected by `pred(conn_id, shard)`.
    /// The connections leave `open_connection_count` immediately; the sockets are closed as soon as
    /// their tasks run.
    pub fn kill_connections(&self, node: usize, pred: &dyn Fn(u64, Option<u16>) -> bool, rst: bool) -> usize {
        self.kill_matching(node, pred, rst, if rst { "killed_rst" } else { "killed_fin" }).len()
    }

    fn kill_matching(&self, node: usize, pred: &dyn Fn(u64, Option<u16>) -> bool, rst: bool, reason: &'static str) -> Vec<JoinHandle<()>> {
        let mut g = self.shared.conns.lock().unwrap();
        let ids: Vec<u64> = g.iter().filter(|(id, h)| h.node == node && pred(**id, h.shard)).map(|(id, _)| *id).collect();
        let mut joins = Vec::new();
        for id in ids {
            if let Some(h) = g.remove(&id) {
                let _ = h.tx.send(Cmd::Kill { rst, reason });
                if let Some(j) = h.join {
                    joins.push(j);
                }
            }
        }
        joins
    }

    /// Closes node `i`'s listeners and connections; returns once the sockets are closed.
    pub async fn stop_node(&self, i: usize) {
        let rt = self.shared.node_rt(i);
        rt.running.store(false, Ordering::SeqCst);
        let listeners: Vec<JoinHandle<()>> = std::mem::take(&mut *rt.listeners.lock().unwrap());
        for l in &listeners {
            l.abort();
        }
        for l in listeners {
            let _ = l.await;
        }
        for j in self.kill_matching(i, &|_, _| true, false, "node_stopped") {
            let _ = j.await;
        }
    }

    /// (Re)binds node `i`'s listeners from the current config. Panics if binding fails.
    pub async fn start_node(&self, i: usize) {
        if let Err(e) = self.try_start_node(i).await {
            panic!("MockCluster::start_node({i}): {e}");
        }
    }

    pub async fn try_start_node(&self, i: usize) -> std::io::Result<()> {
        let rt = self.shared.node_rt(i);
        if rt.running.load(Ordering::SeqCst) {
            return Ok(());
        }
        let (ip, port, sa_port) = {
            let cfg = self.shared.cfg.read().unwrap();
            let n = cfg.nodes.get(i).ok_or_else(|| std::io::Error::other(format!("no node {i} in the config")))?;
            (node_addr(i, n.ip), cfg.port, if n.nr_shards.is_some() { cfg.shard_aware_port } else { None })
        };
        let bind = |p: u16| async move {
            TcpListener::bind(SocketAddr::from((ip, p))).await.map_err(|e| std::io::Error::new(e.kind(), format!("bind {ip}:{p}: {e}")))
        };
        let main = bind(port).await?;
        let sa = match sa_port {
            Some(p) => Some(bind(p).await?),
            None => None,
        };
        let mut handles = vec![tokio::spawn(accept_loop(self.shared.clone(), main, i, false))];
        if let Some(l) = sa {
            handles.push(tokio::spawn(accept_loop(self.shared.clone(), l, i, true)));
        }
        *rt.listeners.lock().unwrap() = handles;
        rt.running.store(true, Ordering::SeqCst);
        Ok(())
    }

    pub fn is_node_running(&self, i: usize) -> bool {
        self.shared.node_rt(i).running.load(Ordering::SeqCst)
    }

    pub fn open_connection_count(&self, node: usize) -> usize {
        self.shared.conns.lock().unwrap().values().filter(|h| h.node == node).count()
    }

    /// (conn_id, shard, src_port) of node's open connections, sorted by conn_id.
    pub fn open_connections(&self, node: usize) -> Vec<(u64, Option<u16>, u16)> {
        let mut v: Vec<_> = self.shared.conns.lock().unwrap().iter().filter(|(_, h)| h.node == node).map(|(id, h)| (*id, h.shard, h.src_port)).collect();
        v.sort();
        v
    }

    /// Stops every node.
    pub async fn shutdown(&self) {
        let n = self.shared.nodes.lock().unwrap().len();
        for i in 0..n {
            self.stop_node(i).await;
        }
    }
}

impl Drop for MockCluster {
    fn drop(&mut self) {
        // Best effort for callers that forgot `shutdown().await`.
        for rt in self.shared.nodes.lock().unwrap().iter() {
            for l in rt.listeners.lock().unwrap().drain(..) {
                l.abort();
            }
            rt.running.store(false, Ordering::SeqCst);
        }
        for (_, h) in self.shared.conns.lock().unwrap().drain() {
            let _ = h.tx.send(Cmd::Kill { rst: false, reason: "shutdown" });
        }
    }
}
