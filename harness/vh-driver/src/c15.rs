//! C15: tablet map — walks the tree of insert/maintenance histories on the real ClusterState /
//! TabletsInfo (through ClusterState::new_updated, update_tablets and the real payload parser)
//! and records ranges + lookups after every step.

use rand::{Rng, SeedableRng};
use scylla::cluster::ClusterState;
use scylla::cluster::metadata::Strategy;
use scylla::verif::cluster::{VKeyspace, VPeer, add_tablet_payload, build, rebuild, tablet_lookup, tablet_ranges};
use serde_json::{Value, json};
use std::collections::{BTreeMap, BTreeSet};
use std::io::Write;
use uuid::Uuid;

const KS: &str = "ks";
const TABLE: &str = "t";
const DCS: [&str; 4] = ["dc1", "dc2", "dc3", "nodc"];

fn node_uuid(n: u64) -> Uuid {
    Uuid::from_u128(0x1000 + n as u128)
}
fn node_of(u: Uuid) -> u64 {
    (u.as_u128() - 0x1000) as u64
}

#[derive(Clone)]
struct World {
    state: ClusterState,
}

fn peers(known: &BTreeSet<u64>, dc: &BTreeMap<u64, String>) -> Vec<VPeer> {
    known
        .iter()
        .map(|n| VPeer {
            host_id: node_uuid(*n),
            addr: format!("10.0.0.{}:9042", n).parse().unwrap(),
            dc: dc.get(n).cloned(),
            rack: Some("r1".to_string()),
            tokens: vec![*n as i64 * 1000],
        })
        .collect()
}

fn keyspaces() -> Vec<VKeyspace> {
    vec![VKeyspace {
        name: KS.to_string(),
        strategy: Strategy::SimpleStrategy { replication_factor: 1 },
        tablet_based: true,
        tables: vec![TABLE.to_string()],
    }]
}

/// CQL encoding of the tablets-routing-v1 payload: tuple<bigint, bigint, list<tuple<uuid, int>>>
fn payload(first: i64, last: i64, reps: &[(u64, i32)]) -> Vec<u8> {
    let mut b = Vec::new();
    b.extend_from_slice(&8i32.to_be_bytes());
    b.extend_from_slice(&first.to_be_bytes());
    b.extend_from_slice(&8i32.to_be_bytes());
    b.extend_from_slice(&last.to_be_bytes());
    let mut list = Vec::new();
    list.extend_from_slice(&(reps.len() as i32).to_be_bytes());
    for (n, shard) in reps {
        let mut tup = Vec::new();
        tup.extend_from_slice(&16i32.to_be_bytes());
        tup.extend_from_slice(node_uuid(*n).as_bytes());
        tup.extend_from_slice(&4i32.to_be_bytes());
        tup.extend_from_slice(&shard.to_be_bytes());
        list.extend_from_slice(&(tup.len() as i32).to_be_bytes());
        list.extend_from_slice(&tup);
    }
    b.extend_from_slice(&(list.len() as i32).to_be_bytes());
    b.extend_from_slice(&list);
    b
}

/// position of a real token relative to the sorted universe `u`:
/// 2*rank if it is a universe token, else 2*(#universe tokens below)+1
fn pos(u: &[i64], x: i64) -> i64 {
    match u.binary_search(&x) {
        Ok(i) => 2 * (i as i64 + 1),
        Err(i) => 2 * i as i64 + 1,
    }
}

fn probes(u: &[i64]) -> Vec<i64> {
    let mut p = BTreeSet::new();
    for &t in u {
        p.insert(t);
        if let Some(x) = t.checked_sub(1) {
            // i64::MIN is not a token (Token::new maps it to MAX)
            if x != i64::MIN {
                p.insert(x);
            }
        }
        if let Some(x) = t.checked_add(1) {
            p.insert(x);
        }
    }
    p.insert(i64::MAX);
    p.insert(0);
    p.into_iter().collect()
}

fn observe(w: &World, u: &[i64]) -> Value {
    let ranges: Vec<Value> = tablet_ranges(&w.state, KS, TABLE)
        .unwrap_or_default()
        .into_iter()
        .map(|(f, l)| json!([pos(u, f), pos(u, l)]))
        .collect();
    let mut look = Vec::new();
    let mut seen = BTreeSet::new();
    for t in probes(u) {
        let p = pos(u, t);
        // several real probes may share an odd position: keep all (they must all agree with the spec)
        let all = tablet_lookup(&w.state, KS, TABLE, t, None);
        let fmt = |v: &Option<Vec<(Uuid, Option<String>, u32)>>| -> Value {
            match v {
                None => json!({"hit":0,"reps":[]}),
                Some(v) => json!({"hit":1,"reps": v.iter().map(|(id, dc, s)| json!([node_of(*id), dc.clone().unwrap_or_default(), s])).collect::<Vec<_>>()}),
            }
        };
        let dcs: Vec<Value> = DCS
            .iter()
            .map(|d| {
                let r = tablet_lookup(&w.state, KS, TABLE, t, Some(d));
                json!({"dc": d, "ans": fmt(&r)})
            })
            .collect();
        let entry = json!({"p": p, "all": fmt(&all), "dcs": dcs});
        let key = entry.to_string();
        if seen.insert(key) {
            look.push(entry);
        }
    }
    json!({"ev":"Obs","ranges":ranges,"look":look})
}

struct Walker<'a> {
    rt: &'a tokio::runtime::Runtime,
    u: Vec<i64>,
    ins: Vec<Value>,
    maint: Vec<Value>,
    bad: Vec<(i64, i64)>,
    out: &'a mut dyn Write,
    nodes_visited: usize,
    panics: usize,
}

fn parse_reps(v: &Value) -> Vec<(u64, i32)> {
    v.as_array()
        .unwrap()
        .iter()
        .map(|r| (r[0].as_u64().unwrap(), r[1].as_i64().unwrap() as i32))
        .collect()
}

impl<'a> Walker<'a> {
    fn apply_ins(&self, w: &mut World, pf: i64, pl: i64, reps: &[(u64, i32)]) -> Value {
        let r = add_tablet_payload(&mut w.state, KS, TABLE, &payload(pf, pl, reps));
        json!({"ev":"Ins","pf":pos(&self.u, pf),"f":pos(&self.u, pf.wrapping_add(1)),"l":pos(&self.u, pl),
               "reps": reps.iter().map(|(n,s)| json!([n,s])).collect::<Vec<_>>(), "ok": if r.is_ok() {1} else {0}})
    }

    fn apply_maint(&self, w: &mut World, m: &Value) -> Value {
        let known: BTreeSet<u64> = m["known"].as_array().unwrap().iter().map(|x| x.as_u64().unwrap()).collect();
        let mut dc = BTreeMap::new();
        // TLC serialises a function with domain 1..n as a JSON array
        match &m["dc"] {
            Value::Array(a) => {
                for (i, d) in a.iter().enumerate() {
                    dc.insert(i as u64 + 1, d.as_str().unwrap().to_string());
                }
            }
            Value::Object(o) => {
                for (k, d) in o {
                    dc.insert(k.parse().unwrap(), d.as_str().unwrap().to_string());
                }
            }
            _ => {}
        }
        let new = self.rt.block_on(rebuild(&w.state, peers(&known, &dc), keyspaces()));
        w.state = new;
        json!({"ev":"Maint","known": known.iter().collect::<Vec<_>>(),
               "dc": known.iter().map(|n| json!([n, dc.get(n).cloned().unwrap_or_default()])).collect::<Vec<_>>()})
    }

    fn step(&mut self, w: &World, depth: usize, top: Option<(usize, usize)>) {
        if depth == 0 {
            return;
        }
        let ins = self.ins.clone();
        let maint = self.maint.clone();
        let bad = self.bad.clone();
        let mut idx = 0usize;
        let mut mine = |idx: &mut usize| -> bool {
            let r = match top {
                Some((chunk, n)) => *idx % n == chunk,
                None => true,
            };
            *idx += 1;
            r
        };
        for op in ins.iter() {
            let f = op["f"].as_i64().unwrap();
            let l = op["l"].as_i64().unwrap();
            if f > l {
                continue;
            }
            if !mine(&mut idx) {
                continue;
            }
            let tf = self.u[(f / 2 - 1) as usize];
            let tl = self.u[(l / 2 - 1) as usize];
            let reps = parse_reps(&op["reps"]);
            let mut w2 = w.clone();
            let r = std::panic::catch_unwind(std::panic::AssertUnwindSafe(|| {
                let ev = self.apply_ins(&mut w2, tf - 1, tl, &reps);
                let obs = observe(&w2, &self.u);
                (ev, obs)
            }));
            self.emit_and_recurse(r, w2, depth, json!({"ins": op}));
        }
        for (pf, pl) in bad.iter() {
            if !mine(&mut idx) {
                continue;
            }
            let mut w2 = w.clone();
            let r = std::panic::catch_unwind(std::panic::AssertUnwindSafe(|| {
                let ev = self.apply_ins(&mut w2, *pf, *pl, &[(1, 0)]);
                let obs = observe(&w2, &self.u);
                (ev, obs)
            }));
            // no recursion below rejected payloads (state must be unchanged; the judge checks that)
            self.emit_and_recurse(r, w2, 1, json!({"bad_payload": [pf, pl]}));
        }
        for m in maint.iter() {
            if !mine(&mut idx) {
                continue;
            }
            let mut w2 = w.clone();
            let r = std::panic::catch_unwind(std::panic::AssertUnwindSafe(|| {
                let ev = self.apply_maint(&mut w2, m);
                let obs = observe(&w2, &self.u);
                (ev, obs)
            }));
            self.emit_and_recurse(r, w2, depth, json!({"maint": m}));
        }
    }

    fn emit_and_recurse(&mut self, r: std::thread::Result<(Value, Value)>, w2: World, depth: usize, op: Value) {
        self.nodes_visited += 1;
        match r {
            Ok((ev, obs)) => {
                writeln!(self.out, "{}", ev).unwrap();
                writeln!(self.out, "{}", obs).unwrap();
                self.step(&w2, depth - 1, None);
            }
            Err(_) => {
                self.panics += 1;
                writeln!(self.out, "{}", json!({"ev":"Panic","op":op,"msg":crate::last_panic()})).unwrap();
            }
        }
        writeln!(self.out, "{}", json!({"ev":"Pop"})).unwrap();
    }
}

fn init_world(rt: &tokio::runtime::Runtime, known: &BTreeSet<u64>, dc: &BTreeMap<u64, String>) -> World {
    let state = rt.block_on(build(peers(known, dc), keyspaces()));
    World { state }
}

/// `c15 walk <config.json> <out.ndjson>`; config: {tokens:[str..], ins:[..], maint:[..], depth, init_known, init_dc, first_ops: optional subset indices}
pub fn cmd_walk(args: &[String]) -> i32 {
    let cfg: Value = serde_json::from_str(&std::fs::read_to_string(&args[0]).unwrap()).unwrap();
    let mut out = std::io::BufWriter::new(std::fs::File::create(&args[1]).unwrap());
    let rt = tokio::runtime::Builder::new_current_thread().enable_all().build().unwrap();
    let u: Vec<i64> = cfg["tokens"].as_array().unwrap().iter().map(|s| s.as_str().unwrap().parse().unwrap()).collect();
    let known: BTreeSet<u64> = cfg["init_known"].as_array().unwrap().iter().map(|x| x.as_u64().unwrap()).collect();
    let mut dc = BTreeMap::new();
    for (i, d) in cfg["init_dc"].as_array().unwrap().iter().enumerate() {
        dc.insert(i as u64 + 1, d.as_str().unwrap().to_string());
    }
    let depth = cfg["depth"].as_u64().unwrap() as usize;
    let w = init_world(&rt, &known, &dc);
    // chunking: the first operation is restricted to indices i with i % nchunks == chunk
    let chunk = cfg["chunk"].as_u64().unwrap_or(0) as usize;
    let nchunks = cfg["nchunks"].as_u64().unwrap_or(1) as usize;
    let all_ins: Vec<Value> = cfg["ins"].as_array().unwrap().clone();
    let all_maint: Vec<Value> = cfg["maint"].as_array().unwrap().clone();
    let bad: Vec<(i64, i64)> = vec![(u[1], u[1]), (u[1], u[0]), (i64::MAX, i64::MAX), (u[0], u[0] - 1)];
    writeln!(out, "{}", json!({"ev":"Init","known": known.iter().collect::<Vec<_>>(),
        "dc": known.iter().map(|n| json!([n, dc.get(n).cloned().unwrap_or_default()])).collect::<Vec<_>>()})).unwrap();
    writeln!(out, "{}", observe(&w, &u)).unwrap();
    let mut walker = Walker { rt: &rt, u: u.clone(), ins: all_ins, maint: all_maint, bad, out: &mut out, nodes_visited: 0, panics: 0 };
    walker.step(&w, depth, Some((chunk, nchunks)));
    let (n, p) = (walker.nodes_visited, walker.panics);
    writeln!(out, "{}", json!({"ev":"Reset"})).unwrap();
    out.flush().unwrap();
    println!("{}", json!({"nodes":n,"panics":p}));
    0
}

/// `c15 random <histories> <len> <seed> <out.ndjson>` — long random histories over the whole i64 range
pub fn cmd_random(args: &[String]) -> i32 {
    let n: usize = args[0].parse().unwrap();
    let len: usize = args[1].parse().unwrap();
    let seed: u64 = args[2].parse().unwrap();
    let mut out = std::io::BufWriter::new(std::fs::File::create(&args[3]).unwrap());
    let rt = tokio::runtime::Builder::new_current_thread().enable_all().build().unwrap();
    let mut rng = rand::rngs::StdRng::seed_from_u64(seed);
    let mut panics = 0;
    for _ in 0..n {
        // pick a pool of endpoints, including extremes and adjacent values
        let mut pool: BTreeSet<i64> = BTreeSet::new();
        pool.insert(i64::MIN + 1);
        pool.insert(i64::MAX);
        let k = rng.random_range(3..10);
        while pool.len() < k {
            let x: i64 = match rng.random_range(0..4) {
                0 => rng.random(),
                1 => rng.random_range(-20..20),
                2 => i64::MAX - rng.random_range(0..5),
                _ => i64::MIN + 1 + rng.random_range(0..5),
            };
            pool.insert(x);
            if rng.random_bool(0.3) && x < i64::MAX {
                pool.insert(x + 1);
            }
        }
        let u: Vec<i64> = pool.into_iter().collect();
        let mut known: BTreeSet<u64> = [1u64, 2].into_iter().collect();
        let mut dc: BTreeMap<u64, String> = BTreeMap::new();
        dc.insert(1, "dc1".into());
        dc.insert(2, "dc2".into());
        dc.insert(3, "dc1".into());
        dc.insert(4, "dc3".into());
        let mut w = init_world(&rt, &known, &dc);
        writeln!(out, "{}", json!({"ev":"Init","known": known.iter().collect::<Vec<_>>(),
            "dc": known.iter().map(|n| json!([n, dc.get(n).cloned().unwrap_or_default()])).collect::<Vec<_>>()})).unwrap();
        writeln!(out, "{}", observe(&w, &u)).unwrap();
        let dummy_rt = &rt;
        let mut sink: Vec<u8> = Vec::new();
        let walker = Walker { rt: dummy_rt, u: u.clone(), ins: vec![], maint: vec![], bad: vec![], out: &mut sink, nodes_visited: 0, panics: 0 };
        for _ in 0..len {
            let r = std::panic::catch_unwind(std::panic::AssertUnwindSafe(|| {
                if rng.random_bool(0.8) {
                    let a = u[rng.random_range(0..u.len())];
                    let b = u[rng.random_range(0..u.len())];
                    let (tf, tl) = if rng.random_bool(0.9) { (a.min(b), a.max(b)) } else { (a, b) };
                    let nrep = rng.random_range(1..4);
                    let reps: Vec<(u64, i32)> = (0..nrep).map(|_| (rng.random_range(1..5), rng.random_range(0..4))).collect();
                    let pf = if rng.random_bool(0.9) { tf.wrapping_sub(1) } else { tf };
                    walker.apply_ins(&mut w, pf, tl, &reps)
                } else {
                    // topology change
                    let mut nk = known.clone();
                    let n = rng.random_range(1..5u64);
                    if nk.contains(&n) && nk.len() > 1 && rng.random_bool(0.5) {
                        nk.remove(&n);
                    } else {
                        nk.insert(n);
                    }
                    if rng.random_bool(0.4) {
                        let m = rng.random_range(1..5u64);
                        dc.insert(m, DCS[rng.random_range(0..3)].to_string());
                    }
                    known = nk.clone();
                    let m = json!({"known": nk.iter().collect::<Vec<_>>(), "dc": dc.iter().map(|(k, v)| (k.to_string(), json!(v))).collect::<serde_json::Map<_, _>>()});
                    walker.apply_maint(&mut w, &m)
                }
            }));
            match r {
                Ok(ev) => {
                    writeln!(out, "{}", ev).unwrap();
                    writeln!(out, "{}", observe(&w, &u)).unwrap();
                }
                Err(_) => {
                    panics += 1;
                    writeln!(out, "{}", json!({"ev":"Panic","msg":crate::last_panic()})).unwrap();
                    break;
                }
            }
        }
        writeln!(out, "{}", json!({"ev":"Reset"})).unwrap();
    }
    out.flush().unwrap();
    println!("{}", json!({"histories":n,"panics":panics}));
    0
}
