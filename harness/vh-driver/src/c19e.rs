//! `vh-driver c19 refresh <out.ndjson> <rounds> <callers>`: the user-visible end of property C19 - "a metadata refresh that
//! was requested is eventually answered" - on a real Session. In every round a node joins whose native port accepts
//! connections, says nothing and closes them after 300 ms (a listener held by this harness), so that publishing the fetched topology (the consumer
//! side of the hand-off waits for the new node's pool to finish its first connection attempt) takes much longer than fetching
//! it: refresh requests issued together pile up, their fetched updates are merged into a still pending value, and one value
//! taken by the consumer carries several requesters to answer.
//! One record per round: what every caller's `Session::refresh_metadata()` returned (ok / err / panic / timeout) and, from
//! the hand-off's own trace hooks, how many producer merges found a value still pending.
use std::io::Write;
use std::net::Ipv4Addr;
use std::sync::Arc;
use std::sync::atomic::{AtomicU64, Ordering};
use std::time::{Duration, Instant};

use serde_json::{Value, json};

use crate::mock::{Action, MockCluster, MockColumn, MockConfig, MockKeyspace, MockNodeCfg, MockTable, Reply, Request};

const PORT: u16 = 19419;
const NODES: usize = 6;
const VNODES: i64 = 96;
const STALL_MS: u64 = 300;

fn mock_config() -> MockConfig {
    let nodes = (0..NODES)
        .map(|i| MockNodeCfg {
            ip: Ipv4Addr::new(127, 0, 19, 1 + i as u8),
            host_id: uuid::Uuid::from_u128((0xC19u128 << 64) | (i as u128 + 1)),
            dc: if i % 2 == 0 { "dc1".into() } else { "dc2".into() },
            rack: format!("r{}", i % 3),
            tokens: {
                let total = VNODES * NODES as i64;
                let step = i64::MAX / (total / 2 + 1);
                (0..VNODES).map(|k| (k * NODES as i64 + i as i64 - total / 2) * step).collect()
            },
            nr_shards: None,
            msb_ignore: 0,
            metadata_id_ext: false,
            tablets_ext: false,
            lwt_mark: false,
        })
        .collect();
    let keyspaces = (0..8)
        .map(|k| MockKeyspace {
            name: format!("ks{k}"),
            replication: vec![
                ("class".into(), "org.apache.cassandra.locator.NetworkTopologyStrategy".into()),
                ("dc1".into(), (1 + k % 3).to_string()),
                ("dc2".into(), (1 + k / 3).to_string()),
            ],
            tablets: false,
            tables: vec![MockTable {
                name: "t".into(),
                columns: vec![MockColumn { name: "pk".into(), kind: "partition_key".into(), position: 0, typ: "int".into() }],
                partitioner: Some("org.apache.cassandra.dht.Murmur3Partitioner".into()),
            }],
        })
        .collect();
    MockConfig { port: PORT, shard_aware_port: None, nodes, keyspaces, system_page_size_override: None }
}

pub fn cmd_refresh(args: &[String]) -> i32 {
    if args.len() != 3 {
        eprintln!("usage: vh-driver c19 refresh <out.ndjson> <rounds> <callers>");
        return 2;
    }
    let rounds: usize = args[1].parse().unwrap_or(4);
    let callers: usize = args[2].parse().unwrap_or(6);
    let mut out = std::io::BufWriter::new(std::fs::File::create(&args[0]).expect("out"));
    // the hand-off's trace hooks: a producer merge that found a value pending / a value taken by the consumer
    let merges = Arc::new(AtomicU64::new(0));
    let taken = Arc::new(AtomicU64::new(0));
    let (m2, m3) = (merges.clone(), taken.clone());
    let sink: Arc<scylla::verif::trace::Sink> = Arc::new(move |ev: &scylla::verif::trace::Event<'_>| {
        if ev.src != "merge" {
            return;
        }
        let field = |n: &str| ev.fields.iter().find(|(k, _)| *k == n).map(|(_, v)| *v);
        match ev.name {
            "ModLocked" => {
                m2.fetch_add(1, Ordering::SeqCst);
            }
            "RcvTake" if field("some") == Some(1) => {
                m3.fetch_add(1, Ordering::SeqCst);
            }
            _ => {}
        }
    });
    scylla::verif::trace::install_global(Some(sink));
    let rt = tokio::runtime::Builder::new_multi_thread().worker_threads(4).enable_all().build().expect("runtime");
    let rc = rt.block_on(async {
        use scylla::client::session_builder::SessionBuilder;
        let handler: crate::mock::Handler = Arc::new(|_req: &Request| Action::Reply(Reply::Void));
        let t0 = Instant::now();
        let mock = loop {
            match MockCluster::try_start(mock_config(), handler.clone()).await {
                Ok(m) => break m,
                Err(_) if t0.elapsed() < Duration::from_secs(3) => tokio::time::sleep(Duration::from_millis(50)).await,
                Err(e) => {
                    eprintln!("mock start: {e}");
                    return 2;
                }
            }
        };
        // the last node: its listener is replaced by one that accepts, stays silent and closes after a while
        mock.stop_node(NODES - 1).await;
        let silent = {
            let t0 = Instant::now();
            loop {
                match tokio::net::TcpListener::bind((Ipv4Addr::new(127, 0, 19, NODES as u8), PORT)).await {
                    Ok(l) => break l,
                    Err(_) if t0.elapsed() < Duration::from_secs(3) => tokio::time::sleep(Duration::from_millis(50)).await,
                    Err(e) => {
                        eprintln!("silent listener: {e}");
                        mock.shutdown().await;
                        return 2;
                    }
                }
            }
        };
        let silent_task = tokio::spawn(async move {
            // every connection is held for a while without a word, then closed
            loop {
                if let Ok((s, _)) = silent.accept().await {
                    tokio::spawn(async move {
                        tokio::time::sleep(Duration::from_millis(STALL_MS)).await;
                        drop(s);
                    });
                }
            }
        });
        crate::mock::HIDDEN_NODES.store(1 << (NODES - 1), Ordering::SeqCst);
        let session = match SessionBuilder::new()
            .known_node(mock.contact_point(0))
            .connection_timeout(Duration::from_millis(600))
            .cluster_metadata_refresh_interval(Duration::from_secs(3600))
            .build()
            .await
        {
            Ok(s) => Arc::new(s),
            Err(e) => {
                eprintln!("session: {e}");
                mock.shutdown().await;
                return 2;
            }
        };
        for round in 0..rounds {
            // the node leaves (one refresh, on its own) ...
            crate::mock::HIDDEN_NODES.store(1 << (NODES - 1), Ordering::SeqCst);
            let left = tokio::time::timeout(Duration::from_secs(20), session.refresh_metadata()).await.map(|r| r.is_ok()).unwrap_or(false);
            // ... and joins again while `callers` refreshes are requested together
            crate::mock::HIDDEN_NODES.store(0, Ordering::SeqCst);
            let (mg0, tk0) = (merges.load(Ordering::SeqCst), taken.load(Ordering::SeqCst));
            let mut tasks = Vec::new();
            for _ in 0..callers {
                let s = session.clone();
                tasks.push(tokio::spawn(async move { tokio::time::timeout(Duration::from_secs(20), s.refresh_metadata()).await }));
            }
            let mut answers: Vec<Value> = Vec::new();
            for t in tasks {
                answers.push(match t.await {
                    Ok(Ok(Ok(()))) => json!("ok"),
                    Ok(Ok(Err(e))) => json!(format!("err: {}", e.to_string().chars().take(120).collect::<String>())),
                    Ok(Err(_)) => json!("timeout"),
                    Err(e) => json!(format!("panic: {}", if e.is_panic() { crate::last_panic() } else { "cancelled".to_string() }.chars().take(160).collect::<String>())),
                });
            }
            // let the consumer drain what is still pending before counting
            tokio::time::sleep(Duration::from_millis(150)).await;
            let (mg, tk) = (merges.load(Ordering::SeqCst) - mg0, taken.load(Ordering::SeqCst) - tk0);
            let nodes = session.get_cluster_state().get_nodes_info().len();
            writeln!(out, "{}", json!({"round": round, "callers": callers, "answers": answers, "merges": mg, "taken": tk, "nodes_known": nodes, "nodes": NODES, "leave_refresh_ok": left as u8})).unwrap();
        }
        drop(session);
        silent_task.abort();
        crate::mock::HIDDEN_NODES.store(0, Ordering::SeqCst);
        mock.shutdown().await;
        0
    });
    scylla::verif::trace::install_global(None);
    out.flush().unwrap();
    rt.shutdown_timeout(Duration::from_secs(2));
    println!("{}", json!({"cmd": "c19-refresh", "rounds": rounds, "callers": callers}));
    rc
}
