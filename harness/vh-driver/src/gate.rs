//! Gate controller: forces a chosen interleaving of code segments on real OS threads.
//!
//! Every thread under control stops at each *gate* (a hook event of the code under test or an
//! operation boundary of the harness). The controller releases exactly one thread at a time and
//! waits until that thread reaches its next stop, parks (an async operation returned Pending) or
//! finishes. Events recorded by the threads are therefore totally ordered.

use serde_json::{Value, json};
use std::sync::atomic::{AtomicBool, Ordering};
use std::sync::{Arc, Condvar, Mutex};
use std::time::{Duration, Instant};

#[derive(Clone, Copy, PartialEq, Eq, Debug)]
pub enum TState {
    Starting,
    AtStop,
    Running,
    Parked,
    Finished,
}

#[derive(Clone, Copy, PartialEq, Eq, Debug)]
pub enum Cmd {
    Step,
    Cancel,
}

struct Inner {
    state: Vec<TState>,
    turn: Option<(usize, Cmd)>,
    trace: Vec<Value>,
    last_label: Vec<String>,
}

pub struct Ctl {
    m: Mutex<Inner>,
    cv: Condvar,
    pub woken: Vec<AtomicBool>,
    /// when false, hook events are recorded but threads do not stop at them (coarse mode)
    pub stop_at_hooks: AtomicBool,
    /// when set, only hook events with these names are stops
    pub stop_labels: Mutex<Option<std::collections::HashSet<String>>>,
}

#[derive(Debug)]
pub struct Stuck;

impl Ctl {
    pub fn new(n: usize) -> Arc<Ctl> {
        Arc::new(Ctl {
            m: Mutex::new(Inner {
                state: vec![TState::Starting; n],
                turn: None,
                trace: Vec::new(),
                last_label: vec![String::new(); n],
            }),
            cv: Condvar::new(),
            woken: (0..n).map(|_| AtomicBool::new(false)).collect(),
            stop_at_hooks: AtomicBool::new(true),
            stop_labels: Mutex::new(None),
        })
    }

    /// Thread side: append an event to the global trace (the caller is the only running thread).
    pub fn record(&self, ev: Value) {
        self.m.lock().unwrap().trace.push(ev);
    }

    /// Thread side: stop here until the controller says go.
    pub fn gate(&self, tid: usize, label: &str) -> Cmd {
        let mut g = self.m.lock().unwrap();
        g.state[tid] = TState::AtStop;
        g.last_label[tid] = label.to_string();
        g.turn = None;
        self.cv.notify_all();
        loop {
            if let Some((t, cmd)) = g.turn {
                if t == tid {
                    g.state[tid] = TState::Running;
                    return cmd;
                }
            }
            g = self.cv.wait(g).unwrap();
        }
    }

    /// Thread side: the async operation returned Pending. Returns the command that resumes us.
    pub fn park(&self, tid: usize) -> Cmd {
        let mut g = self.m.lock().unwrap();
        g.state[tid] = TState::Parked;
        g.last_label[tid] = "parked".to_string();
        g.turn = None;
        self.cv.notify_all();
        loop {
            if let Some((t, cmd)) = g.turn {
                if t == tid {
                    g.state[tid] = TState::Running;
                    return cmd;
                }
            }
            g = self.cv.wait(g).unwrap();
        }
    }

    pub fn finish(&self, tid: usize) {
        let mut g = self.m.lock().unwrap();
        g.state[tid] = TState::Finished;
        g.turn = None;
        self.cv.notify_all();
    }

    /// Controller side: wait until no thread is Starting/Running.
    pub fn wait_quiet(&self) -> Result<(), Stuck> {
        let deadline = Instant::now() + Duration::from_secs(10);
        let mut g = self.m.lock().unwrap();
        loop {
            if g.turn.is_none()
                && g.state.iter().all(|s| !matches!(s, TState::Starting | TState::Running))
            {
                return Ok(());
            }
            let now = Instant::now();
            if now >= deadline {
                return Err(Stuck);
            }
            let (ng, _) = self.cv.wait_timeout(g, deadline - now).unwrap();
            g = ng;
        }
    }

    pub fn state(&self, tid: usize) -> TState {
        self.m.lock().unwrap().state[tid]
    }

    pub fn label(&self, tid: usize) -> String {
        self.m.lock().unwrap().last_label[tid].clone()
    }

    /// Controller side: is the thread able to make a step?
    pub fn runnable(&self, tid: usize) -> bool {
        match self.state(tid) {
            TState::AtStop => true,
            TState::Parked => self.woken[tid].load(Ordering::SeqCst),
            _ => false,
        }
    }

    /// Controller side: let `tid` run one segment.
    pub fn step(&self, tid: usize, cmd: Cmd) -> Result<(), Stuck> {
        {
            let mut g = self.m.lock().unwrap();
            g.turn = Some((tid, cmd));
            g.state[tid] = TState::Running;
            self.cv.notify_all();
        }
        self.wait_quiet()
    }

    pub fn take_trace(&self) -> Vec<Value> {
        std::mem::take(&mut self.m.lock().unwrap().trace)
    }
}

/// Installs a thread-local trace sink that records each hook event and stops at it.
pub fn install_sink(ctl: Arc<Ctl>, tid: usize) {
    let sink: Arc<scylla::verif::trace::Sink> = Arc::new(move |ev: &scylla::verif::trace::Event<'_>| {
        let mut o = serde_json::Map::new();
        o.insert("src".into(), json!(ev.src));
        o.insert("ev".into(), json!(ev.name));
        o.insert("t".into(), json!(tid));
        for (k, v) in ev.fields {
            o.insert((*k).into(), json!(v));
        }
        ctl.record(Value::Object(o));
        if ctl.stop_at_hooks.load(Ordering::Relaxed) {
            let stop = match &*ctl.stop_labels.lock().unwrap() {
                Some(set) => set.contains(ev.name),
                None => true,
            };
            if stop {
                ctl.gate(tid, ev.name);
            }
        }
    });
    scylla::verif::trace::install_local(Some(sink));
}

pub fn uninstall_sink() {
    scylla::verif::trace::install_local(None);
}

pub struct FlagWaker {
    pub ctl: Arc<Ctl>,
    pub tid: usize,
    pub count: std::sync::atomic::AtomicUsize,
}

impl std::task::Wake for FlagWaker {
    fn wake(self: Arc<Self>) {
        self.wake_by_ref();
    }
    fn wake_by_ref(self: &Arc<Self>) {
        self.count.fetch_add(1, Ordering::SeqCst);
        self.ctl.woken[self.tid].store(true, Ordering::SeqCst);
    }
}
