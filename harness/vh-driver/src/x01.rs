//! `vh-driver x01 run <scripts.ndjson> <out.ndjson>`: Session::await_schema_agreement against mock nodes that answer the
//! schema-version probe by script (growth beyond the listed properties: SchemaAgreement.tla).
//! Input {"id":N,"script":[[answer of node 0 to round 1, 2, ...],[node 1 ...],...]}; answers: "A" | "B" | "C" a schema
//! version, "T" overloaded, "R" read timeout, "F" invalid, "U" unavailable; the last entry repeats for ever.
//! Output {"id","script","kind":"ok"|"err"|"timeout","val":"A".."U"|"","elapsed_ms","timeout_ms","interval_ms","polls":[per node],"err":text}
use std::io::{BufRead, Write};
use std::net::Ipv4Addr;
use std::sync::atomic::Ordering;
use std::sync::{Arc, Mutex};
use std::time::{Duration, Instant};

use serde_json::{Value, json};

use crate::mock::{Action, MockCluster, MockColumn, MockConfig, MockKeyspace, MockNodeCfg, MockTable, Reply, Request, type_bytes};

const PORT: u16 = 19431;
const INTERVAL_MS: u64 = 25;
const TIMEOUT_MS: u64 = 400;

fn version(letter: &str) -> uuid::Uuid {
    uuid::Uuid::from_u128(0x5C4E_0000_0000_4000_8000_0000_0000_0000u128 + letter.as_bytes()[0] as u128)
}

fn mock_config(n: usize) -> MockConfig {
    MockConfig {
        port: PORT,
        shard_aware_port: None,
        nodes: (0..n)
            .map(|i| MockNodeCfg {
                ip: Ipv4Addr::new(127, 0, 31, i as u8 + 1),
                host_id: uuid::Uuid::from_u128((0x01u128 << 64) | (i as u128 + 1)),
                dc: "dc1".into(),
                rack: "r1".into(),
                tokens: vec![(i as i64 + 1) * 1000],
                nr_shards: None,
                msb_ignore: 0,
                metadata_id_ext: false,
                tablets_ext: false,
                lwt_mark: false,
            })
            .collect(),
        keyspaces: vec![MockKeyspace {
            name: "ks".into(),
            replication: vec![("class".into(), "org.apache.cassandra.locator.SimpleStrategy".into()), ("replication_factor".into(), "1".into())],
            tablets: false,
            tables: vec![MockTable { name: "t".into(), columns: vec![MockColumn { name: "pk".into(), kind: "partition_key".into(), position: 0, typ: "int".into() }], partitioner: None }],
        }],
        system_page_size_override: None,
    }
}

struct Script {
    answers: Vec<Vec<String>>,
    polls: Vec<usize>,
    armed: bool,
}

fn reply_for(a: &str) -> Action {
    let err = |code: i32, extra: Vec<u8>| Action::Reply(Reply::Error { code, message: format!("scripted {a}"), extra });
    match a {
        "T" => err(0x1001, vec![]),
        // <cl short = ONE><received int = 0><blockfor int = 1><data_present byte = 0>
        "R" => err(0x1200, vec![0, 1, 0, 0, 0, 0, 0, 0, 0, 1, 0]),
        "F" => err(0x2200, vec![]),
        // <cl short = ONE><required int = 1><alive int = 0>
        "U" => err(0x1000, vec![0, 1, 0, 0, 0, 1, 0, 0, 0, 0]),
        v => Action::Reply(Reply::Rows {
            cols: vec![("schema_version".into(), type_bytes("uuid").unwrap())],
            ks: "system".into(),
            table: "local".into(),
            rows: vec![vec![Some(version(v).as_bytes().to_vec())]],
            paging_state: None,
            no_metadata: false,
            new_metadata_id: None,
        }),
    }
}

async fn run_all(inp: &str, outp: &str) -> Result<Value, String> {
    use scylla::client::PoolSize;
    use scylla::client::session_builder::SessionBuilder;
    let input = std::fs::File::open(inp).map_err(|e| format!("open {inp}: {e}"))?;
    let mut out = std::io::BufWriter::new(std::fs::File::create(outp).map_err(|e| format!("create {outp}: {e}"))?);
    crate::mock::SCHEMA_PROBE_TO_HANDLER.store(true, Ordering::SeqCst);
    let script = Arc::new(Mutex::new(Script { answers: vec![], polls: vec![], armed: false }));
    let s2 = script.clone();
    let handler: crate::mock::Handler = Arc::new(move |req: &Request| {
        let mut s = s2.lock().unwrap();
        let is_probe = req.query.as_deref().map(|q| q.to_ascii_lowercase().contains("schema_version")).unwrap_or(false);
        if !is_probe {
            return Action::Reply(Reply::Void);
        }
        if !s.armed || req.node >= s.answers.len() {
            return reply_for("A");
        }
        let k = s.polls[req.node];
        s.polls[req.node] += 1;
        let a = s.answers[req.node][k.min(s.answers[req.node].len() - 1)].clone();
        reply_for(&a)
    });
    // one mock + one Session per node count (2, 3)
    let mut lines = 0u64;
    let all: Vec<Value> = std::io::BufReader::new(input).lines().map_while(Result::ok).filter(|l| !l.trim().is_empty()).map(|l| serde_json::from_str(&l).map_err(|e| e.to_string())).collect::<Result<_, _>>()?;
    for n in [2usize, 3] {
        let todo: Vec<&Value> = all.iter().filter(|j| j["script"].as_array().map(|a| a.len()) == Some(n)).collect();
        if todo.is_empty() {
            continue;
        }
        let t0 = Instant::now();
        let mock = loop {
            match MockCluster::try_start(mock_config(n), handler.clone()).await {
                Ok(m) => break m,
                Err(_) if t0.elapsed() < Duration::from_secs(3) => tokio::time::sleep(Duration::from_millis(50)).await,
                Err(e) => return Err(format!("mock start: {e}")),
            }
        };
        let session = SessionBuilder::new()
            .known_node(mock.contact_point(0))
            .pool_size(PoolSize::PerHost(std::num::NonZeroUsize::new(1).unwrap()))
            .schema_agreement_interval(Duration::from_millis(INTERVAL_MS))
            .schema_agreement_timeout(Duration::from_millis(TIMEOUT_MS))
            .build()
            .await
            .map_err(|e| format!("session build: {e}"))?;
        // every node known and connected
        let t1 = Instant::now();
        loop {
            let st = session.get_cluster_state();
            if st.get_nodes_info().len() == n && st.get_nodes_info().iter().all(|x| x.is_connected()) {
                break;
            }
            if t1.elapsed() > Duration::from_secs(5) {
                return Err("nodes not connected after 5 s".into());
            }
            tokio::time::sleep(Duration::from_millis(10)).await;
        }
        for j in todo {
            // probes of the previous call that were still on their way when it ended must not be taken for this call's
            tokio::time::sleep(Duration::from_millis(40)).await;
            let answers: Vec<Vec<String>> = j["script"].as_array().unwrap().iter().map(|a| a.as_array().unwrap().iter().map(|x| x.as_str().unwrap().to_string()).collect()).collect();
            {
                let mut s = script.lock().unwrap();
                s.answers = answers;
                s.polls = vec![0; n];
                s.armed = true;
            }
            let t = Instant::now();
            let r = session.await_schema_agreement().await;
            let elapsed = t.elapsed().as_millis() as u64;
            let polls = {
                let mut s = script.lock().unwrap();
                s.armed = false;
                s.polls.clone()
            };
            let (kind, val, err) = match r {
                Ok(v) => ("ok", ["A", "B", "C"].iter().find(|l| version(l) == v).map(|l| l.to_string()).unwrap_or_else(|| "?".into()), String::new()),
                Err(e) => {
                    let text = format!("{e:?}");
                    let (k, v) = if text.contains("Timeout(") {
                        ("timeout", "")
                    } else if text.contains("Overloaded") {
                        ("err", "T")
                    } else if text.contains("ReadTimeout") {
                        ("err", "R")
                    } else if text.contains("Invalid") {
                        ("err", "F")
                    } else if text.contains("Unavailable") {
                        ("err", "U")
                    } else {
                        ("err", "?")
                    };
                    (k, v.to_string(), text.chars().take(160).collect())
                }
            };
            writeln!(out, "{}", json!({"id": j["id"], "script": j["script"], "kind": kind, "val": val, "elapsed_ms": elapsed, "timeout_ms": TIMEOUT_MS,
                                        "interval_ms": INTERVAL_MS, "polls": polls, "err": err})).map_err(|e| e.to_string())?;
            lines += 1;
        }
        drop(session);
        mock.shutdown().await;
    }
    out.flush().map_err(|e| e.to_string())?;
    crate::mock::SCHEMA_PROBE_TO_HANDLER.store(false, Ordering::SeqCst);
    Ok(json!({"cmd": "x01", "lines": lines}))
}

pub fn cmd_run(args: &[String]) -> i32 {
    if args.len() != 2 {
        eprintln!("usage: vh-driver x01 run <scripts.ndjson> <out.ndjson>");
        return 2;
    }
    let rt = tokio::runtime::Builder::new_multi_thread().worker_threads(2).enable_all().build().expect("runtime");
    match rt.block_on(run_all(&args[0], &args[1])) {
        Ok(s) => {
            println!("{s}");
            0
        }
        Err(e) => {
            eprintln!("x01: {e}");
            2
        }
    }
}
