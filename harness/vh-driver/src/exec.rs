//! The real execution loop (run_request_no_side_effects -> speculative fibers -> retry policy) with
//! synthetic attempts under a paused clock. Serves the loop half of C06 and the end-to-end half of C13.

use crate::c06_support::{cl_of, err_of, policy_of};
use scylla::errors::{RequestAttemptError, RequestError};
use scylla::policies::retry::{RequestInfo, RetryDecision, RetryPolicy, RetrySession};
use scylla::statement::Consistency;
use scylla::verif::execution::{VExec, VResult, run_request};
use serde_json::{Value, json};
use std::io::{BufRead, Write};
use std::sync::{Arc, Mutex};
use std::time::Duration;

const UNIT_MS: u64 = 10;

/// Wraps the real policy; records every decision (and reset) it is asked for.
#[derive(Debug)]
struct RecordingPolicy {
    inner: Box<dyn RetryPolicy>,
    log: Arc<Mutex<Vec<Value>>>,
}
struct RecordingSession {
    inner: Box<dyn RetrySession>,
    log: Arc<Mutex<Vec<Value>>>,
    same: usize,
}
impl RetryPolicy for RecordingPolicy {
    fn new_session(&self) -> Box<dyn RetrySession> {
        Box::new(RecordingSession { inner: self.inner.new_session(), log: self.log.clone(), same: 0 })
    }
}
impl RetrySession for RecordingSession {
    fn decide_should_retry(&mut self, info: RequestInfo) -> RetryDecision {
        let d = self.inner.decide_should_retry(info);
        let name = match &d {
            RetryDecision::RetrySameTarget(_) => "same",
            RetryDecision::RetryNextTarget(_) => "next",
            RetryDecision::DontRetry => "stop",
            RetryDecision::IgnoreWriteError => "ignore",
            _ => "unknown",
        };
        self.log.lock().unwrap().push(json!({"k":"D","d":name,"same":self.same}));
        if name == "same" {
            self.same += 1;
        }
        d
    }
    fn reset(&mut self) {
        self.log.lock().unwrap().push(json!({"k":"Reset"}));
        self.inner.reset()
    }
}

fn run_one(sc: &Value) -> Value {
    let pol = sc["pol"].as_str().unwrap().to_string();
    let idem = sc["idem"].as_bool().unwrap();
    let cl = cl_of(sc["cl"].as_str().unwrap());
    let spec = sc["spec"].as_i64().unwrap();
    let targets: Vec<Value> = sc["targets"].as_array().unwrap().clone();
    let plan = targets.len();
    let log: Arc<Mutex<Vec<Value>>> = Arc::new(Mutex::new(Vec::new()));
    let rt = tokio::runtime::Builder::new_current_thread().enable_time().start_paused(true).build().unwrap();
    let lg = log.clone();
    let tg = targets.clone();
    let res = std::panic::catch_unwind(std::panic::AssertUnwindSafe(|| {
        rt.block_on(async move {
            let t0 = tokio::time::Instant::now();
            let now = move || -> u64 { (t0.elapsed().as_millis() as u64) / UNIT_MS };
            let spec_cfg = VExec {
                is_idempotent: idem,
                consistency: cl,
                retry_policy: Arc::new(RecordingPolicy { inner: policy_of(&pol), log: lg.clone() }),
                speculative: if spec >= 0 { Some((spec as usize, Duration::from_millis(UNIT_MS))) } else { None },
                request_timeout: None,
                targets_pool_error: tg.iter().map(|t| t["pool"].as_u64().unwrap() == 1).collect(),
            };
            let counts: Arc<Mutex<Vec<usize>>> = Arc::new(Mutex::new(vec![0; tg.len()]));
            let lg2 = lg.clone();
            let tg2 = tg.clone();
            let attempt = move |idx: usize, cl: Consistency| {
                let k = {
                    let mut c = counts.lock().unwrap();
                    c[idx] += 1;
                    c[idx]
                };
                let t = &tg2[idx];
                let (dur, sym) = if k == 1 { (t["d1"].as_u64().unwrap(), t["e1"].clone()) } else if k == 2 { (0, t["e2"].clone()) } else { (0, json!({"k":"Ok","n":0,"req":0,"dp":false,"wt":"-"})) };
                lg2.lock().unwrap().push(json!({"k":"AS","t":now(),"tgt":idx + 1,"cl":crate::c06_support::cl_name(cl)}));
                let lg3 = lg2.clone();
                async move {
                    if dur > 0 {
                        tokio::time::sleep(Duration::from_millis(dur * UNIT_MS)).await;
                    }
                    lg3.lock().unwrap().push(json!({"k":"AE","t":now(),"tgt":idx + 1,"e":sym}));
                    if sym["k"] == "Ok" { Ok(()) } else { Err::<(), RequestAttemptError>(err_of(&sym, cl)) }
                }
            };
            let call = run_request(&spec_cfg, attempt);
            let out = tokio::time::timeout(Duration::from_millis(100_000 * UNIT_MS), call).await;
            let t = now();
            let ev = match out {
                Err(_) => json!({"k":"H"}),
                Ok(Ok(VResult::Completed { target })) => json!({"k":"R","t":t,"res":"ok","tgt":target + 1}),
                Ok(Ok(VResult::IgnoredWriteError { target })) => json!({"k":"R","t":t,"res":"ignored","tgt":target + 1}),
                Ok(Err(RequestError::EmptyPlan)) => json!({"k":"R","t":t,"res":"empty","tgt":0}),
                Ok(Err(RequestError::ConnectionPoolError(_))) => json!({"k":"R","t":t,"res":"pool","tgt":0}),
                Ok(Err(_)) => json!({"k":"R","t":t,"res":"err","tgt":0}),
            };
            lg.lock().unwrap().push(ev);
        })
    }));
    let mut evs = log.lock().unwrap().clone();
    if res.is_err() {
        evs.push(json!({"k":"P","msg":crate::last_panic()}));
    }
    json!({"pol": sc["pol"], "idem": idem, "cl": sc["cl"], "maxspec": spec, "plan": plan, "scen": sc, "evs": evs})
}

/// `exec run <scenarios.ndjson> <out.ndjson>`
pub fn cmd_run(args: &[String]) -> i32 {
    let inp = std::fs::File::open(&args[0]).expect("scenarios");
    let mut out = std::io::BufWriter::new(std::fs::File::create(&args[1]).expect("out"));
    let mut n = 0;
    for line in std::io::BufReader::new(inp).lines() {
        let line = line.unwrap();
        if line.trim().is_empty() {
            continue;
        }
        let sc: Value = serde_json::from_str(&line).unwrap();
        writeln!(out, "{}", run_one(&sc)).unwrap();
        n += 1;
    }
    out.flush().unwrap();
    println!("{}", json!({"runs": n}));
    0
}
