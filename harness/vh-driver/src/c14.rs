//! `vh-driver c14 run <histories.ndjson> <out.ndjson>` (see ../C14.md): prepared statements vs. server-side
//! eviction, schema change and statement-id change. The mock handler implements the SERVER MODEL of C14.md;
//! this command only records frames (as seen and answered by the model) and what the caller got.

use std::collections::HashSet;
use std::io::{BufRead, Write};
use std::net::Ipv4Addr;
use std::num::NonZeroUsize;
use std::sync::{Arc, Mutex};
use std::time::{Duration, Instant};

use futures::StreamExt;
use serde_json::{Value, json};

use scylla::cluster::{ClusterState, NodeRef};
use scylla::policies::load_balancing::{FallbackPlan, LoadBalancingPolicy, RoutingInfo};
use scylla::routing::Shard;
use scylla::value::{CqlValue, Row};

use crate::mock::{Action, MockCluster, MockColumn, MockConfig, MockKeyspace, MockNodeCfg, MockTable, Reply, Request, stable_id, type_bytes};

const SELECT: &str = "SELECT a, b FROM ks.t WHERE a = ?";
const INSERT: &str = "INSERT INTO ks.t (a) VALUES (?)";
/// a second, different statement for batches (two statements a node can have forgotten independently)
const INSERT2: &str = "INSERT INTO ks.t (a) VALUES (?) IF NOT EXISTS";
const CHANGED: &str = "#changed";
const PORT: u16 = 19414;
const NODES: usize = 2;

// ---------------------------------------------------------------------------------------------
// History
// ---------------------------------------------------------------------------------------------

#[derive(Clone, Debug)]
enum Step {
    Evict(usize),
    Alter,
    AlterEvict,
    /// schema version += 1, every node forgets everything, column b is RENAMED (same number of columns)
    RenameEvict,
    IdChange(usize),
    Exec(usize, i32),
    /// paged execution; the optional server event is applied by the mock right after it served the FIRST page
    ExecPaged(usize, i32, Option<Box<Step>>),
    /// the same SELECT text through the CachingSession (its own cached handle), unpaged / paged
    CExec(usize, i32),
    /// two executions at once: pk forced to node 0, pk + 1 forced to node 1
    Exec2(i32),
    CExecPaged(usize, i32, Option<Box<Step>>),
    Batch(usize, i32),
    /// a batch whose second statement is given as TEXT with values (the driver prepares it on the fly); the node forgets exactly
    /// that statement between the PREPARE and the BATCH
    BatchFly(usize, i32),
    Prepare,
}

#[derive(Clone, Debug)]
struct History {
    id: Value,
    ext: [bool; NODES],
    ext_json: Value,
    skip: bool,
    skip_json: Value,
    /// the nodes ignore the skip-metadata flag: every page of rows carries its metadata
    igs: bool,
    steps: Vec<(Value, Step)>,
}

fn parse_history(v: &Value) -> Result<History, String> {
    let ext_a = v["ext"].as_array().ok_or("ext missing")?;
    if ext_a.len() != NODES {
        return Err(format!("ext: {} entries instead of {NODES}", ext_a.len()));
    }
    let mut ext = [false; NODES];
    for (i, e) in ext_a.iter().enumerate() {
        ext[i] = match e.as_u64() {
            Some(0) => false,
            Some(1) => true,
            _ => return Err("ext: entries must be 0 or 1".into()),
        };
    }
    let skip = match v["skip"].as_u64() {
        Some(0) => false,
        Some(1) => true,
        _ => return Err("skip must be 0 or 1".into()),
    };
    let node = |s: &Value| -> Result<usize, String> { s["node"].as_u64().map(|n| n as usize).filter(|n| *n < NODES).ok_or_else(|| format!("step {s}: node missing or out of range")) };
    let pk = |s: &Value| -> Result<i32, String> { s["pk"].as_i64().and_then(|k| i32::try_from(k).ok()).ok_or_else(|| format!("step {s}: pk missing or not an int")) };
    let ev_of = |s: &Value| -> Result<Step, String> {
        Ok(match s["ev"].as_str() {
            Some("evict") => Step::Evict(node(s)?),
            Some("alter") => Step::Alter,
            Some("alter_evict") => Step::AlterEvict,
            Some("rename_evict") => Step::RenameEvict,
            Some("idchange") => Step::IdChange(node(s)?),
            _ => return Err(format!("unknown event {s}")),
        })
    };
    let mid_of = |s: &Value| -> Result<Option<Box<Step>>, String> { if s["mid"].is_object() { Ok(Some(Box::new(ev_of(&s["mid"])?))) } else { Ok(None) } };
    let mut steps = Vec::new();
    for s in v["steps"].as_array().ok_or("steps missing")? {
        let st = match (s["ev"].as_str(), s["op"].as_str()) {
            (Some("evict"), None) => Step::Evict(node(s)?),
            (Some("alter"), None) => Step::Alter,
            (Some("alter_evict"), None) => Step::AlterEvict,
            (Some("rename_evict"), None) => Step::RenameEvict,
            (Some("idchange"), None) => Step::IdChange(node(s)?),
            (None, Some("exec")) => Step::Exec(node(s)?, pk(s)?),
            (None, Some("exec_paged")) => Step::ExecPaged(node(s)?, pk(s)?, mid_of(s)?),
            (None, Some("cexec")) => Step::CExec(node(s)?, pk(s)?),
            (None, Some("exec2")) => Step::Exec2(pk(s)?),
            (None, Some("cexec_paged")) => Step::CExecPaged(node(s)?, pk(s)?, mid_of(s)?),
            (None, Some("batch")) => Step::Batch(node(s)?, pk(s)?),
            (None, Some("batch_fly")) => Step::BatchFly(node(s)?, pk(s)?),
            (None, Some("prepare")) => Step::Prepare,
            _ => return Err(format!("unknown step {s}")),
        };
        steps.push((s.clone(), st));
    }
    Ok(History { id: v["id"].clone(), ext, ext_json: v["ext"].clone(), skip, skip_json: v["skip"].clone(), igs: v["igs"].as_u64() == Some(1), steps })
}

fn node_ip(i: usize) -> Ipv4Addr {
    Ipv4Addr::new(127, 0, 14, (i + 1) as u8)
}

fn host_id(i: usize) -> uuid::Uuid {
    uuid::Uuid::from_u128((0xC14u128 << 64) | (i as u128 + 1))
}

fn mock_config(h: &History) -> MockConfig {
    MockConfig {
        port: PORT,
        shard_aware_port: None,
        nodes: (0..NODES)
            .map(|i| MockNodeCfg {
                ip: node_ip(i),
                host_id: host_id(i),
                dc: "dc1".into(),
                rack: "r1".into(),
                tokens: vec![if i == 0 { -(1i64 << 62) } else { 1i64 << 62 }],
                nr_shards: None,
                msb_ignore: 0,
                metadata_id_ext: h.ext[i],
                tablets_ext: false,
                lwt_mark: false,
            })
            .collect(),
        keyspaces: vec![MockKeyspace {
            name: "ks".into(),
            replication: vec![("class".into(), "org.apache.cassandra.locator.NetworkTopologyStrategy".into()), ("dc1".into(), "2".into())],
            tablets: false,
            tables: vec![MockTable {
                name: "t".into(),
                columns: vec![
                    MockColumn { name: "a".into(), kind: "partition_key".into(), position: 0, typ: "int".into() },
                    MockColumn { name: "b".into(), kind: "regular".into(), position: -1, typ: "text".into() },
                ],
                partitioner: Some("org.apache.cassandra.dht.Murmur3Partitioner".into()),
            }],
        }],
        system_page_size_override: None,
    }
}

// ---------------------------------------------------------------------------------------------
// SERVER MODEL
// ---------------------------------------------------------------------------------------------

struct Model {
    ver: u8,
    /// number of extra int columns c2.. (an ALTER ADD each) and the version at which column b was last renamed (0: "b")
    extra: u8,
    bgen: u8,
    ext: [bool; NODES],
    prepared: [HashSet<Vec<u8>>; NODES],
    salt: [u8; NODES],
    /// FRAME records, in the order the handler ran.
    frames: Vec<Value>,
    /// User frames the model has no rule for (other opcodes): counted only.
    other_frames: u64,
    /// armed by a paged step: event to apply right after the first page of rows has been served
    mid_event: Option<(Value, Step)>,
    /// node that forgets INSERT2 when the next BATCH reaches it (once)
    fly_evict: Option<usize>,
    ignore_skip: bool,
    /// during a pair of simultaneous executions: node 1 answers EXECUTE this many ms late (so that its UNPREPARED arrives after
    /// the other execution has finished re-preparing on node 0)
    slow1_ms: u64,
}

fn mid(ver: u8) -> Vec<u8> {
    vec![0xC1, ver]
}

fn columns(extra: u8, bgen: u8) -> Vec<(String, Vec<u8>)> {
    let int = type_bytes("int").expect("type int");
    let text = type_bytes("text").expect("type text");
    let bname = if bgen == 0 { "b".to_string() } else { format!("b{bgen}") };
    let mut c = vec![("a".to_string(), int.clone()), (bname, text)];
    for i in 2..=(extra as u32 + 1) {
        c.push((format!("c{i}"), int.clone()));
    }
    c
}

fn model_rows(ver: u8, extra: u8, k: i32) -> Vec<Vec<Option<Vec<u8>>>> {
    (0..2i32)
        .map(|r| {
            let mut row = vec![Some(k.wrapping_mul(10).wrapping_add(r).to_be_bytes().to_vec()), Some(format!("b{ver}").into_bytes())];
            for i in 2..=(extra as i32 + 1) {
                row.push(Some((100 * ver as i32 + i).to_be_bytes().to_vec()));
            }
            row
        })
        .collect()
}

fn id_for(text: &str, salt: u8) -> Vec<u8> {
    if salt == 0 { stable_id(text.as_bytes()) } else { stable_id(format!("{text}{CHANGED}").as_bytes()) }
}

/// "select" | "insert" | "?" for a statement id (either salt).
fn stmt_of_id(id: &[u8]) -> &'static str {
    if id == &id_for(SELECT, 0)[..] || id == &id_for(SELECT, 1)[..] {
        "select"
    } else if id == &id_for(INSERT, 0)[..] || id == &id_for(INSERT, 1)[..] {
        "insert"
    } else if id == &id_for(INSERT2, 0)[..] || id == &id_for(INSERT2, 1)[..] {
        "insert2"
    } else {
        "?"
    }
}

fn bytes_json(b: &[u8]) -> Value {
    Value::Array(b.iter().map(|x| json!(*x)).collect())
}

fn opt_bytes_json(b: Option<&[u8]>) -> Value {
    match b {
        Some(b) => bytes_json(b),
        None => json!("none"),
    }
}

fn values_json(v: &[Option<Vec<u8>>]) -> Vec<Value> {
    v.iter().map(|x| x.as_deref().map(bytes_json).unwrap_or(json!("null"))).collect()
}

fn unprepared(id: &[u8]) -> Reply {
    let mut extra = (id.len() as u16).to_be_bytes().to_vec();
    extra.extend_from_slice(id);
    Reply::Error { code: 0x2500, message: "unprepared statement".into(), extra }
}

fn invalid(msg: String) -> Reply {
    Reply::Error { code: 0x2200, message: msg, extra: vec![] }
}

struct Answer {
    reply: Reply,
    name: &'static str,
    reply_id: Vec<u8>,
    reply_mid: Option<Vec<u8>>,
    ncols: usize,
}

impl Answer {
    fn plain(reply: Reply, name: &'static str) -> Answer {
        Answer { reply, name, reply_id: vec![], reply_mid: None, ncols: 0 }
    }
    fn unprepared(id: &[u8]) -> Answer {
        Answer { reply: unprepared(id), name: "unprepared", reply_id: id.to_vec(), reply_mid: None, ncols: 0 }
    }
}

impl Model {
    fn new(ext: [bool; NODES]) -> Model {
        Model { ver: 1, extra: 0, bgen: 0, ext, prepared: [HashSet::new(), HashSet::new()], salt: [0; NODES], frames: vec![], other_frames: 0, mid_event: None, fly_evict: None, ignore_skip: false, slow1_ms: 0 }
    }

    fn apply_event(&mut self, st: &Step) {
        match st {
            Step::Evict(n) => self.prepared[*n].clear(),
            Step::Alter => {
                self.ver += 1;
                self.extra += 1;
            }
            Step::RenameEvict => {
                self.ver += 1;
                self.bgen = self.ver;
                for p in self.prepared.iter_mut() {
                    p.clear();
                }
            }
            Step::AlterEvict => {
                self.ver += 1;
                self.extra += 1;
                for p in self.prepared.iter_mut() {
                    p.clear();
                }
            }
            Step::IdChange(n) => {
                self.prepared[*n].clear();
                self.salt[*n] = 1;
            }
            _ => {}
        }
    }

    fn prepare(&mut self, n: usize, text: &str) -> Answer {
        let is_select = match text {
            SELECT => true,
            INSERT | INSERT2 => false,
            other => return Answer::plain(invalid(format!("c14 model cannot prepare {other:?}")), "error"),
        };
        let id = id_for(text, self.salt[n]);
        self.prepared[n].insert(id.clone());
        let rmid = if self.ext[n] { Some(mid(self.ver)) } else { None };
        // a node that hands out ANOTHER id has, in effect, another statement under that text: it also describes other columns
        let result_cols = if !is_select {
            vec![]
        } else if self.salt[n] != 0 {
            vec![("zz".to_string(), type_bytes("text").expect("type text"))]
        } else {
            columns(self.extra, self.bgen)
        };
        let ncols = result_cols.len();
        let int = type_bytes("int").expect("type int");
        Answer {
            reply: Reply::Prepared { id: id.clone(), result_metadata_id: rmid.clone(), pk_indexes: vec![0], bind_cols: vec![("a".to_string(), int)], result_cols, ks: "ks".into(), table: "t".into() },
            name: "prepared",
            reply_id: id,
            reply_mid: rmid,
            ncols,
        }
    }

    fn execute(&mut self, n: usize, req: &Request) -> Answer {
        let Some(id) = req.prepared_id.as_deref() else {
            return Answer::plain(invalid("EXECUTE without id".into()), "error");
        };
        if !self.prepared[n].contains(id) {
            return Answer::unprepared(id);
        }
        match stmt_of_id(id) {
            "insert" | "insert2" => return Answer::plain(Reply::Void, "void"),
            "select" => {}
            _ => return Answer::plain(invalid("c14 model: id of an unknown statement".into()), "error"),
        }
        let k = match req.values.first() {
            Some(Some(b)) if b.len() == 4 => i32::from_be_bytes([b[0], b[1], b[2], b[3]]),
            _ => return Answer::plain(invalid("c14 model: the bound pk is not a 4-byte int".into()), "error"),
        };
        let all = model_rows(self.ver, self.extra, k);
        // Paged iff the request carries a page size (execute_iter does, execute_unpaged does not).
        let (rows, next) = if req.page_size.is_some() {
            match req.paging_state.as_deref() {
                None => (vec![all[0].clone()], Some(vec![1u8])),
                Some([1]) => (vec![all[1].clone()], None),
                Some(other) => return Answer::plain(invalid(format!("c14 model: unknown paging state {other:?}")), "error"),
            }
        } else {
            (all, None)
        };
        let cur = mid(self.ver);
        let r_is_cur = req.result_metadata_id.as_deref() == Some(&cur[..]);
        let s = req.skip_metadata && !self.ignore_skip;
        let (name, no_metadata, new_id) = if self.ext[n] {
            if r_is_cur && s {
                ("rows_nometa", true, None)
            } else if !r_is_cur {
                ("rows_meta_newid", false, Some(cur))
            } else {
                ("rows_meta", false, None)
            }
        } else if s {
            ("rows_nometa", true, None)
        } else {
            ("rows_meta", false, None)
        };
        let cols = columns(self.extra, self.bgen);
        let ncols = if no_metadata { 0 } else { cols.len() };
        Answer {
            reply: Reply::Rows { cols, ks: "ks".into(), table: "t".into(), rows, paging_state: next, no_metadata, new_metadata_id: new_id.clone() },
            name,
            reply_id: vec![],
            reply_mid: new_id,
            ncols,
        }
    }

    fn batch(&mut self, n: usize, req: &Request) -> Answer {
        let Some(b) = &req.batch else {
            return Answer::plain(invalid("BATCH without a parsed body".into()), "error");
        };
        if self.fly_evict == Some(n) {
            self.fly_evict = None;
            let id = id_for(INSERT2, self.salt[n]);
            self.prepared[n].remove(&id);
        }
        for s in &b.statements {
            match s.prepared_id.as_deref() {
                Some(id) if !self.prepared[n].contains(id) => return Answer::unprepared(id),
                _ => {}
            }
        }
        Answer::plain(Reply::Void, "void")
    }

    fn handle(&mut self, req: &Request) -> Action {
        let n = req.node;
        if n >= NODES {
            return Action::Reply(invalid("c14 model: unknown node".into()));
        }
        let (ans, stmt, id_json, values): (Answer, &'static str, Value, Vec<Value>) = match req.opcode {
            0x09 => {
                let text = req.query.clone().unwrap_or_default();
                let stmt = match text.as_str() {
                    SELECT => "select",
                    INSERT => "insert",
                    INSERT2 => "insert2",
                    _ => "?",
                };
                (self.prepare(n, &text), stmt, json!([]), vec![])
            }
            0x0A => {
                let id = req.prepared_id.clone().unwrap_or_default();
                (self.execute(n, req), stmt_of_id(&id), bytes_json(&id), values_json(&req.values))
            }
            0x0D => {
                let stmts = req.batch.as_ref().map(|b| b.statements.clone()).unwrap_or_default();
                let ids: Vec<Vec<u8>> = stmts.iter().map(|s| s.prepared_id.clone().unwrap_or_default()).collect();
                let stmt = if !ids.is_empty() && ids.iter().all(|i| stmt_of_id(i) == "insert") {
                    "insert"
                } else if !ids.is_empty() && ids.iter().all(|i| stmt_of_id(i) == "select") {
                    "select"
                } else {
                    "?"
                };
                // values of all statements, flattened in statement order
                let values: Vec<Value> = stmts.iter().flat_map(|s| values_json(&s.values)).collect();
                (self.batch(n, req), stmt, Value::Array(ids.iter().map(|i| bytes_json(i)).collect()), values)
            }
            _ => {
                self.other_frames += 1;
                return Action::Reply(Reply::Void);
            }
        };
        self.frames.push(json!({
            "seq": req.seq,
            "node": n,
            "opcode": req.opcode,
            "stmt": stmt,
            "id": id_json,
            "rmid": opt_bytes_json(req.result_metadata_id.as_deref()),
            "skip": req.skip_metadata as u8,
            "paging": opt_bytes_json(req.paging_state.as_deref()),
            "values": values,
            "reply": ans.name,
            "reply_id": bytes_json(&ans.reply_id),
            "reply_mid": opt_bytes_json(ans.reply_mid.as_deref()),
            "reply_ncols": ans.ncols,
        }));
        // between two pages: the armed server event happens once the first page (rows + a paging state) has been decided
        if matches!(&ans.reply, Reply::Rows { paging_state: Some(_), .. }) {
            if let Some((echo, st)) = self.mid_event.take() {
                self.apply_event(&st);
                self.frames.push(json!({"midev": echo}));
            }
        }
        if self.slow1_ms > 0 && n == 1 && req.opcode == 0x0A {
            return Action::DelayMs(self.slow1_ms, Box::new(Action::Reply(ans.reply)));
        }
        Action::Reply(ans.reply)
    }
}

// ---------------------------------------------------------------------------------------------
// Load balancing: plan = [node n, the other node]
// ---------------------------------------------------------------------------------------------

#[derive(Debug)]
struct ForcedOrder {
    order: Vec<uuid::Uuid>,
}

fn find_node<'a>(cluster: &'a ClusterState, id: uuid::Uuid) -> Option<NodeRef<'a>> {
    cluster.get_nodes_info().iter().find(|n| n.host_id == id)
}

impl LoadBalancingPolicy for ForcedOrder {
    fn pick<'a>(&'a self, _request: &'a RoutingInfo, cluster: &'a ClusterState) -> Option<(NodeRef<'a>, Option<Shard>)> {
        self.order.first().and_then(|id| find_node(cluster, *id)).map(|n| (n, None))
    }

    fn fallback<'a>(&'a self, _request: &'a RoutingInfo, cluster: &'a ClusterState) -> FallbackPlan<'a> {
        Box::new(self.order.iter().filter_map(move |id| find_node(cluster, *id)).map(|n| (n, None)))
    }

    fn name(&self) -> String {
        "C14ForcedOrder".to_string()
    }
}

fn forced(n: usize) -> Arc<dyn LoadBalancingPolicy> {
    let mut order = vec![host_id(n)];
    order.extend((0..NODES).filter(|i| *i != n).map(host_id));
    Arc::new(ForcedOrder { order })
}

// ---------------------------------------------------------------------------------------------
// One history
// ---------------------------------------------------------------------------------------------

fn empty_output(h_id: &Value, ext: &Value, skip: &Value, err: String) -> Value {
    let nn = |v: &Value| if v.is_null() { json!("none") } else { v.clone() };
    json!({"id": if h_id.is_null() { json!(-1) } else { h_id.clone() }, "ext": nn(ext), "skip": nn(skip), "start_err": err, "setup": [], "steps": []})
}

fn err_json<E: std::fmt::Display + std::fmt::Debug>(e: &E) -> Value {
    let dbg = format!("{e:?}");
    let kind = if dbg.contains("RepreparedIdChanged") { "reprepared_id_changed" } else { "other" };
    json!({"ok": 0, "kind": kind, "err": format!("{e}")})
}

fn cql_json(v: &Option<CqlValue>) -> Value {
    match v {
        None => json!("null"),
        Some(CqlValue::Int(i)) => json!(i),
        Some(CqlValue::BigInt(i)) => json!(i),
        Some(CqlValue::SmallInt(i)) => json!(i),
        Some(CqlValue::TinyInt(i)) => json!(i),
        Some(CqlValue::Text(s)) => json!(s),
        Some(CqlValue::Ascii(s)) => json!(s),
        Some(other) => json!(format!("{other:?}")),
    }
}

fn row_json(r: &Row) -> Value {
    Value::Array(r.columns.iter().map(cql_json).collect())
}

/// Connection ids that sent a REGISTER frame (= control connections; they never carry user requests).
fn control_conns(log: &[Value]) -> HashSet<u64> {
    log.iter().filter(|e| e["dir"] == "in" && e["opcode"] == 0x0B).filter_map(|e| e["conn"].as_u64()).collect()
}

async fn run_history(h: &History) -> Value {
    let model = Arc::new(Mutex::new(Model::new(h.ext)));
    model.lock().unwrap().ignore_skip = h.igs;
    let m2 = model.clone();
    let handler: crate::mock::Handler = Arc::new(move |req: &Request| -> Action { m2.lock().unwrap().handle(req) });
    // The port is reused from the previous history: retry binding for up to 3 s.
    let t0 = Instant::now();
    let mock = loop {
        match MockCluster::try_start(mock_config(h), handler.clone()).await {
            Ok(m) => break m,
            Err(_) if t0.elapsed() < Duration::from_secs(3) => tokio::time::sleep(Duration::from_millis(50)).await,
            Err(e) => return empty_output(&h.id, &h.ext_json, &h.skip_json, format!("mock start: {e}")),
        }
    };
    let out = run_with_mock(h, &mock, &model).await;
    mock.shutdown().await;
    out
}

async fn run_with_mock(h: &History, mock: &MockCluster, model: &Arc<Mutex<Model>>) -> Value {
    use scylla::client::PoolSize;
    use scylla::client::execution_profile::ExecutionProfile;
    use scylla::client::session_builder::SessionBuilder;
    use scylla::policies::retry::DefaultRetryPolicy;
    use scylla::statement::batch::Batch;

    let fail = |e: String| empty_output(&h.id, &h.ext_json, &h.skip_json, e);

    let profile = ExecutionProfile::builder().request_timeout(Some(Duration::from_secs(5))).retry_policy(Arc::new(DefaultRetryPolicy::new())).speculative_execution_policy(None).build();
    let session = match SessionBuilder::new()
        .known_node(mock.contact_point(0))
        .pool_size(PoolSize::PerHost(NonZeroUsize::new(1).unwrap()))
        .default_execution_profile_handle(profile.into_handle())
        .compression(None)
        .build()
        .await
    {
        Ok(s) => s,
        Err(e) => return fail(format!("session build: {e}")),
    };
    let caching: scylla::client::caching_session::CachingSession =
        scylla::client::caching_session::CachingSessionBuilder::new(session).use_cached_result_metadata(h.skip).build();
    let session = caching.get_session();

    // Wait until both nodes are known and have their pool connection (at most 5 s).
    let t0 = Instant::now();
    let ready = || {
        let control = control_conns(&mock.log());
        let pools = (0..NODES).all(|i| mock.open_connections(i).iter().any(|(id, _, _)| !control.contains(id)));
        let st = session.get_cluster_state();
        pools && (0..NODES).all(|i| st.get_nodes_info().iter().any(|n| n.host_id == host_id(i) && n.is_connected()))
    };
    while !ready() {
        if t0.elapsed() > Duration::from_secs(5) {
            return fail("pools not ready after 5 s".into());
        }
        tokio::time::sleep(Duration::from_millis(5)).await;
    }

    let take_frames = |from: usize| -> Vec<Value> {
        let m = model.lock().unwrap();
        m.frames[from.min(m.frames.len())..].to_vec()
    };
    let nframes = || model.lock().unwrap().frames.len();

    // Setup.
    let mut prepared = match session.prepare(SELECT).await {
        Ok(p) => p,
        Err(e) => {
            let mut o = fail(format!("setup prepare select: {e}"));
            o["setup"] = Value::Array(take_frames(0));
            return o;
        }
    };
    let prepared_insert = match session.prepare(INSERT).await {
        Ok(p) => p,
        Err(e) => {
            let mut o = fail(format!("setup prepare insert: {e}"));
            o["setup"] = Value::Array(take_frames(0));
            return o;
        }
    };
    let prepared_insert2 = match session.prepare(INSERT2).await {
        Ok(p) => p,
        Err(e) => {
            let mut o = fail(format!("setup prepare insert2: {e}"));
            o["setup"] = Value::Array(take_frames(0));
            return o;
        }
    };
    prepared.set_use_cached_result_metadata(h.skip);
    let setup = take_frames(0);

    let mut steps_out = Vec::new();
    for (echo, st) in &h.steps {
        let from = nframes();
        let ver = model.lock().unwrap().ver;
        let result: Value = match st {
            Step::Evict(_) | Step::Alter | Step::AlterEvict | Step::RenameEvict | Step::IdChange(_) => {
                model.lock().unwrap().apply_event(st);
                json!("none")
            }
            Step::Exec(n, k) => {
                prepared.set_load_balancing_policy(Some(forced(*n)));
                collect_unpaged(session.execute_unpaged(&prepared, (*k,)).await)
            }
            Step::ExecPaged(n, k, mid) => {
                prepared.set_load_balancing_policy(Some(forced(*n)));
                model.lock().unwrap().mid_event = mid.as_ref().map(|m| (echo["mid"].clone(), (**m).clone()));
                let r = collect_pager(session.execute_iter(prepared.clone(), (*k,)).await).await;
                model.lock().unwrap().mid_event = None;
                r
            }
            Step::Exec2(k) => {
                let mut p0 = prepared.clone();
                let mut p1 = prepared.clone();
                p0.set_load_balancing_policy(Some(forced(0)));
                p1.set_load_balancing_policy(Some(forced(1)));
                let (k0, k1) = (*k, k.wrapping_add(1));
                model.lock().unwrap().slow1_ms = if k % 2 == 0 { 40 } else { 0 };
                let (r0, r1) = tokio::join!(session.execute_unpaged(&p0, (k0,)), session.execute_unpaged(&p1, (k1,)));
                model.lock().unwrap().slow1_ms = 0;
                json!({"ok": 1, "pair": [collect_unpaged(r0), collect_unpaged(r1)]})
            }
            Step::CExec(n, k) => {
                let mut q = scylla::statement::unprepared::Statement::new(SELECT);
                q.set_load_balancing_policy(Some(forced(*n)));
                collect_unpaged(caching.execute_unpaged(q, (*k,)).await)
            }
            Step::CExecPaged(n, k, mid) => {
                let mut q = scylla::statement::unprepared::Statement::new(SELECT);
                q.set_load_balancing_policy(Some(forced(*n)));
                model.lock().unwrap().mid_event = mid.as_ref().map(|m| (echo["mid"].clone(), (**m).clone()));
                let r = collect_pager(caching.execute_iter(q, (*k,)).await).await;
                model.lock().unwrap().mid_event = None;
                r
            }
            Step::Batch(n, k) => {
                let mut b = Batch::default();
                b.append_statement(prepared_insert.clone());
                b.append_statement(prepared_insert2.clone());
                b.set_load_balancing_policy(Some(forced(*n)));
                match session.batch(&b, ((*k,), (k.wrapping_add(1),))).await {
                    Ok(_) => json!({"ok": 1}),
                    Err(e) => err_json(&e),
                }
            }
            Step::BatchFly(n, k) => {
                let mut b = Batch::default();
                b.append_statement(prepared_insert.clone());
                b.append_statement(scylla::statement::unprepared::Statement::new(INSERT2));
                b.set_load_balancing_policy(Some(forced(*n)));
                model.lock().unwrap().fly_evict = Some(*n);
                let r = match session.batch(&b, ((*k,), (k.wrapping_add(1),))).await {
                    Ok(_) => json!({"ok": 1}),
                    Err(e) => err_json(&e),
                };
                model.lock().unwrap().fly_evict = None;
                r
            }
            Step::Prepare => match session.prepare(SELECT).await {
                Ok(_) => json!({"ok": 1}),
                Err(e) => err_json(&e),
            },
        };
        steps_out.push(json!({"step": echo, "ver": ver, "frames": take_frames(from), "result": result}));
    }
    drop(caching);
    let other = model.lock().unwrap().other_frames;
    if other > 0 && std::env::var("C14_VERBOSE").is_ok() {
        eprintln!("c14: history {}: {other} user frames with an opcode other than PREPARE/EXECUTE/BATCH (answered Void, not recorded)", h.id);
    }
    json!({"id": h.id, "ext": h.ext_json, "skip": h.skip_json, "igs": h.igs as u8, "start_err": "", "setup": setup, "steps": steps_out})
}

fn collect_unpaged(res: Result<scylla::response::query_result::QueryResult, scylla::errors::ExecutionError>) -> Value {
    match res {
        Err(e) => err_json(&e),
        Ok(qr) => match qr.into_rows_result() {
            Err(e) => err_json(&e),
            Ok(rr) => {
                let cols: Vec<String> = rr.column_specs().iter().map(|c| c.name().to_string()).collect();
                match rr.rows::<Row>() {
                    Err(e) => err_json(&e),
                    Ok(it) => {
                        let mut rows = Vec::new();
                        for r in it {
                            match r {
                                Ok(r) => rows.push(row_json(&r)),
                                Err(e) => return err_json(&e),
                            }
                        }
                        json!({"ok": 1, "cols": cols, "rows": rows})
                    }
                }
            }
        },
    }
}

async fn collect_pager(res: Result<scylla::client::pager::QueryPager, scylla::errors::PagerExecutionError>) -> Value {
    match res {
        Err(e) => err_json(&e),
        Ok(pager) => {
            // column names: those of the first page (taken before the stream consumes the pager)
            let cols: Vec<String> = pager.column_specs().iter().map(|c| c.name().to_string()).collect();
            match pager.rows_stream::<Row>() {
                Err(e) => err_json(&e),
                Ok(mut stream) => {
                    let mut rows = Vec::new();
                    while let Some(r) = stream.next().await {
                        match r {
                            Ok(r) => rows.push(row_json(&r)),
                            Err(e) => return err_json(&e),
                        }
                    }
                    json!({"ok": 1, "cols": cols, "rows": rows})
                }
            }
        }
    }
}

// ---------------------------------------------------------------------------------------------
// Command
// ---------------------------------------------------------------------------------------------

pub fn cmd_run(args: &[String]) -> i32 {
    if args.len() < 2 {
        eprintln!("usage: vh-driver c14 run <histories.ndjson> <out.ndjson>");
        return 2;
    }
    let inp = match std::fs::File::open(&args[0]) {
        Ok(f) => f,
        Err(e) => {
            eprintln!("c14: cannot open {}: {e}", args[0]);
            return 2;
        }
    };
    let mut out = match std::fs::File::create(&args[1]) {
        Ok(f) => std::io::BufWriter::new(f),
        Err(e) => {
            eprintln!("c14: cannot create {}: {e}", args[1]);
            return 2;
        }
    };
    let verbose = std::env::var("C14_VERBOSE").is_ok();
    let (mut lines, mut errors) = (0u64, 0u64);
    for line in std::io::BufReader::new(inp).lines() {
        let line = match line {
            Ok(l) => l,
            Err(e) => {
                eprintln!("c14: read error: {e}");
                return 2;
            }
        };
        if line.trim().is_empty() {
            continue;
        }
        let t0 = Instant::now();
        let result = match serde_json::from_str::<Value>(&line) {
            Err(e) => empty_output(&json!(-1), &Value::Null, &Value::Null, format!("bad history line: {e}")),
            Ok(v) => match parse_history(&v) {
                Err(e) => empty_output(&v["id"], &v["ext"], &v["skip"], format!("bad history: {e}")),
                Ok(h) => {
                    // A fresh runtime per history: dropping it kills every task of the Session and of the
                    // mock, so nothing of this history can talk to the next one's listeners.
                    let rt = tokio::runtime::Builder::new_multi_thread().worker_threads(2).enable_all().build().expect("tokio runtime");
                    let r = std::panic::catch_unwind(std::panic::AssertUnwindSafe(|| rt.block_on(async { tokio::time::timeout(Duration::from_secs(120), run_history(&h)).await })));
                    rt.shutdown_timeout(Duration::from_secs(2));
                    match r {
                        Ok(Ok(v)) => v,
                        Ok(Err(_)) => empty_output(&h.id, &h.ext_json, &h.skip_json, "history timed out after 120 s".into()),
                        Err(_) => empty_output(&h.id, &h.ext_json, &h.skip_json, format!("panic: {}", crate::last_panic())),
                    }
                }
            },
        };
        if result["start_err"] != "" {
            errors += 1;
        }
        if verbose {
            eprintln!("c14: history {} took {} ms", result["id"], t0.elapsed().as_millis());
        }
        if writeln!(out, "{result}").is_err() {
            eprintln!("c14: write error");
            return 2;
        }
        lines += 1;
    }
    if out.flush().is_err() {
        eprintln!("c14: write error");
        return 2;
    }
    println!("{}", json!({"cmd": "c14", "lines": lines, "errors": errors}));
    0
}
