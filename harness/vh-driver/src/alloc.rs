//! Counting global allocator of vh-driver (C08's tablets-payload phase measures decoding with it): live bytes and their
//! high-water mark in two relaxed atomics; a single request above 1 GiB is refused after `ALLOC <size>` on fd 2 (raw write).
use std::alloc::{GlobalAlloc, Layout, System};
use std::sync::atomic::{AtomicIsize, Ordering::Relaxed};

pub const LIMIT: usize = 1 << 30;
static CURRENT: AtomicIsize = AtomicIsize::new(0);
static PEAK: AtomicIsize = AtomicIsize::new(0);

pub struct Counting;

unsafe extern "C" {
    fn write(fd: i32, buf: *const u8, count: usize) -> isize;
}

fn report_refusal(size: usize) {
    let mut buf = [0u8; 32];
    buf[..6].copy_from_slice(b"ALLOC ");
    let mut digits = [0u8; 20];
    let (mut n, mut d) = (size, 0);
    loop {
        digits[d] = b'0' + (n % 10) as u8;
        d += 1;
        n /= 10;
        if n == 0 {
            break;
        }
    }
    let mut len = 6;
    while d > 0 {
        d -= 1;
        buf[len] = digits[d];
        len += 1;
    }
    buf[len] = b'\n';
    // SAFETY: buf is valid for len + 1 bytes.
    unsafe {
        let _ = write(2, buf.as_ptr(), len + 1);
    }
}

fn grow(by: usize) {
    let cur = CURRENT.fetch_add(by as isize, Relaxed) + by as isize;
    PEAK.fetch_max(cur, Relaxed);
}

// SAFETY: forwards to System; bookkeeping only.
unsafe impl GlobalAlloc for Counting {
    unsafe fn alloc(&self, l: Layout) -> *mut u8 {
        if l.size() > LIMIT {
            report_refusal(l.size());
            return std::ptr::null_mut();
        }
        let p = unsafe { System.alloc(l) };
        if !p.is_null() {
            grow(l.size());
        }
        p
    }
    unsafe fn dealloc(&self, p: *mut u8, l: Layout) {
        unsafe { System.dealloc(p, l) };
        CURRENT.fetch_sub(l.size() as isize, Relaxed);
    }
    unsafe fn alloc_zeroed(&self, l: Layout) -> *mut u8 {
        if l.size() > LIMIT {
            report_refusal(l.size());
            return std::ptr::null_mut();
        }
        let p = unsafe { System.alloc_zeroed(l) };
        if !p.is_null() {
            grow(l.size());
        }
        p
    }
    unsafe fn realloc(&self, p: *mut u8, l: Layout, new: usize) -> *mut u8 {
        if new > LIMIT {
            report_refusal(new);
            return std::ptr::null_mut();
        }
        let q = unsafe { System.realloc(p, l, new) };
        if !q.is_null() {
            if new >= l.size() {
                grow(new - l.size());
            } else {
                CURRENT.fetch_sub((l.size() - new) as isize, Relaxed);
            }
        }
        q
    }
}

/// Starts a measurement: the high-water mark is reset to the current level, which is returned.
pub fn mark() -> isize {
    let cur = CURRENT.load(Relaxed);
    PEAK.store(cur, Relaxed);
    cur
}

/// High-water mark since `mark()` above the level `mark()` returned.
pub fn peak_above(base: isize) -> i64 {
    (PEAK.load(Relaxed) - base).max(0) as i64
}
