//! C18: MonotonicTimestampGenerator — forced interleavings with a scripted (adversarial) clock,
//! and free-running stress on the real clock.

use crate::gate::{Cmd, Ctl, TState, install_sink, uninstall_sink};
use scylla::policies::timestamp_generator::{MonotonicTimestampGenerator, TimestampGenerator};
use serde_json::{Value, json};
use std::collections::VecDeque;
use std::io::{BufRead, Write};
use std::sync::{Arc, Mutex};

fn worker(ctl: Arc<Ctl>, tid: usize, generator: Arc<MonotonicTimestampGenerator>, calls: usize, clock: Vec<i64>) {
    install_sink(ctl.clone(), tid);
    let script = Arc::new(Mutex::new((VecDeque::from(clock), 1i64)));
    let sc = script.clone();
    scylla::verif::clock::install_local(Some(Arc::new(move || {
        let mut g = sc.lock().unwrap();
        if let Some(c) = g.0.pop_front() {
            g.1 = c;
        }
        g.1
    })));
    for _ in 0..calls {
        ctl.gate(tid, "opstart");
        let r = std::panic::catch_unwind(std::panic::AssertUnwindSafe(|| generator.next_timestamp()));
        match r {
            Ok(v) => ctl.record(json!({"ev":"TsRet","t":tid + 1,"v":v})),
            Err(_) => ctl.record(json!({"ev":"Panic","t":tid + 1})),
        }
    }
    ctl.gate(tid, "end");
    scylla::verif::clock::install_local(None);
    uninstall_sink();
    ctl.finish(tid);
}

pub fn run_one(case: &Value) -> (Vec<Value>, bool, bool) {
    let sched = case["s"].as_array().unwrap();
    // generator configuration: 0 without warnings; 1 default (warns above 1 s of skew; one clock unit = 3 s); 2 / 3 warn on any skew,
    // at most once per 0 s / once per hour (both sides of the "warned recently" test)
    let g = case["g"].as_u64().unwrap_or(0);
    let scale: i64 = if g == 1 { 3_000_000 } else { 1 };
    let nthreads = sched.iter().map(|e| e["t"].as_u64().unwrap() as usize).max().unwrap_or(1);
    let mut calls = vec![0usize; nthreads];
    let mut clocks: Vec<Vec<i64>> = vec![Vec::new(); nthreads];
    for e in sched {
        let t = e["t"].as_u64().unwrap() as usize - 1;
        if e["k"] == "call" {
            calls[t] += 1;
        } else {
            clocks[t].push(e["c"].as_i64().unwrap() * scale);
        }
    }
    let ctl = Ctl::new(nthreads);
    *ctl.stop_labels.lock().unwrap() = Some(["TsLoad".to_string()].into_iter().collect());
    use std::time::Duration;
    let generator = Arc::new(match g {
        1 => MonotonicTimestampGenerator::new(),
        2 => MonotonicTimestampGenerator::new().with_warning_times(Duration::ZERO, Duration::ZERO),
        3 => MonotonicTimestampGenerator::new().with_warning_times(Duration::ZERO, Duration::from_secs(3600)),
        _ => MonotonicTimestampGenerator::new().without_warnings(),
    });
    let mut hs = Vec::new();
    for t in 0..nthreads {
        let (c, g, n, cl) = (ctl.clone(), generator.clone(), calls[t], clocks[t].clone());
        hs.push(std::thread::spawn(move || worker(c, t, g, n, cl)));
    }
    let mut aligned = true;
    let mut stuck = ctl.wait_quiet().is_err();
    if !stuck {
        for e in sched {
            let t = e["t"].as_u64().unwrap() as usize - 1;
            if !ctl.runnable(t) {
                aligned = false;
                continue;
            }
            let at_op = ctl.label(t) == "opstart";
            if (e["k"] == "call") != at_op {
                aligned = false;
            }
            if ctl.step(t, Cmd::Step).is_err() {
                stuck = true;
                break;
            }
        }
    }
    if !stuck {
        let mut extra = 0;
        loop {
            let t = (0..nthreads).find(|&t| ctl.runnable(t));
            match t {
                Some(t) => {
                    extra += 1;
                    if extra > 10_000 {
                        stuck = true; // livelock in the code under test
                        break;
                    }
                    if ctl.step(t, Cmd::Step).is_err() {
                        stuck = true;
                        break;
                    }
                }
                None => break,
            }
        }
        if extra > nthreads {
            aligned = false;
        }
    }
    let mut trace = ctl.take_trace();
    if stuck {
        trace.push(json!({"ev":"Stuck"}));
        for h in hs {
            std::mem::forget(h);
        }
    } else {
        for h in hs {
            let _ = h.join();
        }
        debug_assert!((0..nthreads).all(|t| ctl.state(t) == TState::Finished));
    }
    (trace, aligned, stuck)
}

/// `c18 run <cases.ndjson> <out.ndjson>`
pub fn cmd_run(args: &[String]) -> i32 {
    let inp = std::fs::File::open(&args[0]).expect("cases");
    let mut out = std::io::BufWriter::new(std::fs::File::create(&args[1]).expect("out"));
    let (mut n, mut mis, mut st, mut differ) = (0usize, 0usize, 0usize, 0usize);
    for line in std::io::BufReader::new(inp).lines() {
        let line = line.unwrap();
        if line.trim().is_empty() {
            continue;
        }
        let case: Value = serde_json::from_str(&line).expect("case json");
        let (trace, aligned, stuck) = run_one(&case);
        n += 1;
        if !aligned {
            mis += 1;
        }
        if stuck {
            st += 1;
        }
        // drift diagnostic: model-predicted values vs real values
        let nthreads = case["o"].as_array().map(|a| a.len()).unwrap_or(0);
        let mut real: Vec<Vec<i64>> = vec![Vec::new(); nthreads];
        for e in &trace {
            if e["ev"] == "TsRet" {
                let t = e["t"].as_u64().unwrap() as usize - 1;
                if t < nthreads {
                    real[t].push(e["v"].as_i64().unwrap());
                }
            }
        }
        let same = json!(real) == case["o"] || case["g"].as_u64() == Some(1);
        if !same {
            differ += 1;
        }
        writeln!(out, "{}", json!({"ev":"Begin","n":n,"aligned":aligned,"same_as_model":same,"case":case})).unwrap();
        for ev in trace {
            writeln!(out, "{}", ev).unwrap();
        }
        writeln!(out, "{}", json!({"ev":"Reset"})).unwrap();
    }
    out.flush().unwrap();
    println!("{}", json!({"schedules":n,"misaligned":mis,"stuck":st,"differ_from_model":differ}));
    0
}

/// `c18 learn` — hook event order of one uncontended call and one call that loses a CAS race.
pub fn cmd_learn(_args: &[String]) -> i32 {
    let case = json!({"s":[{"t":1,"k":"call","c":0},{"t":2,"k":"call","c":0},{"t":2,"k":"cas","c":5},{"t":1,"k":"cas","c":3},{"t":1,"k":"cas","c":3}],"o":[[6],[5]]});
    let (trace, _, _) = run_one(&case);
    let evs: Vec<Value> = trace
        .iter()
        .filter(|e| e.get("src").is_some())
        .map(|e| json!(format!("{}:{}", e["t"], e["ev"].as_str().unwrap())))
        .collect();
    let rets: Vec<&Value> = trace.iter().filter(|e| e["ev"] == "TsRet").collect();
    println!("{}", json!({"events":evs,"rets":rets}));
    0
}

/// `c18 stress <threads> <calls> <out.ndjson>` — real clock, no hooks, no gates.
pub fn cmd_stress(args: &[String]) -> i32 {
    let threads: usize = args[0].parse().unwrap();
    let calls: usize = args[1].parse().unwrap();
    let rounds: usize = args.get(3).and_then(|s| s.parse().ok()).unwrap_or(1);
    let mut out = std::io::BufWriter::new(std::fs::File::create(&args[2]).unwrap());
    for _ in 0..rounds {
        let generator = Arc::new(MonotonicTimestampGenerator::new());
        let barrier = Arc::new(std::sync::Barrier::new(threads));
        let hs: Vec<_> = (0..threads)
            .map(|_| {
                let g = generator.clone();
                let b = barrier.clone();
                std::thread::spawn(move || {
                    b.wait();
                    (0..calls).map(|_| g.next_timestamp()).collect::<Vec<i64>>()
                })
            })
            .collect();
        let seqs: Vec<Vec<i64>> = hs.into_iter().map(|h| h.join().unwrap()).collect();
        let base = seqs.iter().flatten().copied().min().unwrap_or(0) - 1;
        let rel: Vec<Vec<i64>> = seqs.iter().map(|s| s.iter().map(|v| v - base).collect()).collect();
        writeln!(out, "{}", json!({"ev":"Stress","seqs":rel})).unwrap();
    }
    out.flush().unwrap();
    println!("{}", json!({"rounds":rounds}));
    0
}
