//! C19: merge_channel — forced interleavings (gated micro-steps on two real threads), coarse
//! (poll-granular) schedules, program learning, and free-running stress.

use crate::gate::{Cmd, Ctl, FlagWaker, TState, install_sink, uninstall_sink};
use scylla::verif::merge_channel::{VReceiver, VSender, channel};
use serde_json::{Value, json};
use std::future::Future;
use std::io::{BufRead, Write};
use std::sync::Arc;
use std::sync::atomic::{AtomicUsize, Ordering};
use std::task::{Context, Poll};

type T = Vec<u32>;

const P: usize = 0;
const C: usize = 1;

fn producer(ctl: Arc<Ctl>, tx: VSender<T>, ops: Vec<String>) {
    install_sink(ctl.clone(), P);
    let mut tx = Some(tx);
    let mut next_id: u32 = 1;
    for op in ops {
        ctl.gate(P, "opstart");
        match op.as_str() {
            "push" | "clear" | "noop" => {
                let x = next_id;
                if op == "push" {
                    next_id += 1;
                }
                ctl.record(json!({"ev":"ModCall","kind":op,"x":x}));
                let r = std::panic::catch_unwind(std::panic::AssertUnwindSafe(|| {
                    let tx = tx.as_mut().unwrap();
                    match op.as_str() {
                        "push" => tx.modify(|slot| slot.get_or_insert_with(Vec::new).push(x)),
                        "clear" => tx.modify(|slot| *slot = None),
                        _ => tx.modify(|_| ()),
                    }
                }));
                match r {
                    Ok(r) => ctl.record(json!({"ev":"ModRet","ok": if r.is_ok() {1} else {0}})),
                    Err(_) => ctl.record(json!({"ev":"Panic","t":"P"})),
                }
            }
            "drop" => {
                ctl.record(json!({"ev":"SDropCall"}));
                drop(tx.take());
                ctl.record(json!({"ev":"SDropRet"}));
            }
            _ => {}
        }
    }
    ctl.gate(P, "end");
    uninstall_sink();
    // keep the sender alive until the very end unless dropped explicitly: forget it so that no
    // unscripted Drop runs concurrently with the consumer.
    if let Some(tx) = tx {
        std::mem::forget(tx);
    }
    ctl.finish(P);
}

fn consumer(ctl: Arc<Ctl>, rx: VReceiver<T>, ops: Vec<String>, wakes: Arc<FlagWaker>) {
    install_sink(ctl.clone(), C);
    let waker = std::task::Waker::from(wakes.clone());
    let mut cx = Context::from_waker(&waker);
    let mut rx = Some(rx);
    for op in ops {
        ctl.gate(C, "opstart");
        match op.as_str() {
            "recv" => {
                ctl.record(json!({"ev":"RecvCall"}));
                let rxm = rx.as_mut().unwrap();
                let mut fut = Box::pin(rxm.recv());
                loop {
                    ctl.woken[C].store(false, Ordering::SeqCst);
                    let r = std::panic::catch_unwind(std::panic::AssertUnwindSafe(|| fut.as_mut().poll(&mut cx)));
                    match r {
                        Err(_) => {
                            ctl.record(json!({"ev":"Panic","t":"C"}));
                            break;
                        }
                        Ok(Poll::Ready(v)) => {
                            match v {
                                Some(v) => ctl.record(json!({"ev":"RecvRet","some":1,"val":v})),
                                None => ctl.record(json!({"ev":"RecvRet","some":0,"val":[]})),
                            }
                            break;
                        }
                        Ok(Poll::Pending) => {
                            ctl.record(json!({"ev":"Pending"}));
                            if ctl.park(C) == Cmd::Cancel {
                                drop(fut);
                                ctl.record(json!({"ev":"Cancel"}));
                                break;
                            }
                        }
                    }
                }
            }
            "try" => {
                let v = rx.as_mut().unwrap().try_recv();
                ctl.record(json!({"ev":"TryRecv","val": v.unwrap_or_default()}));
            }
            "drop" => {
                drop(rx.take());
                ctl.record(json!({"ev":"RDrop"}));
            }
            _ => {}
        }
    }
    ctl.gate(C, "end");
    uninstall_sink();
    if let Some(rx) = rx {
        std::mem::forget(rx);
    }
    ctl.finish(C);
}

/// Between-operation point of the producer?
fn p_quiescent(ctl: &Ctl) -> bool {
    match ctl.state(P) {
        TState::Finished => true,
        TState::AtStop => {
            let l = ctl.label(P);
            l == "opstart" || l == "end"
        }
        _ => false,
    }
}

fn c_parked_unwoken(ctl: &Ctl) -> bool {
    ctl.state(C) == TState::Parked && !ctl.woken[C].load(Ordering::SeqCst)
}

/// Runs one schedule; returns (trace, aligned, stuck).
pub fn run_schedule(sched: &[String], fine: bool) -> (Vec<Value>, bool, bool) {
    let pops: Vec<String> = sched.iter().filter_map(|e| e.strip_prefix("P:").map(|s| s.to_string())).collect();
    let cops: Vec<String> = sched.iter().filter_map(|e| e.strip_prefix("C:").map(|s| s.to_string())).collect();
    let ctl = Ctl::new(2);
    ctl.stop_at_hooks.store(fine, Ordering::SeqCst);
    let (tx, rx) = channel::<T>();
    let wakes = Arc::new(FlagWaker { ctl: ctl.clone(), tid: C, count: AtomicUsize::new(0) });
    let hp = {
        let ctl = ctl.clone();
        std::thread::spawn(move || producer(ctl, tx, pops))
    };
    let hc = {
        let ctl = ctl.clone();
        let w = wakes.clone();
        std::thread::spawn(move || consumer(ctl, rx, cops, w))
    };
    let mut aligned = true;
    let mut stuck = false;
    if ctl.wait_quiet().is_err() {
        stuck = true;
    }
    let mut note_quiescent = |ctl: &Ctl| {
        if p_quiescent(ctl) && c_parked_unwoken(ctl) {
            ctl.record(json!({"ev":"ParkedQuiescent"}));
        }
    };
    if !stuck {
        for e in sched {
            let (tid, cmd) = if e == "Cx" {
                (C, Cmd::Cancel)
            } else if e.starts_with('P') {
                (P, Cmd::Step)
            } else {
                (C, Cmd::Step)
            };
            let ok = match cmd {
                Cmd::Cancel => ctl.state(C) == TState::Parked,
                Cmd::Step => ctl.runnable(tid),
            };
            // an operation-start entry must coincide with the thread being at an op boundary
            let at_boundary = ctl.state(tid) == TState::AtStop && ctl.label(tid) == "opstart";
            if e.contains(':') != at_boundary && ok && cmd == Cmd::Step {
                aligned = false;
            }
            if !ok {
                aligned = false;
                continue;
            }
            if ctl.step(tid, cmd).is_err() {
                stuck = true;
                break;
            }
            note_quiescent(&ctl);
        }
    }
    // drain: run whatever can still run (deterministic order), then cancel a parked consumer
    if !stuck {
        let mut extra = 0;
        loop {
            let t = if ctl.runnable(P) { Some(P) } else if ctl.runnable(C) { Some(C) } else { None };
            match t {
                Some(t) => {
                    extra += 1;
                    if ctl.step(t, Cmd::Step).is_err() {
                        stuck = true;
                        break;
                    }
                    note_quiescent(&ctl);
                }
                None => break,
            }
        }
        // "end" gates are not part of the model's schedule: allow up to 2 extra steps
        if extra > 2 {
            aligned = false;
        }
    }
    if !stuck {
        while ctl.state(C) == TState::Parked {
            // final lost-wake-up observation was already recorded by note_quiescent
            if ctl.step(C, Cmd::Cancel).is_err() {
                stuck = true;
                break;
            }
            while ctl.runnable(C) {
                if ctl.step(C, Cmd::Step).is_err() {
                    stuck = true;
                    break;
                }
            }
            if stuck {
                break;
            }
        }
    }
    let mut trace = ctl.take_trace();
    trace.push(json!({"ev":"Wakes","n": wakes.count.load(Ordering::SeqCst)}));
    if stuck {
        trace.push(json!({"ev":"Stuck"}));
        // leak the threads: they are blocked in a gate forever
        std::mem::forget(hp);
        std::mem::forget(hc);
    } else {
        let _ = hp.join();
        let _ = hc.join();
    }
    (trace, aligned, stuck)
}

/// `c19 run <schedules.ndjson> <out.ndjson> <fine|coarse>`
pub fn cmd_run(args: &[String]) -> i32 {
    let inp = std::fs::File::open(&args[0]).expect("schedules file");
    let mut out = std::io::BufWriter::new(std::fs::File::create(&args[1]).expect("out file"));
    let fine = args.get(2).map(|s| s != "coarse").unwrap_or(true);
    let mut n = 0usize;
    let mut misaligned = 0usize;
    let mut stuck_n = 0usize;
    for line in std::io::BufReader::new(inp).lines() {
        let line = line.unwrap();
        if line.trim().is_empty() {
            continue;
        }
        let sched: Vec<String> = serde_json::from_str(&line).expect("schedule json");
        let (trace, aligned, stuck) = run_schedule(&sched, fine);
        n += 1;
        if !aligned {
            misaligned += 1;
        }
        if stuck {
            stuck_n += 1;
        }
        writeln!(out, "{}", json!({"ev":"Begin","n":n,"aligned":aligned,"sched":sched})).unwrap();
        for ev in trace {
            writeln!(out, "{}", ev).unwrap();
        }
        writeln!(out, "{}", json!({"ev":"Reset"})).unwrap();
    }
    out.flush().unwrap();
    println!("{}", json!({"schedules":n,"misaligned":misaligned,"stuck":stuck_n}));
    0
}

/// `c19 learn` — single-threaded pass over each code path; prints the hook event order per path.
pub fn cmd_learn(_args: &[String]) -> i32 {
    let paths: Vec<(&str, Vec<&str>)> = vec![
        ("push_then_recv", vec!["P:push", "P", "P", "P", "C:recv", "C", "C"]),
        ("recv_parks", vec!["C:recv", "C", "C", "C"]),
        ("sender_drop", vec!["P:drop", "P", "P"]),
        ("recv_after_drop", vec!["P:drop", "P", "P", "C:recv", "C", "C", "C"]),
        ("park_then_wake", vec!["C:recv", "C", "C", "C", "P:push", "P", "P", "P", "C", "C", "C", "C"]),
        ("modify_after_rdrop", vec!["C:drop", "P:push", "P"]),
    ];
    let mut res = serde_json::Map::new();
    for (name, s) in paths {
        let sched: Vec<String> = s.iter().map(|x| x.to_string()).collect();
        let (trace, _aligned, _stuck) = run_schedule(&sched, true);
        let names: Vec<Value> = trace
            .iter()
            .filter(|e| e.get("src").is_some())
            .map(|e| {
                let mut s = e["ev"].as_str().unwrap().to_string();
                for k in ["v", "some"] {
                    if let Some(v) = e.get(k) {
                        s.push_str(&format!("({})", v));
                    }
                }
                json!(s)
            })
            .collect();
        res.insert(name.to_string(), Value::Array(names));
    }
    println!("{}", Value::Object(res));
    0
}

/// `c19 stress <runs> <seed> <out.ndjson>` — free-running two-thread runs, no gates, no hooks:
/// producer pushes ids then drops; consumer receives until None. Records only call/return facts
/// that need no cross-thread ordering: the consumer's received sequence.
pub fn cmd_stress(args: &[String]) -> i32 {
    let runs: usize = args[0].parse().unwrap();
    let seed: u64 = args[1].parse().unwrap();
    let mut out = std::io::BufWriter::new(std::fs::File::create(&args[2]).unwrap());
    use rand::{Rng, SeedableRng};
    let mut rng = rand::rngs::StdRng::seed_from_u64(seed);
    let rt = tokio::runtime::Builder::new_multi_thread().worker_threads(2).enable_time().build().unwrap();
    let mut hangs = 0;
    for run in 0..runs {
        let n: u32 = rng.random_range(1..60);
        let yield_mask: u32 = rng.random();
        let cancel_every: u32 = rng.random_range(0..4);
        let (mut tx, mut rx) = channel::<T>();
        let res = rt.block_on(async move {
            let prod = tokio::spawn(async move {
                for i in 1..=n {
                    // a failing modify (the consumer is gone: it was told None too early) is data: the record then lacks updates
                    if tx.modify(|slot| slot.get_or_insert_with(Vec::new).push(i)).is_err() {
                        break;
                    }
                    if (yield_mask >> (i % 32)) & 1 == 1 {
                        tokio::task::yield_now().await;
                    }
                }
                drop(tx);
            });
            let cons = tokio::spawn(async move {
                let mut got: Vec<Vec<u32>> = Vec::new();
                let mut k = 0u32;
                loop {
                    k += 1;
                    if cancel_every > 0 && k % (cancel_every + 1) == 0 {
                        // start a recv and cancel it at its first Pending (cancel-safety)
                        let fut = rx.recv();
                        tokio::pin!(fut);
                        let r = futures::future::poll_fn(|cx| match fut.as_mut().poll(cx) {
                            Poll::Ready(v) => Poll::Ready(Some(v)),
                            Poll::Pending => Poll::Ready(None),
                        })
                        .await;
                        match r {
                            Some(Some(v)) => {
                                got.push(v);
                                continue;
                            }
                            Some(None) => break,
                            None => continue,
                        }
                    }
                    match rx.recv().await {
                        Some(v) => got.push(v),
                        None => break,
                    }
                }
                got
            });
            let r = tokio::time::timeout(std::time::Duration::from_secs(20), async {
                prod.await.unwrap();
                cons.await.unwrap()
            })
            .await;
            r.ok()
        });
        match res {
            Some(got) => {
                writeln!(out, "{}", json!({"ev":"Stress","run":run,"n":n,"got":got,"hang":0})).unwrap();
            }
            None => {
                hangs += 1;
                writeln!(out, "{}", json!({"ev":"Stress","run":run,"n":n,"got":[],"hang":1})).unwrap();
            }
        }
    }
    out.flush().unwrap();
    println!("{}", json!({"runs":runs,"hangs":hangs}));
    0
}

/// `c19 merge <sequences.ndjson> <out.ndjson>`: sequences of MetadataUpdate merges (full fetches, partial topology
/// fetches, status hints) interleaved with takes, applied to the REAL `merge_*` constructors through the verif hook;
/// one output line per input line: what every take (and the final drain) received.
/// Input: {"ops":[{"op":"full","peers":[..],"refresh":0|1}|{"op":"topo","peers":[..]}|{"op":"up","n":i}|{"op":"down","n":i}|{"op":"take"}...]}
pub fn cmd_merge(args: &[String]) -> i32 {
    use scylla::cluster::verif_update_hooks::{VOp, run};
    use serde_json::{Value, json};
    use std::io::{BufRead, Write};
    if args.len() != 2 {
        eprintln!("usage: vh-driver c19 merge <sequences.ndjson> <out.ndjson>");
        return 2;
    }
    let inp = match std::fs::File::open(&args[0]) {
        Ok(f) => std::io::BufReader::new(f),
        Err(e) => {
            eprintln!("open {}: {e}", args[0]);
            return 2;
        }
    };
    let mut out = match std::fs::File::create(&args[1]) {
        Ok(f) => std::io::BufWriter::new(f),
        Err(e) => {
            eprintln!("create {}: {e}", args[1]);
            return 2;
        }
    };
    let ids = |v: &Value| -> Vec<u8> { v.as_array().map(|a| a.iter().filter_map(|x| x.as_u64()).map(|x| x as u8).collect()).unwrap_or_default() };
    let mut lines = 0u64;
    for line in inp.lines() {
        let Ok(line) = line else { return 2 };
        if line.trim().is_empty() {
            continue;
        }
        let v: Value = match serde_json::from_str(&line) {
            Ok(v) => v,
            Err(e) => {
                eprintln!("bad line: {e}");
                return 2;
            }
        };
        let mut ops = Vec::new();
        for o in v["ops"].as_array().cloned().unwrap_or_default() {
            ops.push(match o["op"].as_str().unwrap_or("") {
                "full" => VOp::Full { peers: ids(&o["peers"]), refresh: o["refresh"].as_u64() == Some(1) },
                "topo" => VOp::Topology { peers: ids(&o["peers"]) },
                "up" => VOp::Up(o["n"].as_u64().unwrap_or(0) as u8),
                "down" => VOp::Down(o["n"].as_u64().unwrap_or(0) as u8),
                "take" => VOp::Take,
                other => {
                    eprintln!("unknown op {other:?}");
                    return 2;
                }
            });
        }
        let taken = match std::panic::catch_unwind(|| run(&ops)) {
            Ok(t) => t
                .into_iter()
                .map(|t| {
                    json!({"kind": t.kind, "has_peers": t.peers.is_some() as u8, "peers": t.peers.unwrap_or_default(), "refresh": t.refresh_responses,
                           "hints": t.hints.iter().map(|(n, up)| json!([n, *up as u8])).collect::<Vec<_>>()})
                })
                .collect::<Vec<_>>(),
            Err(_) => vec![json!({"kind": "panic", "has_peers": 0, "peers": [], "refresh": 0, "hints": [], "panic": crate::last_panic()})],
        };
        if writeln!(out, "{}", json!({"ops": v["ops"], "taken": taken})).is_err() {
            return 2;
        }
        lines += 1;
    }
    let _ = out.flush();
    println!("{}", json!({"cmd": "c19-merge", "lines": lines}));
    0
}
