//! `vh-driver c20 run <scripts.ndjson> <out.ndjson>` (see ../C20.md): scripts of `use_keyspace` calls, requests,
//! connection kills, node restarts and node additions against the in-process mock cluster; for every user
//! request the keyspace acknowledged on the connection that carried it is recorded. Record only.

use std::collections::{BTreeMap, BTreeSet, HashMap, HashSet};
use std::io::{BufRead, Write};
use std::net::{Ipv4Addr, SocketAddr};
use std::num::NonZeroUsize;
use std::sync::{Arc, Mutex};
use std::time::{Duration, Instant};

use serde_json::{Value, json};

use crate::mock::{Action, MockCluster, MockColumn, MockConfig, MockKeyspace, MockNodeCfg, MockTable, Reply, Request, type_bytes};

const PORT: u16 = 19420;
const SA_PORT: u16 = 19520;
const MSB: u8 = 12;
const SELECT_PREFIX: &str = "SELECT v FROM t WHERE pk = ";

// ---------------------------------------------------------------------------------------------
// Script
// ---------------------------------------------------------------------------------------------

#[derive(Clone, Debug)]
struct Script {
    id: Value,
    shards: Vec<u16>,
    per_shard: bool,
    pool_n: usize,
    use_delay_ms: u64,
    use_reject: u64,
    /// how many pool-level USE queries (from the first use step on) are answered with RESULT Void instead of SET_KEYSPACE
    use_void: u64,
    /// index of a node that owns no tokens (a zero-token node), or -1
    zero_token: i64,
    slow_use_node: i64,
    slow_use_ms: u64,
    conn_timeout_ms: u64,
    steps: Vec<Value>,
}

fn node_ip(i: usize) -> Ipv4Addr {
    Ipv4Addr::new(127, 0, 20, (i + 1) as u8)
}

fn host_id(i: usize) -> uuid::Uuid {
    uuid::Uuid::from_u128((0xC20u128 << 64) | (i as u128 + 1))
}

/// Four distinct tokens per node, interleaved over the ring; distinct for up to 16 nodes.
fn node_tokens(i: usize) -> Vec<i64> {
    (0..4i64).map(|j| ((j * 16 + i as i64) << 57).wrapping_add(i64::MIN)).collect()
}

fn parse_script(v: &Value) -> Result<Script, String> {
    let mut shards = Vec::new();
    for n in v["nodes"].as_array().ok_or("nodes missing")? {
        shards.push(n["shards"].as_u64().ok_or("node shards missing")? as u16);
    }
    if shards.is_empty() || shards.len() > 8 {
        return Err("bad number of nodes".into());
    }
    let steps = v["steps"].as_array().ok_or("steps missing")?.clone();
    let mut nodes_now = shards.len();
    for s in &steps {
        let need_ks = |s: &Value| s["ks"].as_str().map(|_| ()).ok_or("step without ks");
        let need_n = |s: &Value| s["n"].as_u64().map(|_| ()).ok_or("step without n");
        match s["op"].as_str() {
            Some("use") => need_ks(s)?,
            Some("req") => need_n(s)?,
            Some("use_and_req") => {
                need_ks(s)?;
                need_n(s)?
            }
            Some("kill") => {
                let i = s["node"].as_u64().ok_or("kill without node")? as usize;
                if i >= nodes_now {
                    return Err(format!("kill: node {i} does not exist at that point"));
                }
                if !matches!(s["which"].as_str(), Some("all") | Some("one")) {
                    return Err("kill: which must be all or one".into());
                }
            }
            Some("restart") => {
                let i = s["node"].as_u64().ok_or("restart without node")? as usize;
                if i >= nodes_now {
                    return Err(format!("restart: node {i} does not exist at that point"));
                }
            }
            Some("add_node") => {
                nodes_now += 1;
                if nodes_now > 16 {
                    return Err("too many add_node steps".into());
                }
            }
            Some("sleep") => {
                s["ms"].as_u64().ok_or("sleep without ms")?;
            }
            Some("stop") | Some("start") | Some("refuse") => {
                s["node"].as_u64().ok_or("stop / start / refuse without node")?;
            }
            Some("name") => {
                s["name"].as_str().ok_or("name step without name")?;
            }
            other => return Err(format!("unknown op {other:?}")),
        }
    }
    Ok(Script {
        id: v["id"].clone(),
        shards,
        per_shard: match v["pool"]["kind"].as_str() {
            Some("per_shard") => true,
            Some("per_host") => false,
            other => return Err(format!("unknown pool kind {other:?}")),
        },
        pool_n: v["pool"]["n"].as_u64().filter(|n| *n > 0).ok_or("pool n missing or 0")? as usize,
        use_delay_ms: v["use_delay_ms"].as_u64().unwrap_or(0),
        use_reject: v["use_reject"].as_u64().unwrap_or(0),
        use_void: v["use_void"].as_u64().unwrap_or(0),
        zero_token: v["zero_token"].as_i64().unwrap_or(-1),
        slow_use_node: v["slow_use_node"].as_i64().unwrap_or(-1),
        slow_use_ms: v["slow_use_ms"].as_u64().unwrap_or(0),
        conn_timeout_ms: v["conn_timeout_ms"].as_u64().unwrap_or(0),
        steps,
    })
}

fn node_cfg(i: usize, shards: u16) -> MockNodeCfg {
    MockNodeCfg {
        ip: node_ip(i),
        host_id: host_id(i),
        dc: "dc1".into(),
        rack: "r1".into(),
        tokens: node_tokens(i),
        nr_shards: if shards == 0 { None } else { Some(shards) },
        msb_ignore: MSB,
        metadata_id_ext: false,
        tablets_ext: false,
        lwt_mark: false,
    }
}

fn mock_config(sc: &Script) -> MockConfig {
    let ks = |name: &str| MockKeyspace {
        name: name.into(),
        replication: vec![("class".to_string(), "org.apache.cassandra.locator.SimpleStrategy".to_string()), ("replication_factor".to_string(), "1".to_string())],
        tablets: false,
        tables: vec![MockTable {
            name: "t".into(),
            columns: vec![
                MockColumn { name: "pk".into(), kind: "partition_key".into(), position: 0, typ: "int".into() },
                MockColumn { name: "v".into(), kind: "regular".into(), position: -1, typ: "int".into() },
            ],
            partitioner: Some("org.apache.cassandra.dht.Murmur3Partitioner".into()),
        }],
    };
    MockConfig {
        port: PORT,
        shard_aware_port: Some(SA_PORT),
        nodes: sc
            .shards
            .iter()
            .enumerate()
            .map(|(i, s)| {
                let mut n = node_cfg(i, *s);
                if i as i64 == sc.zero_token {
                    n.tokens = vec![]; // a member that owns no part of the ring
                }
                n
            })
            .collect(),
        keyspaces: vec![ks("ks1"), ks("ks2"), ks("ks3")],
        system_page_size_override: None,
    }
}

// ---------------------------------------------------------------------------------------------
// Handler
// ---------------------------------------------------------------------------------------------

fn is_use(text: &str) -> bool {
    let t = text.trim_start();
    t.len() >= 4 && t[..3].eq_ignore_ascii_case("use") && t.as_bytes()[3].is_ascii_whitespace()
}

/// `USE <name>` -> the name the server acknowledges: quoted names verbatim (quotes stripped), unquoted
/// names lowercased (what a CQL server does).
fn use_name(text: &str) -> String {
    let t = text.trim().trim_end_matches(';').trim();
    let name = t[3.min(t.len())..].trim();
    if name.len() >= 2 && name.starts_with('"') && name.ends_with('"') { name[1..name.len() - 1].to_string() } else { name.to_ascii_lowercase() }
}

/// `reject`: how many USE queries (counted from the first `use` step on) the cluster answers with an ERROR Invalid;
/// `slow_node` / `slow_ms`: that node answers USE only after `slow_ms` (longer than the session's connection timeout).
/// set when the script reaches its first use step (rejections / slowness apply from then on)
static ARMED: std::sync::atomic::AtomicBool = std::sync::atomic::AtomicBool::new(false);

fn make_handler(use_delay_ms: u64, reject: u64, void: u64, slow_node: i64, slow_ms: u64) -> crate::mock::Handler {
    let int = type_bytes("int").expect("type int");
    let rejected = std::sync::atomic::AtomicU64::new(0);
    let voided = std::sync::atomic::AtomicU64::new(0);
    Arc::new(move |req: &Request| -> Action {
        if req.opcode != 0x07 {
            return Action::Reply(Reply::Void);
        }
        let text = req.query.as_deref().unwrap_or("");
        if is_use(text) {
            // The mock remembers the keyspace for the connection when this SetKeyspace answer is written,
            // i.e. after the delay.
            // pool-level USE frames only (the session is up before the first use step): reject the first `reject` of them
            if reject > 0 && ARMED.load(std::sync::atomic::Ordering::SeqCst) && rejected.fetch_add(1, std::sync::atomic::Ordering::SeqCst) < reject {
                return Action::Reply(Reply::Error { code: 0x2200, message: "scripted: keyspace not known yet".into(), extra: vec![] });
            }
            // ... or answer the first `void` of them with a RESULT that is no error but does not acknowledge a keyspace either
            if void > 0 && ARMED.load(std::sync::atomic::Ordering::SeqCst) && voided.fetch_add(1, std::sync::atomic::Ordering::SeqCst) < void {
                return Action::Reply(Reply::Void);
            }
            let reply = Action::Reply(Reply::SetKeyspace(use_name(text)));
            if slow_node >= 0 && req.node as i64 == slow_node && ARMED.load(std::sync::atomic::Ordering::SeqCst) {
                return Action::DelayMs(slow_ms, Box::new(reply));
            }
            return if use_delay_ms == 0 { reply } else { Action::DelayMs(use_delay_ms, Box::new(reply)) };
        }
        if let Some(uid) = text.strip_prefix(SELECT_PREFIX).and_then(|r| r.trim().parse::<i32>().ok()) {
            return Action::Reply(Reply::Rows {
                cols: vec![("v".to_string(), int.clone())],
                ks: req.keyspace_at_arrival.clone().unwrap_or_else(|| "ks1".to_string()),
                table: "t".into(),
                rows: vec![vec![Some(uid.to_be_bytes().to_vec())]],
                paging_state: None,
                no_metadata: false,
                new_metadata_id: None,
            });
        }
        Action::Reply(Reply::Void)
    })
}

// ---------------------------------------------------------------------------------------------
// Bookkeeping of use calls vs. requests
// ---------------------------------------------------------------------------------------------

#[derive(Default)]
struct Tracker {
    /// use calls started and not yet returned
    uses_in_flight: BTreeSet<usize>,
    /// index of the last use call that returned Ok (0 = none)
    last_ok: usize,
    /// requests issued and not yet completed -> use calls seen in flight since the request was issued
    reqs_in_flight: HashMap<u64, BTreeSet<usize>>,
}

impl Tracker {
    fn use_start(&mut self, j: usize) {
        self.uses_in_flight.insert(j);
        for s in self.reqs_in_flight.values_mut() {
            s.insert(j);
        }
    }
    fn use_end(&mut self, j: usize, ok: bool) {
        self.uses_in_flight.remove(&j);
        if ok {
            self.last_ok = j;
        }
    }
    fn req_issue(&mut self, uid: u64) -> usize {
        self.reqs_in_flight.insert(uid, self.uses_in_flight.clone());
        self.last_ok
    }
    fn req_done(&mut self, uid: u64) -> Vec<usize> {
        self.reqs_in_flight.remove(&uid).map(|s| s.into_iter().collect()).unwrap_or_default()
    }
}

struct ReqRes {
    uid: u64,
    ok: bool,
    err: String,
    issued_after_use: usize,
    concurrent_use: Vec<usize>,
}

struct UseRes {
    ok: bool,
    err: String,
    bad_name: bool,
}

impl UseRes {
    fn json(&self) -> Value {
        json!({"ok": self.ok as u8, "err": self.err, "err_kind": if self.ok { "" } else if self.bad_name { "bad_name" } else { "other" }})
    }
}

fn use_res(r: Result<(), scylla::errors::UseKeyspaceError>) -> UseRes {
    match r {
        Ok(()) => UseRes { ok: true, err: String::new(), bad_name: false },
        Err(e) => UseRes { ok: false, err: format!("{e}"), bad_name: format!("{e:?}").contains("BadKeyspaceName") },
    }
}

async fn one_req(session: &scylla::client::session::Session, tr: &Mutex<Tracker>, uid: u64) -> ReqRes {
    let text = format!("{SELECT_PREFIX}{uid}");
    // "Issued" = the bookkeeping state right before query_unpaged is called and first polled.
    let issued_after_use = tr.lock().unwrap().req_issue(uid);
    let r = session.query_unpaged(text, ()).await;
    let concurrent_use = tr.lock().unwrap().req_done(uid);
    let (ok, err) = match r {
        Ok(_) => (true, String::new()),
        Err(e) => (false, format!("{e}")),
    };
    ReqRes { uid, ok, err, issued_after_use, concurrent_use }
}

async fn one_use(session: &scylla::client::session::Session, tr: &Mutex<Tracker>, j: usize, ks: &str, raw: bool) -> UseRes {
    tr.lock().unwrap().use_start(j);
    // raw: the application runs the statement `USE "<ks>"` itself (the driver follows the SET_KEYSPACE answer)
    let r = if raw {
        match session.query_unpaged(format!("USE \"{ks}\""), ()).await {
            Ok(_) => UseRes { ok: true, err: String::new(), bad_name: false },
            Err(e) => UseRes { ok: false, err: e.to_string().chars().take(200).collect(), bad_name: false },
        }
    } else {
        use_res(session.use_keyspace(ks, false).await)
    };
    tr.lock().unwrap().use_end(j, r.ok);
    r
}

// ---------------------------------------------------------------------------------------------
// One script
// ---------------------------------------------------------------------------------------------

fn shard_json(v: &Value) -> Value {
    if v.is_null() { json!(-1) } else { v.clone() }
}

fn ks_json(v: &Value) -> Value {
    match v.as_str() {
        Some(s) => json!(s),
        None => json!("none"),
    }
}

/// Connection ids that sent a REGISTER frame (= control connections; they never carry user requests).
fn control_conns(log: &[Value]) -> HashSet<u64> {
    log.iter().filter(|e| e["dir"] == "in" && e["opcode"] == 0x0B).filter_map(|e| e["conn"].as_u64()).collect()
}

fn pool_full(sc: &Script, node: usize, conns: &[(u64, Option<u16>, u16)], control: &HashSet<u64>) -> bool {
    let shards = sc.shards[node];
    let pool: Vec<Option<u16>> = conns.iter().filter(|(id, _, _)| !control.contains(id)).map(|(_, s, _)| *s).collect();
    if shards > 0 && sc.per_shard { (0..shards).all(|s| pool.iter().filter(|x| **x == Some(s)).count() >= sc.pool_n) } else { pool.len() >= sc.pool_n }
}

/// True iff some USE query was received on a still open connection and not answered yet.
fn use_outstanding(log: &[Value]) -> bool {
    let mut pending: HashSet<(u64, i64)> = HashSet::new();
    for e in log {
        let Some(c) = e["conn"].as_u64() else { continue };
        if e["ev"] == "close" {
            pending.retain(|(pc, _)| *pc != c);
        } else if e["dir"] == "in" && e["opcode"] == 0x07 && e["query"].as_str().is_some_and(is_use) {
            pending.insert((c, e["stream"].as_i64().unwrap_or(0)));
        } else if e["dir"] == "out" {
            pending.remove(&(c, e["stream"].as_i64().unwrap_or(0)));
        }
    }
    !pending.is_empty()
}

fn empty_output(id: &Value, err: String) -> Value {
    json!({"id": id, "start_err": err, "steps": [], "uses": [], "final_conns": []})
}

async fn run_script(sc: &Script) -> Value {
    // Ports are reused from the previous script: retry binding for up to 3 s.
    let t0 = Instant::now();
    let mock = loop {
        crate::mock::REFUSE_NODE.store(-1, std::sync::atomic::Ordering::SeqCst);
        match MockCluster::try_start(mock_config(sc), make_handler(sc.use_delay_ms, sc.use_reject, sc.use_void, sc.slow_use_node, sc.slow_use_ms)).await {
            Ok(m) => break m,
            Err(_) if t0.elapsed() < Duration::from_secs(3) => tokio::time::sleep(Duration::from_millis(50)).await,
            Err(e) => return empty_output(&sc.id, format!("mock start: {e}")),
        }
    };
    mock.set_intercept_use(true);
    let out = run_with_mock(sc, &mock).await;
    mock.shutdown().await;
    out
}

async fn start_node_retrying(mock: &MockCluster, i: usize) -> Result<(), String> {
    let t0 = Instant::now();
    loop {
        match mock.try_start_node(i).await {
            Ok(()) => return Ok(()),
            Err(_) if t0.elapsed() < Duration::from_secs(3) => tokio::time::sleep(Duration::from_millis(20)).await,
            Err(e) => return Err(format!("{e}")),
        }
    }
}

struct StepOut {
    step: Value,
    use_: Option<UseRes>,
    reqs: Vec<ReqRes>,
    use_frames: Vec<Value>,
}

async fn run_with_mock(sc: &Script, mock: &MockCluster) -> Value {
    use scylla::client::PoolSize;
    use scylla::client::execution_profile::ExecutionProfile;
    use scylla::client::session_builder::SessionBuilder;

    let verbose = std::env::var("C20_VERBOSE").is_ok();
    let profile = ExecutionProfile::builder().request_timeout(Some(Duration::from_secs(3))).speculative_execution_policy(None).build();
    let n = NonZeroUsize::new(sc.pool_n).expect("pool n > 0");
    ARMED.store(false, std::sync::atomic::Ordering::SeqCst);
    let mut sb = SessionBuilder::new();
    if sc.conn_timeout_ms > 0 {
        sb = sb.connection_timeout(Duration::from_millis(sc.conn_timeout_ms));
    }
    let session = match sb
        .known_node(mock.contact_point(0))
        .pool_size(if sc.per_shard { PoolSize::PerShard(n) } else { PoolSize::PerHost(n) })
        .default_execution_profile_handle(profile.into_handle())
        .build()
        .await
    {
        Ok(s) => s,
        Err(e) => return empty_output(&sc.id, format!("session build: {e}")),
    };

    // Wait until the pools of the initial nodes are full (at most 5 s).
    let t0 = Instant::now();
    let full = || {
        let control = control_conns(&mock.log());
        (0..sc.shards.len()).all(|i| pool_full(sc, i, &mock.open_connections(i), &control))
    };
    while !full() && t0.elapsed() < Duration::from_secs(5) {
        tokio::time::sleep(Duration::from_millis(10)).await;
    }
    if verbose {
        eprintln!("c20: script {}: pools full = {} after {} ms", sc.id, full(), t0.elapsed().as_millis());
    }

    let tracker = Mutex::new(Tracker::default());
    let mut next_uid: u64 = 1;
    let mut next_use: usize = 1;
    let mut uses: Vec<Value> = Vec::new();
    let mut steps_out: Vec<StepOut> = Vec::new();
    // Log position up to which USE frames have been attributed to a step (the slices are contiguous).
    let mut log_pos: usize = 0;
    let mut harness_err = String::new();

    for step in &sc.steps {
        let mut so = StepOut { step: step.clone(), use_: None, reqs: Vec::new(), use_frames: Vec::new() };
        let mut take_uids = |k: u64| -> Vec<u64> {
            let v: Vec<u64> = (next_uid..next_uid + k).collect();
            next_uid += k;
            v
        };
        match step["op"].as_str().unwrap_or("") {
            "use" => {
                ARMED.store(true, std::sync::atomic::Ordering::SeqCst);
                let ks = step["ks"].as_str().unwrap_or("");
                let j = next_use;
                next_use += 1;
                let r = one_use(&session, &tracker, j, ks, step["raw"].as_u64() == Some(1)).await;
                uses.push(json!({"index": j, "ks": ks, "ok": r.ok as u8}));
                so.use_ = Some(r);
            }
            "req" => {
                let uids = take_uids(step["n"].as_u64().unwrap_or(0));
                so.reqs = futures::future::join_all(uids.iter().map(|u| one_req(&session, &tracker, *u))).await;
            }
            "use_and_req" => {
                let ks = step["ks"].as_str().unwrap_or("");
                let j = next_use;
                next_use += 1;
                let uids = take_uids(step["n"].as_u64().unwrap_or(0));
                // The use call is polled first (it starts), then the requests, all from this task; nothing is
                // awaited in between.
                let (r, reqs) = tokio::join!(one_use(&session, &tracker, j, ks, false), futures::future::join_all(uids.iter().map(|u| one_req(&session, &tracker, *u))));
                uses.push(json!({"index": j, "ks": ks, "ok": r.ok as u8}));
                so.use_ = Some(r);
                so.reqs = reqs;
            }
            "kill" => {
                let node = step["node"].as_u64().unwrap_or(0) as usize;
                let rst = step["rst"].as_u64().unwrap_or(0) != 0;
                let killed = if step["which"] == "all" {
                    mock.kill_connections(node, &|_, _| true, rst)
                } else {
                    let control = control_conns(&mock.log());
                    match mock.open_connections(node).iter().map(|(id, _, _)| *id).find(|id| !control.contains(id)) {
                        Some(victim) => mock.kill_connections(node, &|id, _| id == victim, rst),
                        None => 0,
                    }
                };
                if verbose {
                    eprintln!("c20: script {}: kill {step}: {killed} connection(s)", sc.id);
                }
            }
            "restart" => {
                let node = step["node"].as_u64().unwrap_or(0) as usize;
                mock.stop_node(node).await;
                tokio::time::sleep(Duration::from_millis(100)).await;
                if let Err(e) = start_node_retrying(mock, node).await {
                    harness_err = format!("restart node {node}: {e}");
                }
            }
            // the node stops / resumes accepting NEW connections (established ones are untouched)
            "refuse" => {
                let node = step["node"].as_i64().unwrap_or(0) as i32;
                crate::mock::REFUSE_NODE.store(if step["on"].as_u64() == Some(1) { node } else { -1 }, std::sync::atomic::Ordering::SeqCst);
            }
            // the two halves of a restart as separate steps, so that a use call can fall in between
            "stop" => {
                let node = step["node"].as_u64().unwrap_or(0) as usize;
                mock.stop_node(node).await;
            }
            "start" => {
                let node = step["node"].as_u64().unwrap_or(0) as usize;
                if let Err(e) = start_node_retrying(mock, node).await {
                    harness_err = format!("start node {node}: {e}");
                }
            }
            "add_node" => {
                let mut cfg = mock.config();
                let k = cfg.nodes.len();
                cfg.nodes.push(node_cfg(k, sc.shards[0]));
                mock.set_config(cfg);
                match start_node_retrying(mock, k).await {
                    Ok(()) => {
                        // The event reaches only connections that REGISTERed; if the control connection has just
                        // been killed there is none for a moment: retry for at most 2 s so that the step is not moot.
                        let t0 = Instant::now();
                        let reached = loop {
                            let r = mock.send_event("TOPOLOGY_CHANGE", "NEW_NODE", SocketAddr::from((node_ip(k), PORT)));
                            if r > 0 || t0.elapsed() >= Duration::from_secs(2) {
                                break r;
                            }
                            tokio::time::sleep(Duration::from_millis(10)).await;
                        };
                        if verbose {
                            eprintln!("c20: script {}: add_node {k} ({}): NEW_NODE sent to {reached} connection(s)", sc.id, node_ip(k));
                        }
                    }
                    Err(e) => harness_err = format!("add_node {k}: {e}"),
                }
            }
            "sleep" => tokio::time::sleep(Duration::from_millis(step["ms"].as_u64().unwrap_or(0))).await,
            "name" => {
                let name = step["name"].as_str().unwrap_or("");
                let case_sensitive = step["cs"].as_u64().map(|c| c != 0).unwrap_or(true);
                so.use_ = Some(use_res(session.use_keyspace(name, case_sensitive).await));
            }
            _ => {}
        }
        let log = mock.log();
        so.use_frames = log[log_pos.min(log.len())..]
            .iter()
            .filter(|e| e["dir"] == "in" && e["opcode"] == 0x07 && e["query"].as_str().is_some_and(is_use))
            .map(|e| json!({"seq": e["seq"], "node": e["node"], "conn": e["conn"], "text": e["query"]}))
            .collect();
        log_pos = log.len();
        steps_out.push(so);
        if !harness_err.is_empty() {
            break;
        }
    }

    // Final state. USE queries the mock has received but (because of use_delay_ms) not yet answered are allowed to
    // complete first (at most 1 s), so that `final_conns` is not a snapshot of a half-acknowledged USE.
    let t0 = Instant::now();
    while use_outstanding(&mock.log()) && t0.elapsed() < Duration::from_secs(1) {
        tokio::time::sleep(Duration::from_millis(10)).await;
    }
    let log = mock.log();
    // USE queries that arrived during that wait count for the last step.
    if let Some(last) = steps_out.last_mut() {
        last.use_frames.extend(
            log[log_pos.min(log.len())..]
                .iter()
                .filter(|e| e["dir"] == "in" && e["opcode"] == 0x07 && e["query"].as_str().is_some_and(is_use))
                .map(|e| json!({"seq": e["seq"], "node": e["node"], "conn": e["conn"], "text": e["query"]})),
        );
    }
    let control = control_conns(&log);
    let mut last_ks: HashMap<u64, Value> = HashMap::new();
    let mut frames: BTreeMap<u64, Vec<Value>> = BTreeMap::new();
    for e in &log {
        if e["dir"].is_string()
            && let Some(c) = e["conn"].as_u64()
        {
            last_ks.insert(c, ks_json(&e["ks"]));
        }
        if e["dir"] == "in"
            && e["opcode"] == 0x07
            && let Some(uid) = e["query"].as_str().and_then(|q| q.strip_prefix(SELECT_PREFIX)).and_then(|r| r.trim().parse::<u64>().ok())
        {
            frames.entry(uid).or_default().push(json!({"seq": e["seq"], "node": e["node"], "conn": e["conn"], "shard": shard_json(&e["shard"]), "ks": ks_json(&e["ks"])}));
        }
    }
    let nodes_now = mock.config().nodes.len();
    let mut final_conns = Vec::new();
    for i in 0..nodes_now {
        for (id, shard, _) in mock.open_connections(i) {
            if !control.contains(&id) {
                final_conns.push(json!({"node": i, "conn": id, "shard": shard.map(|s| s as i64).unwrap_or(-1), "ks": last_ks.get(&id).cloned().unwrap_or(json!("none"))}));
            }
        }
    }
    if verbose {
        for i in 0..nodes_now {
            let accepted = log.iter().filter(|e| e["ev"] == "accept" && e["node"] == i).count();
            eprintln!("c20: script {}: node {i}: {accepted} connection(s) accepted in total, {} open at the end", sc.id, mock.open_connection_count(i));
        }
    }
    drop(session);

    let steps: Vec<Value> = steps_out
        .into_iter()
        .map(|so| {
            let reqs: Vec<Value> = so
                .reqs
                .iter()
                .map(|r| {
                    json!({"uid": r.uid, "ok": r.ok as u8, "err": r.err, "issued_after_use": r.issued_after_use, "concurrent_use": r.concurrent_use,
                           "frames": frames.get(&r.uid).cloned().unwrap_or_default()})
                })
                .collect();
            json!({"step": so.step, "use": so.use_.map(|u| u.json()).unwrap_or(json!("none")), "reqs": reqs, "use_frames": so.use_frames})
        })
        .collect();
    json!({"id": sc.id, "start_err": harness_err, "steps": steps, "uses": uses, "final_conns": final_conns})
}

// ---------------------------------------------------------------------------------------------
// Command
// ---------------------------------------------------------------------------------------------

pub fn cmd_run(args: &[String]) -> i32 {
    if args.len() < 2 {
        eprintln!("usage: vh-driver c20 run <scripts.ndjson> <out.ndjson>");
        return 2;
    }
    let inp = match std::fs::File::open(&args[0]) {
        Ok(f) => f,
        Err(e) => {
            eprintln!("c20: cannot open {}: {e}", args[0]);
            return 2;
        }
    };
    let mut out = match std::fs::File::create(&args[1]) {
        Ok(f) => std::io::BufWriter::new(f),
        Err(e) => {
            eprintln!("c20: cannot create {}: {e}", args[1]);
            return 2;
        }
    };
    let verbose = std::env::var("C20_VERBOSE").is_ok();
    let (mut lines, mut errors) = (0u64, 0u64);
    for line in std::io::BufReader::new(inp).lines() {
        let line = match line {
            Ok(l) => l,
            Err(e) => {
                eprintln!("c20: read error: {e}");
                return 2;
            }
        };
        if line.trim().is_empty() {
            continue;
        }
        let t0 = Instant::now();
        let id_of = |v: &Value| if v["id"].is_null() { json!(-1) } else { v["id"].clone() };
        let result = match serde_json::from_str::<Value>(&line) {
            Err(e) => empty_output(&json!(-1), format!("bad script line: {e}")),
            Ok(v) => match parse_script(&v) {
                Err(e) => empty_output(&id_of(&v), format!("bad script: {e}")),
                Ok(mut sc) => {
                    sc.id = id_of(&v);
                    // A fresh runtime per script: dropping it kills every task of the Session and of the mock,
                    // so nothing of this script can talk to the next one's listeners.
                    let rt = tokio::runtime::Builder::new_multi_thread().worker_threads(2).enable_all().build().expect("tokio runtime");
                    let r = std::panic::catch_unwind(std::panic::AssertUnwindSafe(|| rt.block_on(async { tokio::time::timeout(Duration::from_secs(120), run_script(&sc)).await })));
                    rt.shutdown_timeout(Duration::from_secs(2));
                    match r {
                        Ok(Ok(v)) => v,
                        Ok(Err(_)) => empty_output(&sc.id, "script timed out after 120 s".into()),
                        Err(_) => empty_output(&sc.id, format!("panic: {}", crate::last_panic())),
                    }
                }
            },
        };
        if result["start_err"] != "" {
            errors += 1;
        }
        if verbose {
            eprintln!("c20: script {} took {} ms", result["id"], t0.elapsed().as_millis());
        }
        if writeln!(out, "{result}").is_err() {
            eprintln!("c20: write error");
            return 2;
        }
        lines += 1;
    }
    if out.flush().is_err() {
        eprintln!("c20: write error");
        return 2;
    }
    println!("{}", json!({"cmd": "c20", "lines": lines, "errors": errors}));
    0
}
