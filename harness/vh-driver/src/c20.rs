//! placeholder (to be implemented)
pub fn cmd_run(_args: &[String]) -> i32 {
    eprintln!("not implemented");
    2
}
