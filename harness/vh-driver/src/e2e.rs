//! `vh-driver e2e run <scenarios.ndjson> <out.ndjson>`: retries and speculative executions as the cluster sees them
//! (end-to-end halves of C06 and C13). One fresh 3-node mock cluster + Session per scenario; ONE request is issued; the
//! mock answers the successive frames of that request from the scenario's script (in arrival order) and records for each
//! frame: node, consistency, arrival time, answer time. Nothing is judged here.
//! Input: {"id":N,"kind":"query"|"execute"|"batch","idem":0|1,"policy":"default"|"downgrading"|"fallthrough",
//!         "policy_on":"profile"|"statement","cl":"One"|"Quorum"|"EachQuorum"|"LocalQuorum",
//!         "spec":{"max":k,"interval_ms":d} | {"max":0,"interval_ms":0},
//!         "script":[REPLY,...]}   REPLY = {"r":"ok"|"<fault name>","delay_ms":d}
//!   fault names: overloaded bootstrapping unavailable read_timeout read_timeout_incomplete write_timeout_batchlog
//!                write_timeout_simple server_error truncate read_failure write_failure invalid syntax unauthorized drop
//!                orphan_break (never answered; with "orphans":N the harness first sends N statements that are never answered and
//!                gives up on each after 60 ms, so that the driver itself breaks the connection under the request)
//!   frames beyond the script are answered "ok" at once.
//! Output: {"id":N,"start_err":"","ok":0|1,"err":"","frames":[{"i":k,"node":n,"cl":u16,"reply":name,"t_in":us,"t_out":us}...]}
use std::io::{BufRead, Write};
use std::net::Ipv4Addr;
use std::num::NonZeroUsize;
use std::sync::{Arc, Mutex};
use std::time::{Duration, Instant};

use serde_json::{Value, json};

use crate::mock::{Action, MockCluster, MockColumn, MockConfig, MockKeyspace, MockNodeCfg, MockTable, Reply, Request, stable_id, type_bytes};

const PORT: u16 = 19406;
const TEXT: &str = "UPDATE ks.t SET b = ? WHERE a = ?";

/// Load balancing for the orphan scenarios: the given hosts, in this order.
#[derive(Debug)]
struct InOrder {
    order: Vec<uuid::Uuid>,
}

impl scylla::policies::load_balancing::LoadBalancingPolicy for InOrder {
    fn pick<'a>(
        &'a self,
        _request: &'a scylla::policies::load_balancing::RoutingInfo,
        cluster: &'a scylla::cluster::ClusterState,
    ) -> Option<(scylla::cluster::NodeRef<'a>, Option<scylla::routing::Shard>)> {
        self.order.first().and_then(|id| cluster.get_nodes_info().iter().find(|n| n.host_id == *id)).map(|n| (n, None))
    }

    fn fallback<'a>(
        &'a self,
        _request: &'a scylla::policies::load_balancing::RoutingInfo,
        cluster: &'a scylla::cluster::ClusterState,
    ) -> scylla::policies::load_balancing::FallbackPlan<'a> {
        Box::new(self.order.iter().filter_map(move |id| cluster.get_nodes_info().iter().find(|n| n.host_id == *id)).map(|n| (n, None)))
    }

    fn name(&self) -> String {
        "E2EInOrder".to_string()
    }
}

struct Model {
    script: Vec<(String, u64)>,
    next: usize,
    t0: Instant,
    frames: Vec<Value>,
}

fn error(code: i32, extra: Vec<u8>) -> Reply {
    Reply::Error { code, message: "scripted".into(), extra }
}

fn string(s: &str) -> Vec<u8> {
    let mut v = vec![(s.len() >> 8) as u8, s.len() as u8];
    v.extend_from_slice(s.as_bytes());
    v
}

impl Model {
    fn handle(&mut self, req: &Request) -> Action {
        match req.opcode {
            9 => {
                let text = req.query.clone().unwrap_or_default();
                let int = type_bytes("int").unwrap();
                Action::Reply(Reply::Prepared { id: stable_id(text.as_bytes()), result_metadata_id: None, pk_indexes: vec![1], bind_cols: vec![("b".into(), int.clone()), ("a".into(), int)], result_cols: vec![], ks: "ks".into(), table: "t".into() })
            }
            // noise: statements the node never answers (they become orphaned stream ids once their callers give up); not recorded
            7 if req.query.as_deref().map(|q| q.contains("noise")).unwrap_or(false) => Action::Never,
            7 | 10 | 13 => {
                let (name, delay) = self.script.get(self.next).cloned().unwrap_or(("ok".into(), 0));
                let i = self.next;
                self.next += 1;
                let cl = if req.opcode == 13 { req.batch.as_ref().map(|b| b.consistency).unwrap_or(0) } else { req.consistency };
                let t_in = self.t0.elapsed().as_micros() as u64;
                self.frames.push(json!({"i": i, "node": req.node, "cl": cl, "reply": name, "t_in": t_in, "t_out": t_in + delay * 1000}));
                // <cl><received><blockfor>... bodies per the protocol
                let cl2 = [0u8, 1];
                let reply = match name.as_str() {
                    "ok" => Reply::Void,
                    "overloaded" => error(0x1001, vec![]),
                    "bootstrapping" => error(0x1002, vec![]),
                    "truncate" => error(0x1003, vec![]),
                    "server_error" => error(0x0000, vec![]),
                    "invalid" => error(0x2200, vec![]),
                    "syntax" => error(0x2000, vec![]),
                    "unauthorized" => error(0x2100, vec![]),
                    "unavailable" => error(0x1000, [&cl2[..], &[0, 0, 0, 2, 0, 0, 0, 1]].concat()),
                    // received 1 >= required 1, data_present 0  -> the default policy retries once on the same node
                    "read_timeout" => error(0x1200, [&cl2[..], &[0, 0, 0, 1, 0, 0, 0, 1, 0]].concat()),
                    // received 0 < required 1
                    "read_timeout_incomplete" => error(0x1200, [&cl2[..], &[0, 0, 0, 0, 0, 0, 0, 1, 0]].concat()),
                    "write_timeout_batchlog" => error(0x1100, [&cl2[..], &[0, 0, 0, 0, 0, 0, 0, 1], &string("BATCH_LOG")[..]].concat()),
                    "write_timeout_simple" => error(0x1100, [&cl2[..], &[0, 0, 0, 0, 0, 0, 0, 1], &string("SIMPLE")[..]].concat()),
                    "read_failure" => error(0x1300, [&cl2[..], &[0, 0, 0, 0, 0, 0, 0, 1, 0, 0, 0, 1, 0]].concat()),
                    "write_failure" => error(0x1500, [&cl2[..], &[0, 0, 0, 0, 0, 0, 0, 1, 0, 0, 0, 1], &string("SIMPLE")[..]].concat()),
                    "drop" => return Action::Reset,
                    // never answered: the connection is torn down by the driver itself once too many old orphaned stream ids
                    // have piled up on it (scenario field `orphans`)
                    "orphan_break" => return Action::Never,
                    _ => error(0x0000, vec![]),
                };
                if delay > 0 { Action::DelayMs(delay, Box::new(Action::Reply(reply))) } else { Action::Reply(reply) }
            }
            _ => Action::Reply(Reply::Void),
        }
    }
}

fn mock_config() -> MockConfig {
    MockConfig {
        port: PORT,
        shard_aware_port: None,
        nodes: (0..3)
            .map(|i| MockNodeCfg {
                ip: Ipv4Addr::new(127, 0, 6, i + 1),
                host_id: uuid::Uuid::from_u128((0xE2Eu128 << 64) | (i as u128 + 1)),
                dc: "dc1".into(),
                rack: "r1".into(),
                tokens: vec![(i as i64 - 1) * (1i64 << 62)],
                nr_shards: None,
                msb_ignore: 0,
                metadata_id_ext: false,
                tablets_ext: false,
                lwt_mark: false,
            })
            .collect(),
        keyspaces: vec![MockKeyspace {
            name: "ks".into(),
            replication: vec![("class".into(), "org.apache.cassandra.locator.SimpleStrategy".into()), ("replication_factor".into(), "3".into())],
            tablets: false,
            tables: vec![MockTable {
                name: "t".into(),
                columns: vec![
                    MockColumn { name: "a".into(), kind: "partition_key".into(), position: 0, typ: "int".into() },
                    MockColumn { name: "b".into(), kind: "regular".into(), position: -1, typ: "int".into() },
                ],
                partitioner: Some("org.apache.cassandra.dht.Murmur3Partitioner".into()),
            }],
        }],
        system_page_size_override: None,
    }
}

async fn run_scenario(sc: &Value) -> Value {
    use scylla::client::PoolSize;
    use scylla::client::execution_profile::ExecutionProfile;
    use scylla::client::session_builder::SessionBuilder;
    use scylla::policies::retry::{DefaultRetryPolicy, DowngradingConsistencyRetryPolicy, FallthroughRetryPolicy, RetryPolicy};
    use scylla::policies::speculative_execution::SimpleSpeculativeExecutionPolicy;
    use scylla::statement::Consistency;
    use scylla::statement::batch::{Batch, BatchType};
    use scylla::statement::unprepared::Statement;

    let id = sc["id"].clone();
    let fail = |e: String| json!({"id": id, "start_err": e, "ok": 0, "err": "", "frames": []});
    let script: Vec<(String, u64)> = sc["script"].as_array().cloned().unwrap_or_default().iter().map(|r| (r["r"].as_str().unwrap_or("ok").to_string(), r["delay_ms"].as_u64().unwrap_or(0))).collect();
    let model = Arc::new(Mutex::new(Model { script, next: 0, t0: Instant::now(), frames: vec![] }));
    let m2 = model.clone();
    let handler: crate::mock::Handler = Arc::new(move |req: &Request| m2.lock().unwrap().handle(req));
    let t0 = Instant::now();
    let mock = loop {
        match MockCluster::try_start(mock_config(), handler.clone()).await {
            Ok(m) => break m,
            Err(_) if t0.elapsed() < Duration::from_secs(3) => tokio::time::sleep(Duration::from_millis(50)).await,
            Err(e) => return fail(format!("mock start: {e}")),
        }
    };
    let policy: Arc<dyn RetryPolicy> = match sc["policy"].as_str().unwrap_or("default") {
        "downgrading" => Arc::new(DowngradingConsistencyRetryPolicy::new()),
        "fallthrough" => Arc::new(FallthroughRetryPolicy::new()),
        _ => Arc::new(DefaultRetryPolicy::new()),
    };
    let on_statement = sc["policy_on"].as_str() == Some("statement");
    let max = sc["spec"]["max"].as_u64().unwrap_or(0) as usize;
    let interval = sc["spec"]["interval_ms"].as_u64().unwrap_or(0);
    let mut pb = ExecutionProfile::builder().request_timeout(Some(Duration::from_secs(4)));
    if !on_statement {
        pb = pb.retry_policy(policy.clone());
    }
    pb = pb.speculative_execution_policy(if max > 0 { Some(Arc::new(SimpleSpeculativeExecutionPolicy { max_retry_count: max, retry_interval: Duration::from_millis(interval) })) } else { None });
    let session = match SessionBuilder::new()
        .known_node(mock.contact_point(0))
        .pool_size(PoolSize::PerHost(NonZeroUsize::new(1).unwrap()))
        .default_execution_profile_handle(pb.build().into_handle())
        .build()
        .await
    {
        Ok(s) => s,
        Err(e) => {
            mock.shutdown().await;
            return fail(format!("session build: {e}"));
        }
    };
    // all three nodes usable before the request
    let t1 = Instant::now();
    while !(session.get_cluster_state().get_nodes_info().len() == 3 && session.get_cluster_state().get_nodes_info().iter().all(|n| n.is_connected())) {
        if t1.elapsed() > Duration::from_secs(5) {
            drop(session);
            mock.shutdown().await;
            return fail("nodes not connected after 5 s".into());
        }
        tokio::time::sleep(Duration::from_millis(5)).await;
    }
    let cl = match sc["cl"].as_str().unwrap_or("Quorum") {
        "One" => Consistency::One,
        "EachQuorum" => Consistency::EachQuorum,
        "LocalQuorum" => Consistency::LocalQuorum,
        "Two" => Consistency::Two,
        _ => Consistency::Quorum,
    };
    let idem = sc["idem"].as_u64() == Some(1);
    let prepared = match session.prepare(TEXT).await {
        Ok(p) => p,
        Err(e) => {
            drop(session);
            mock.shutdown().await;
            return fail(format!("prepare: {e}"));
        }
    };
    // orphans: so many statements that are never answered and whose callers give up after 60 ms that ONE node's connection
    // carries more old orphaned stream ids than the driver tolerates (1024, older than 1 s); the request then goes to that node
    // first and has the other two (healthy) nodes behind it in its plan
    let orphans = sc["orphans"].as_u64().unwrap_or(0) as usize;
    let mut prepared = prepared;
    if orphans > 0 {
        let hosts: Vec<uuid::Uuid> = session.get_cluster_state().get_nodes_info().iter().map(|n| n.host_id).collect();
        let mut noise = Statement::new("SELECT noise FROM ks.t");
        noise.set_request_timeout(Some(Duration::from_millis(60)));
        noise.set_retry_policy(Some(Arc::new(FallthroughRetryPolicy::new())));
        noise.set_load_balancing_policy(Some(Arc::new(InOrder { order: vec![hosts[0]] })));
        prepared.set_load_balancing_policy(Some(Arc::new(InOrder { order: hosts.clone() })));
        let futs: Vec<_> = (0..orphans).map(|_| session.query_unpaged(noise.clone(), ())).collect();
        let _ = futures::future::join_all(futs).await;
    }
    {
        let mut m = model.lock().unwrap();
        m.frames.clear();
        m.next = 0;
        m.t0 = Instant::now();
    }
    let res: Result<(), String> = match sc["kind"].as_str().unwrap_or("") {
        k @ ("query" | "query_iter") => {
            let mut q = Statement::new("UPDATE ks.t SET b = 1 WHERE a = 1");
            q.set_is_idempotent(idem);
            q.set_consistency(cl);
            if on_statement {
                q.set_retry_policy(Some(policy.clone()));
            }
            if k == "query" {
                session.query_unpaged(q, ()).await.map(|_| ()).map_err(|e| e.to_string())
            } else {
                // the iterator API accepts any statement; creating the pager fetches the first page (with retries / speculation)
                session.query_iter(q, ()).await.map(|_| ()).map_err(|e| e.to_string())
            }
        }
        k @ ("execute" | "execute_iter") => {
            let mut p = prepared.clone();
            p.set_is_idempotent(idem);
            p.set_consistency(cl);
            if on_statement {
                p.set_retry_policy(Some(policy.clone()));
            }
            if k == "execute" {
                session.execute_unpaged(&p, (1, 1)).await.map(|_| ()).map_err(|e| e.to_string())
            } else {
                session.execute_iter(p, (1, 1)).await.map(|_| ()).map_err(|e| e.to_string())
            }
        }
        "batch" => {
            let mut b = Batch::new(BatchType::Logged);
            b.append_statement(prepared.clone());
            b.append_statement(prepared.clone());
            b.set_is_idempotent(idem);
            b.set_consistency(cl);
            if on_statement {
                b.set_retry_policy(Some(policy.clone()));
            }
            session.batch(&b, ((1, 1), (2, 2))).await.map(|_| ()).map_err(|e| e.to_string())
        }
        other => Err(format!("HARNESS: unknown kind {other:?}")),
    };
    // late speculative frames (the request already returned) still reach the mock: give them a moment
    tokio::time::sleep(Duration::from_millis(sc["settle_ms"].as_u64().unwrap_or(30))).await;
    let frames = model.lock().unwrap().frames.clone();
    drop(session);
    mock.shutdown().await;
    json!({"id": id, "start_err": "", "ok": res.is_ok() as u8, "err": res.err().map(|e| e.chars().take(200).collect::<String>()).unwrap_or_default(), "frames": frames})
}

pub fn cmd_run(args: &[String]) -> i32 {
    if args.len() != 2 {
        eprintln!("usage: vh-driver e2e run <scenarios.ndjson> <out.ndjson>");
        return 2;
    }
    let Ok(inp) = std::fs::File::open(&args[0]) else { return 2 };
    let Ok(outf) = std::fs::File::create(&args[1]) else { return 2 };
    let mut out = std::io::BufWriter::new(outf);
    let (mut lines, mut errors) = (0u64, 0u64);
    for line in std::io::BufReader::new(inp).lines() {
        let Ok(line) = line else { return 2 };
        if line.trim().is_empty() {
            continue;
        }
        let sc: Value = match serde_json::from_str(&line) {
            Ok(v) => v,
            Err(e) => {
                eprintln!("bad line: {e}");
                return 2;
            }
        };
        let rt = tokio::runtime::Builder::new_multi_thread().worker_threads(2).enable_all().build().expect("runtime");
        let o = rt.block_on(run_scenario(&sc));
        rt.shutdown_timeout(Duration::from_secs(2));
        if o["start_err"].as_str().map(|s| !s.is_empty()).unwrap_or(true) {
            errors += 1;
        }
        lines += 1;
        if writeln!(out, "{o}").is_err() {
            return 2;
        }
    }
    let _ = out.flush();
    println!("{}", json!({"cmd": "e2e", "lines": lines, "errors": errors}));
    0
}
