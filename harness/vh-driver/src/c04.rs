//! C04: replica sets — builds real ClusterStates (ReplicaLocator, precomputed or not) from in-memory
//! topologies and records every view of every replica set.

use rand::{Rng, SeedableRng, seq::SliceRandom};
use scylla::cluster::ClusterState;
use scylla::cluster::metadata::Strategy;
use scylla::frame::response::result::TableSpec;
use scylla::routing::Token;
use scylla::verif::cluster::{VKeyspace, VPeer, build};
use serde_json::{Value, json};
use std::collections::{BTreeMap, HashMap};
use std::io::{BufRead, Write};
use uuid::Uuid;

pub fn node_uuid(n: usize) -> Uuid {
    Uuid::from_u128(0x2000 + n as u128)
}
pub fn node_of(u: Uuid) -> usize {
    (u.as_u128() - 0x2000) as usize
}

/// real token of ring position `p` (1-based) among `n` ring entries: spread over i64 incl. extremes
pub fn tok_of_pos(p: usize, n: usize) -> i64 {
    if p == 1 {
        i64::MIN + 1
    } else if p == n {
        i64::MAX
    } else {
        let step = (u64::MAX / (n as u64 + 1)) as i128;
        (i64::MIN as i128 + step * p as i128) as i64
    }
}

pub fn strategy_of(s: &Value) -> Strategy {
    match s["kind"].as_str().unwrap() {
        "simple" => Strategy::SimpleStrategy { replication_factor: s["rf"].as_u64().unwrap() as usize },
        "nts" => {
            let mut m = HashMap::new();
            for e in s["rfs"].as_array().unwrap() {
                m.insert(e[0].as_str().unwrap().to_string(), e[1].as_u64().unwrap() as usize);
            }
            Strategy::NetworkTopologyStrategy { datacenter_repfactors: m }
        }
        "local" => Strategy::LocalStrategy,
        _ => Strategy::Other { name: "SomeStrategy".into(), data: HashMap::new() },
    }
}

pub fn peers_of(attr: &[(String, String)], ring: &[(usize, usize)], nring: usize) -> Vec<VPeer> {
    // attr[i] for node i+1; ring: (position 1..nring, node)
    let mut toks: BTreeMap<usize, Vec<i64>> = BTreeMap::new();
    for (p, n) in ring {
        toks.entry(*n).or_default().push(tok_of_pos(*p, nring));
    }
    (1..=attr.len())
        .map(|n| VPeer {
            host_id: node_uuid(n),
            addr: format!("10.1.0.{}:9042", n).parse().unwrap(),
            dc: if attr[n - 1].0.is_empty() { None } else { Some(attr[n - 1].0.clone()) },
            rack: if attr[n - 1].1.is_empty() { None } else { Some(attr[n - 1].1.clone()) },
            tokens: toks.get(&n).cloned().unwrap_or_default(),
        })
        .collect()
}

fn query(state: &ClusterState, strat: &Strategy, token: i64, dc: &str, nnodes: usize, pre: bool, rng: &mut impl Rng) -> Value {
    let spec = TableSpec::borrowed("ks_pre", "t");
    let loc = state.replica_locator();
    let dco = if dc.is_empty() { None } else { Some(dc) };
    let set = || loc.replicas_for_token(Token::new(token), strat, dco, &spec);
    let len = set().len();
    let iter: Vec<usize> = set().into_iter().map(|(n, _)| node_of(n.host_id)).collect();
    let ordered: Vec<usize> = set().into_replicas_ordered().into_iter().map(|(n, _)| node_of(n.host_id)).collect();
    let mut yes = Vec::new();
    let mut no = Vec::new();
    for n in 1..=nnodes {
        let id = node_uuid(n);
        match set().choose_filtered(rng, |(node, _)| node.host_id == id) {
            Some((node, _)) if node.host_id == id => yes.push(n),
            Some((node, _)) => yes.push(1000 + node_of(node.host_id)), // predicate violated: judge rejects
            None => no.push(n),
        }
    }
    let mut chosen = Vec::new();
    for _ in 0..8 {
        if let Some((node, _)) = set().choose_filtered(rng, |_| true) {
            chosen.push(node_of(node.host_id));
        }
    }
    let mut q = json!({"dc": dc, "len": len, "iter": iter, "ordered": ordered, "yes": yes, "no": no, "chosen": chosen});
    if dc.is_empty() && pre {
        let ep: Vec<usize> = state.get_token_endpoints("ks_pre", "t", Token::new(token)).into_iter().map(|(n, _)| node_of(n.host_id)).collect();
        q["endpoints"] = json!(ep);
    }
    q
}

/// One record: topology + ring + strategy + precomputed flag -> all queries.
/// Makes up to `k` ring positions owned twice: by their owner and by a node of ANOTHER datacenter (both with a datacenter).
/// Returns the ring sorted by (position, node) and whether anything was added.
fn with_duplicate_tokens(attr: &[(String, String)], ring: &[(usize, usize)], k: usize, rng: &mut impl Rng) -> (Vec<(usize, usize)>, bool) {
    let mut out = ring.to_vec();
    let mut added = false;
    let mut taken: Vec<usize> = Vec::new();
    for _ in 0..k {
        let (p, n) = ring[rng.random_range(0..ring.len())];
        let dc = &attr[n - 1].0;
        if dc.is_empty() || taken.contains(&p) {
            continue;
        }
        let others: Vec<usize> = (1..=attr.len()).filter(|m| !attr[m - 1].0.is_empty() && &attr[m - 1].0 != dc).collect();
        if others.is_empty() {
            continue;
        }
        let m = others[rng.random_range(0..others.len())];
        out.push((p, m));
        taken.push(p);
        added = true;
    }
    out.sort();
    (out, added)
}

fn record(rt: &tokio::runtime::Runtime, attr: &[(String, String)], ring: &[(usize, usize)], strat_v: &Value, mode: u8, dcs: &[&str], rng: &mut impl Rng) -> Value {
    // number of ring POSITIONS (a position may have two owners, in different datacenters)
    let nring = ring.iter().map(|(p, _)| *p).max().unwrap_or(0);
    let strat = strategy_of(strat_v);
    let mk_ks = |st: &Strategy| vec![VKeyspace { name: "ks_pre".into(), strategy: st.clone(), tablet_based: false, tables: vec!["t".into()] }];
    // mode 0: nothing pre-computed; 1: this strategy pre-computed; 2: only a strategy with LARGER replication
    // factors pre-computed; 3: this strategy pre-computed, and the state is the result of a metadata refresh
    // from a state in which the first node sat in another rack
    let bigger = match &strat {
        Strategy::SimpleStrategy { replication_factor } => Strategy::SimpleStrategy { replication_factor: replication_factor + 2 },
        Strategy::NetworkTopologyStrategy { datacenter_repfactors } => Strategy::NetworkTopologyStrategy {
            datacenter_repfactors: datacenter_repfactors.iter().map(|(k, v)| (k.clone(), v + 1 + (k.len() % 2))).collect(),
        },
        other => other.clone(),
    };
    let state = match mode {
        0 => rt.block_on(build(peers_of(attr, ring, nring), vec![])),
        1 => rt.block_on(build(peers_of(attr, ring, nring), mk_ks(&strat))),
        2 => rt.block_on(build(peers_of(attr, ring, nring), mk_ks(&bigger))),
        _ => {
            let mut old = attr.to_vec();
            old[0].1 = if old[0].1 == "r9" { "r8".to_string() } else { "r9".to_string() };
            let s0 = rt.block_on(build(peers_of(&old, ring, nring), mk_ks(&strat)));
            rt.block_on(scylla::verif::cluster::rebuild(&s0, peers_of(attr, ring, nring), mk_ks(&strat)))
        }
    };
    let pre = mode == 1 || mode == 3;
    // query positions: ring entries sit at even positions 2p; odd positions are the gaps
    let mut queries = Vec::new();
    for q in 1..=(2 * nring + 1) {
        let token: Option<i64> = if q % 2 == 0 {
            Some(tok_of_pos(q / 2, nring))
        } else if q == 1 {
            None // below MIN+1 there is only i64::MIN, which is not a token
        } else if q == 2 * nring + 1 {
            None // above MAX there is nothing
        } else {
            Some(tok_of_pos((q - 1) / 2, nring) + 1)
        };
        let Some(token) = token else { continue };
        for dc in dcs {
            let mut v = query(&state, &strat, token, dc, attr.len(), pre, rng);
            v["q"] = json!(q);
            queries.push(v);
        }
    }
    json!({
        "ring": ring.iter().map(|(p, n)| json!([2 * p, n])).collect::<Vec<_>>(),
        "attr": attr.iter().map(|(d, r)| json!([d, r])).collect::<Vec<_>>(),
        "strat": strat_v, "pre": mode, "queries": queries
    })
}

fn strategies(nnodes: usize, full: bool) -> Vec<Value> {
    let mut v = Vec::new();
    for rf in 0..=(nnodes + 2) {
        v.push(json!({"kind":"simple","rf":rf}));
    }
    let rfs: Vec<usize> = if full { vec![0, 1, 2, 3, 5] } else { vec![0, 1, 2, 3] };
    for a in &rfs {
        for b in &rfs {
            v.push(json!({"kind":"nts","rfs":[["dc1",a],["dc2",b]]}));
        }
        v.push(json!({"kind":"nts","rfs":[["dc1",a]]}));                  // a ring DC absent from the strategy
        v.push(json!({"kind":"nts","rfs":[["dc1",a],["dc3",2]]}));        // a strategy DC absent from the ring
    }
    v.push(json!({"kind":"nts","rfs":[]}));
    v.push(json!({"kind":"local"}));
    v.push(json!({"kind":"other"}));
    v
}

/// `c04 run <topologies.ndjson> <out.ndjson> <seed> <rings per topology> <full 0/1> <random big rings>`
pub fn cmd_run(args: &[String]) -> i32 {
    let inp = std::fs::File::open(&args[0]).expect("topologies");
    let mut out = std::io::BufWriter::new(std::fs::File::create(&args[1]).expect("out"));
    let seed: u64 = args[2].parse().unwrap();
    let rings_per: usize = args[3].parse().unwrap();
    let full = args[4] == "1";
    let nbig: usize = args[5].parse().unwrap();
    let mut rng = rand::rngs::StdRng::seed_from_u64(seed);
    let rt = tokio::runtime::Builder::new_current_thread().enable_all().build().unwrap();
    let dcs = ["", "dc1", "dc2", "dc3"];
    let (mut nrec, mut nq, mut panics) = (0usize, 0usize, 0usize);
    let mut emit = |r: std::thread::Result<Value>, out: &mut dyn Write, nq: &mut usize, panics: &mut usize| match r {
        Ok(v) => {
            *nq += v["queries"].as_array().map(|a| a.len()).unwrap_or(0);
            writeln!(out, "{}", v).unwrap();
        }
        Err(_) => {
            *panics += 1;
            writeln!(out, "{}", json!({"panic": crate::last_panic(), "queries": []})).unwrap();
        }
    };
    for line in std::io::BufReader::new(inp).lines() {
        let line = line.unwrap();
        if line.trim().is_empty() {
            continue;
        }
        let t: Value = serde_json::from_str(&line).unwrap();
        let attr: Vec<(String, String)> = t["attr"].as_array().unwrap().iter().map(|a| (a[0].as_str().unwrap().to_string(), a[1].as_str().unwrap().to_string())).collect();
        let vn: Vec<usize> = t["vnodes"].as_array().unwrap().iter().map(|x| x.as_u64().unwrap() as usize).collect();
        for _ in 0..rings_per {
            // assign ring positions to nodes at random
            let mut owners: Vec<usize> = Vec::new();
            for (i, k) in vn.iter().enumerate() {
                for _ in 0..*k {
                    owners.push(i + 1);
                }
            }
            owners.shuffle(&mut rng);
            let ring: Vec<(usize, usize)> = owners.iter().enumerate().map(|(i, n)| (i + 1, *n)).collect();
            // the same ring with one or two token values owned by nodes of two datacenters (NTS only: SimpleStrategy's "first RF
            // nodes" is not defined between two owners of one token)
            let (dring, dup) = with_duplicate_tokens(&attr, &ring, 2, &mut rng);
            if dup {
                for s in strategies(attr.len(), full).into_iter().filter(|s| s["kind"] == "nts") {
                    for mode in [1u8, 0] {
                        let mut r2 = rand::rngs::StdRng::seed_from_u64(rng.random());
                        let r = std::panic::catch_unwind(std::panic::AssertUnwindSafe(|| record(&rt, &attr, &dring, &s, mode, &dcs, &mut r2)));
                        emit(r, &mut out, &mut nq, &mut panics);
                        nrec += 1;
                    }
                }
            }
            for s in strategies(attr.len(), full) {
                for mode in [1u8, 0, 2, 3] {
                    // the two extra modes only where they can matter (keeps the judge's work bounded)
                    if mode >= 2 && s["kind"] != "nts" && !(s["kind"] == "simple" && s["rf"] == 2) {
                        continue;
                    }
                    let mut r2 = rand::rngs::StdRng::seed_from_u64(rng.random());
                    let r = std::panic::catch_unwind(std::panic::AssertUnwindSafe(|| record(&rt, &attr, &ring, &s, mode, &dcs, &mut r2)));
                    emit(r, &mut out, &mut nq, &mut panics);
                    nrec += 1;
                }
            }
        }
    }
    // big random rings: up to 12 nodes, 3 DCs, 4 racks, up to 8 vnodes
    for _ in 0..nbig {
        let n = rng.random_range(3..=12usize);
        let attr: Vec<(String, String)> = (0..n)
            .map(|_| {
                let d = ["dc1", "dc2", "dc3", ""][rng.random_range(0..4usize).min(if rng.random_bool(0.9) { 2 } else { 3 })];
                let r = ["r1", "r2", "r3", "r4", ""][rng.random_range(0..5usize)];
                (d.to_string(), r.to_string())
            })
            .collect();
        let mut owners: Vec<usize> = Vec::new();
        for i in 0..n {
            for _ in 0..rng.random_range(1..=8usize) {
                owners.push(i + 1);
            }
        }
        owners.shuffle(&mut rng);
        let ring: Vec<(usize, usize)> = owners.iter().enumerate().map(|(i, n)| (i + 1, *n)).collect();
        let strat = match rng.random_range(0..3) {
            0 => json!({"kind":"simple","rf": rng.random_range(0..=n + 2)}),
            _ => json!({"kind":"nts","rfs":[["dc1", rng.random_range(0..6)],["dc2", rng.random_range(0..6)],["dc3", rng.random_range(0..4)]]}),
        };
        let mode: u8 = rng.random_range(0..4);
        let ring = if strat["kind"] == "nts" && rng.random_bool(0.4) { with_duplicate_tokens(&attr, &ring, 3, &mut rng).0 } else { ring };
        let mut r2 = rand::rngs::StdRng::seed_from_u64(rng.random());
        let r = std::panic::catch_unwind(std::panic::AssertUnwindSafe(|| {
            let mut v = record(&rt, &attr, &ring, &strat, mode, &dcs, &mut r2);
            // keep the judge's work bounded: a sample of the queries
            let qs = v["queries"].as_array().unwrap().clone();
            let keep: Vec<Value> = qs.into_iter().enumerate().filter(|(i, _)| i % 7 == 0).map(|(_, q)| q).collect();
            v["queries"] = json!(keep);
            v
        }));
        emit(r, &mut out, &mut nq, &mut panics);
        nrec += 1;
    }
    out.flush().unwrap();
    println!("{}", json!({"records": nrec, "queries": nq, "panics": panics}));
    0
}
