//! C06: retry policies — walks the tree of per-attempt failure histories on the real RetrySession
//! objects (loop semantics of run_request_speculative_fiber emulated: same target / next target / stop).

use scylla::errors::{
    BrokenConnectionError, BrokenConnectionErrorKind, CqlResponseKind, DbError, OperationType, RequestAttemptError,
    WriteType,
};
use scylla::policies::retry::{
    DefaultRetryPolicy, DowngradingConsistencyRetryPolicy, FallthroughRetryPolicy, RequestInfo, RetryDecision,
    RetryPolicy, RetrySession,
};
use scylla::statement::Consistency;
use scylla_cql::frame::frame_errors::{CqlErrorParseError, CqlResultParseError, FrameBodyExtensionsParseError, LowLevelDeserializationError};
use serde_json::{Value, json};
use std::io::Write;

#[derive(Clone, Debug)]
struct Sym {
    k: &'static str,
    n: i32,
    req: i32,
    dp: bool,
    wt: &'static str,
}

fn sym_json(s: &Sym) -> Value {
    json!({"k": s.k, "n": s.n, "req": s.req, "dp": s.dp, "wt": s.wt})
}

const SIMPLE: [&str; 20] = [
    "Broken", "AllocFail", "Parse", "Syntax", "Invalid", "AlreadyExists", "FunctionFailure", "Auth", "Unauthorized",
    "Config", "Overloaded", "Bootstrapping", "Truncate", "ReadFailure", "WriteFailure", "Unprepared", "Server",
    "Protocol", "RateLimit", "Other",
];
const WTS: [&str; 9] = ["Simple", "Batch", "UnloggedBatch", "Counter", "BatchLog", "Cas", "View", "Cdc", "Other"];

fn all_symbols() -> Vec<Sym> {
    let mut v = Vec::new();
    for k in SIMPLE {
        v.push(Sym { k, n: 0, req: 0, dp: false, wt: "-" });
    }
    for a in 0..=3 {
        v.push(Sym { k: "Unavailable", n: a, req: 0, dp: false, wt: "-" });
    }
    for r in 0..=3 {
        for dp in [false, true] {
            v.push(Sym { k: "ReadTimeout", n: r, req: 2, dp, wt: "-" });
        }
    }
    for r in 0..=2 {
        for wt in WTS {
            v.push(Sym { k: "WriteTimeout", n: r, req: 0, dp: false, wt });
        }
    }
    v
}

fn wt_of(s: &str) -> WriteType {
    match s {
        "Simple" => WriteType::Simple,
        "Batch" => WriteType::Batch,
        "UnloggedBatch" => WriteType::UnloggedBatch,
        "Counter" => WriteType::Counter,
        "BatchLog" => WriteType::BatchLog,
        "Cas" => WriteType::Cas,
        "View" => WriteType::View,
        "Cdc" => WriteType::Cdc,
        _ => WriteType::Other("X".to_string()),
    }
}

/// All concrete error values a symbol stands for (field combinations the decision must not depend on).
fn instances(s: &Sym, cl: Consistency) -> Vec<RequestAttemptError> {
    let db = |e: DbError| RequestAttemptError::DbError(e, "msg".to_string());
    let broken = |k: BrokenConnectionErrorKind| -> RequestAttemptError {
        let b: BrokenConnectionError = k.into();
        RequestAttemptError::BrokenConnectionError(b)
    };
    match s.k {
        "Broken" => vec![
            broken(BrokenConnectionErrorKind::ChannelError),
            broken(BrokenConnectionErrorKind::UnexpectedStreamId(7)),
            broken(BrokenConnectionErrorKind::TooManyOrphanedStreamIds(1025)),
            broken(BrokenConnectionErrorKind::KeepaliveTimeout("127.0.0.1".parse().unwrap())),
            broken(BrokenConnectionErrorKind::WriteError(std::io::Error::other("x"))),
        ],
        "AllocFail" => vec![RequestAttemptError::UnableToAllocStreamId],
        "Parse" => vec![
            RequestAttemptError::NonfinishedPagingState,
            RequestAttemptError::RepreparedIdMissingInBatch,
            RequestAttemptError::RepreparedIdChanged { statement: "s".into(), expected_id: vec![1], reprepared_id: vec![2] },
            RequestAttemptError::UnexpectedResponse(CqlResponseKind::Ready),
            RequestAttemptError::UnexpectedResponse(CqlResponseKind::Supported),
            // a response arrived but could not be decoded: the request may well have been applied
            RequestAttemptError::CqlErrorParseError(CqlErrorParseError::ErrorCodeParseError(LowLevelDeserializationError::TooFewBytesReceived { expected: 4, received: 1 })),
            RequestAttemptError::CqlErrorParseError(CqlErrorParseError::ReasonParseError(LowLevelDeserializationError::InvalidValueLength(-7))),
            RequestAttemptError::CqlErrorParseError(CqlErrorParseError::MalformedErrorField {
                db_error: "WRITE_TIMEOUT",
                field: "WRITE_TYPE",
                err: LowLevelDeserializationError::TooFewBytesReceived { expected: 2, received: 0 },
            }),
            RequestAttemptError::CqlResultParseError(CqlResultParseError::UnknownResultId(99)),
            RequestAttemptError::CqlResultParseError(CqlResultParseError::ResultIdParseError(LowLevelDeserializationError::TooFewBytesReceived { expected: 4, received: 0 })),
            RequestAttemptError::BodyExtensionsParseError(FrameBodyExtensionsParseError::NoCompressionNegotiated),
            RequestAttemptError::BodyExtensionsParseError(FrameBodyExtensionsParseError::TraceIdParse(LowLevelDeserializationError::TooFewBytesReceived { expected: 16, received: 3 })),
        ],
        "Syntax" => vec![db(DbError::SyntaxError)],
        "Invalid" => vec![db(DbError::Invalid)],
        "AlreadyExists" => vec![db(DbError::AlreadyExists { keyspace: "k".into(), table: "t".into() })],
        "FunctionFailure" => vec![db(DbError::FunctionFailure { keyspace: "k".into(), function: "f".into(), arg_types: vec![] })],
        "Auth" => vec![db(DbError::AuthenticationError)],
        "Unauthorized" => vec![db(DbError::Unauthorized)],
        "Config" => vec![db(DbError::ConfigError)],
        "Overloaded" => vec![db(DbError::Overloaded)],
        "Bootstrapping" => vec![db(DbError::IsBootstrapping)],
        "Truncate" => vec![db(DbError::TruncateError)],
        "ReadFailure" => vec![
            db(DbError::ReadFailure { consistency: cl, received: 1, required: 2, numfailures: 1, data_present: false }),
            db(DbError::ReadFailure { consistency: cl, received: 2, required: 2, numfailures: 1, data_present: true }),
        ],
        "WriteFailure" => vec![
            db(DbError::WriteFailure { consistency: cl, received: 1, required: 2, numfailures: 1, write_type: WriteType::Simple }),
            db(DbError::WriteFailure { consistency: cl, received: 0, required: 2, numfailures: 2, write_type: WriteType::BatchLog }),
        ],
        "Unprepared" => vec![db(DbError::Unprepared { statement_id: bytes::Bytes::from_static(b"id") })],
        "Server" => vec![db(DbError::ServerError)],
        "Protocol" => vec![db(DbError::ProtocolError)],
        "RateLimit" => vec![
            db(DbError::RateLimitReached { op_type: OperationType::Read, rejected_by_coordinator: false }),
            db(DbError::RateLimitReached { op_type: OperationType::Write, rejected_by_coordinator: true }),
        ],
        "Other" => vec![db(DbError::Other(0x1234)), db(DbError::Other(0))],
        "Unavailable" => vec![
            db(DbError::Unavailable { consistency: cl, required: 2, alive: s.n }),
            db(DbError::Unavailable { consistency: Consistency::All, required: 5, alive: s.n }),
        ],
        "ReadTimeout" => vec![
            db(DbError::ReadTimeout { consistency: cl, received: s.n, required: s.req, data_present: s.dp }),
            db(DbError::ReadTimeout { consistency: Consistency::One, received: s.n, required: s.req, data_present: s.dp }),
        ],
        "WriteTimeout" => vec![
            db(DbError::WriteTimeout { consistency: cl, received: s.n, required: 2, write_type: wt_of(s.wt) }),
            db(DbError::WriteTimeout { consistency: Consistency::Quorum, received: s.n, required: 3, write_type: wt_of(s.wt) }),
        ],
        _ => vec![],
    }
}

const CLS: [(&str, Consistency); 11] = [
    ("Any", Consistency::Any),
    ("One", Consistency::One),
    ("Two", Consistency::Two),
    ("Three", Consistency::Three),
    ("Quorum", Consistency::Quorum),
    ("All", Consistency::All),
    ("LocalQuorum", Consistency::LocalQuorum),
    ("EachQuorum", Consistency::EachQuorum),
    ("LocalOne", Consistency::LocalOne),
    ("Serial", Consistency::Serial),
    ("LocalSerial", Consistency::LocalSerial),
];

pub fn cl_name(c: Consistency) -> &'static str {
    CLS.iter().find(|(_, x)| *x == c).map(|(n, _)| *n).unwrap_or("?")
}

fn policy(name: &str) -> Box<dyn RetryPolicy> {
    match name {
        "Default" => Box::new(DefaultRetryPolicy::new()),
        "Downgrading" => Box::new(DowngradingConsistencyRetryPolicy::new()),
        _ => Box::new(FallthroughRetryPolicy::new()),
    }
}

fn dec(d: &RetryDecision) -> (&'static str, Option<Consistency>) {
    match d {
        RetryDecision::RetrySameTarget(c) => ("same", *c),
        RetryDecision::RetryNextTarget(c) => ("next", *c),
        RetryDecision::DontRetry => ("stop", None),
        RetryDecision::IgnoreWriteError => ("ignore", None),
        _ => ("unknown", None),
    }
}

struct Walk<'a> {
    pol: &'static str,
    idem: bool,
    cl0: Consistency,
    plan: usize,
    syms: &'a [Sym],
    out: &'a mut dyn Write,
    decisions: usize,
    recorded: usize,
    inconsistent: usize,
    full_depth: usize,
    seen: std::collections::HashSet<String>,
}

impl Walk<'_> {
    /// Replays `path` (symbol index, instance index) on a fresh session, following the loop semantics.
    /// Returns the session positioned after the path plus (cl, tgt, same).
    fn replay(&self, path: &[(usize, usize)]) -> (Box<dyn RetrySession>, Consistency, usize, usize) {
        let mut sess = policy(self.pol).new_session();
        let mut cl = self.cl0;
        let mut tgt = 1usize;
        let mut same = 0usize;
        for (si, ii) in path {
            let e = &instances(&self.syms[*si], cl)[*ii];
            let d = sess.decide_should_retry(RequestInfo::verif_new(e, self.idem, cl));
            let (k, ncl) = dec(&d);
            cl = ncl.unwrap_or(cl);
            match k {
                "same" => same += 1,
                "next" => tgt += 1,
                _ => {}
            }
        }
        (sess, cl, tgt, same)
    }

    fn go(&mut self, path: &mut Vec<(usize, usize)>) {
        let depth = path.len() + 1;
        for si in 0..self.syms.len() {
            // all concrete instances of the symbol must be decided alike; follow the first
            let (_, cl, tgt, same) = self.replay(path);
            let insts = instances(&self.syms[si], cl);
            let mut first: Option<(&'static str, Option<Consistency>)> = None;
            let mut differ = false;
            for (ii, e) in insts.iter().enumerate() {
                let (mut sess, cl2, _, _) = self.replay(path);
                let d = sess.decide_should_retry(RequestInfo::verif_new(e, self.idem, cl2));
                self.decisions += 1;
                let (k, ncl) = dec(&d);
                let retrying = k == "same" || k == "next";
                if first.is_none() {
                    first = Some((k, ncl));
                } else if first != Some((k, ncl)) {
                    differ = true;
                }
                let key = format!("{}|{}|{}|{:?}|{}|{}|{:?}|{}|{}", self.pol, self.idem, cl_name(cl2), self.syms[si], ii, k, ncl, same, depth.min(2));
                if (retrying || depth <= self.full_depth || differ) && self.seen.insert(key) {
                    self.recorded += 1;
                    writeln!(
                        self.out,
                        "{}",
                        json!({"pol": self.pol, "idem": self.idem, "cl": cl_name(cl2), "e": sym_json(&self.syms[si]),
                               "inst": format!("{:?}", e).chars().take(80).collect::<String>(), "ii": ii,
                               "d": k, "ncl": ncl.map(cl_name).unwrap_or("keep"), "same": same, "depth": depth,
                               "tgt": tgt, "path": path.iter().map(|(s, _)| sym_json(&self.syms[*s])).collect::<Vec<_>>()})
                    )
                    .unwrap();
                }
            }
            if differ {
                self.inconsistent += 1;
            }
            if let Some((k, _)) = first {
                // the loop: another attempt is made iff same, or next with a target left
                let cont = k == "same" || (k == "next" && tgt < self.plan);
                if cont && depth < self.plan + 4 {
                    path.push((si, 0));
                    self.go(path);
                    path.pop();
                }
            }
        }
    }
}

/// `c06 walk <out.ndjson> <plan> <full_depth> <chunk> <nchunks>`
pub fn cmd_walk(args: &[String]) -> i32 {
    let mut out = std::io::BufWriter::new(std::fs::File::create(&args[0]).unwrap());
    let plan: usize = args[1].parse().unwrap();
    let full_depth: usize = args[2].parse().unwrap();
    let chunk: usize = args[3].parse().unwrap();
    let nchunks: usize = args[4].parse().unwrap();
    let syms = all_symbols();
    let mut roots = Vec::new();
    for pol in ["Default", "Downgrading", "Fallthrough"] {
        for idem in [false, true] {
            for (_, cl) in CLS {
                roots.push((pol, idem, cl));
            }
        }
    }
    let (mut decisions, mut recorded, mut inconsistent, mut panics) = (0, 0, 0, 0);
    for (i, (pol, idem, cl0)) in roots.into_iter().enumerate() {
        if i % nchunks != chunk {
            continue;
        }
        let r = std::panic::catch_unwind(std::panic::AssertUnwindSafe(|| {
            let mut w = Walk { pol, idem, cl0, plan, syms: &syms, out: &mut out, decisions: 0, recorded: 0, inconsistent: 0, full_depth, seen: Default::default() };
            w.go(&mut Vec::new());
            (w.decisions, w.recorded, w.inconsistent)
        }));
        match r {
            Ok((d, rcd, inc)) => {
                decisions += d;
                recorded += rcd;
                inconsistent += inc;
            }
            Err(_) => {
                panics += 1;
                writeln!(out, "{}", json!({"pol": pol, "idem": idem, "cl": cl_name(cl0), "panic": crate::last_panic()})).unwrap();
            }
        }
    }
    out.flush().unwrap();
    println!("{}", json!({"decisions": decisions, "recorded": recorded, "inconsistent_symbols": inconsistent, "panics": panics}));
    0
}

pub fn cl_of(name: &str) -> Consistency {
    CLS.iter().find(|(n, _)| *n == name).map(|(_, c)| *c).unwrap_or(Consistency::Quorum)
}

pub fn policy_of(name: &str) -> Box<dyn RetryPolicy> {
    policy(name)
}

/// First concrete error instance of a symbol given as JSON.
pub fn err_of(sym: &serde_json::Value, cl: Consistency) -> RequestAttemptError {
    let k: &'static str = SIMPLE
        .iter()
        .copied()
        .chain(["Unavailable", "ReadTimeout", "WriteTimeout"])
        .find(|x| *x == sym["k"].as_str().unwrap())
        .unwrap_or("Other");
    let wt: &'static str = WTS.iter().copied().find(|x| *x == sym["wt"].as_str().unwrap_or("-")).unwrap_or("-");
    let s = Sym { k, n: sym["n"].as_i64().unwrap_or(0) as i32, req: sym["req"].as_i64().unwrap_or(0) as i32, dp: sym["dp"].as_bool().unwrap_or(false), wt };
    instances(&s, cl).remove(0)
}
