//! `vh-driver c11 e2e <out.ndjson>`: the source ports a real Session's pool uses towards a node's shard-aware port when
//! the application confines them to a range (`shard_aware_local_port_range`) and some ports of that range are taken by
//! somebody else (property C11, connection level). One record per scenario: every connection the mock accepted.
use std::io::Write;
use std::net::Ipv4Addr;
use std::sync::Arc;
use std::time::{Duration, Instant};

use serde_json::{Value, json};

use crate::mock::{Action, MockCluster, MockColumn, MockConfig, MockKeyspace, MockNodeCfg, MockTable, Reply, Request};

const PORT: u16 = 19411;
const SA_PORT: u16 = 19511;

fn mock_config(nr: u16) -> MockConfig {
    MockConfig {
        port: PORT,
        shard_aware_port: Some(SA_PORT),
        nodes: vec![MockNodeCfg {
            ip: Ipv4Addr::new(127, 0, 11, 1),
            host_id: uuid::Uuid::from_u128((0xC11u128 << 64) | 1),
            dc: "dc1".into(),
            rack: "r1".into(),
            tokens: vec![0],
            nr_shards: Some(nr),
            msb_ignore: 12,
            metadata_id_ext: false,
            tablets_ext: false,
            lwt_mark: false,
        }],
        keyspaces: vec![MockKeyspace {
            name: "ks".into(),
            replication: vec![("class".into(), "org.apache.cassandra.locator.SimpleStrategy".into()), ("replication_factor".into(), "1".into())],
            tablets: false,
            tables: vec![MockTable {
                name: "t".into(),
                columns: vec![MockColumn { name: "pk".into(), kind: "partition_key".into(), position: 0, typ: "int".into() }],
                partitioner: Some("org.apache.cassandra.dht.Murmur3Partitioner".into()),
            }],
        }],
        system_page_size_override: None,
    }
}

/// RAII: node 0 of the mock lives at `::1` while this is alive
struct V6Guard;
impl V6Guard {
    fn set(on: bool) -> V6Guard {
        crate::mock::V6_NODE0.store(on, std::sync::atomic::Ordering::SeqCst);
        V6Guard
    }
}
impl Drop for V6Guard {
    fn drop(&mut self) {
        crate::mock::V6_NODE0.store(false, std::sync::atomic::Ordering::SeqCst);
    }
}

fn v6_available() -> bool {
    std::net::TcpListener::bind((std::net::Ipv6Addr::LOCALHOST, 0)).is_ok()
}

/// What the session publishes as the node's sharding parameters: (shard count, ignored msb bits), (0, 0) = unsharded / unknown.
fn published(session: &scylla::client::session::Session) -> (u16, u8) {
    let st = session.get_cluster_state();
    st.get_nodes_info().first().and_then(|n| n.sharder()).map(|s| (s.nr_shards.get(), s.msb_ignore)).unwrap_or((0, 0))
}

/// A node that comes back with other sharding parameters (another ignore-msb, same or another shard count): what the session
/// publishes for it after each restart, and what the published sharder answers for a few tokens.
async fn msb_scenario(id: usize, steps: &[(u16, u8)]) -> Result<Value, String> {
    use scylla::client::PoolSize;
    use scylla::client::session_builder::SessionBuilder;
    let handler: crate::mock::Handler = Arc::new(|_req: &Request| Action::Reply(Reply::Void));
    let mut cfg = mock_config(steps[0].0);
    cfg.nodes[0].msb_ignore = steps[0].1;
    let t0 = Instant::now();
    let mock = loop {
        match MockCluster::try_start(cfg.clone(), handler.clone()).await {
            Ok(m) => break m,
            Err(_) if t0.elapsed() < Duration::from_secs(3) => tokio::time::sleep(Duration::from_millis(50)).await,
            Err(e) => return Err(format!("mock start: {e}")),
        }
    };
    let session = SessionBuilder::new()
        .known_node(mock.contact_point(0))
        .pool_size(PoolSize::PerShard(std::num::NonZeroUsize::new(1).unwrap()))
        .build()
        .await
        .map_err(|e| format!("session: {e}"))?;
    let tokens: [i64; 6] = [0, -1, 1, i64::MAX, i64::MIN + 1, 0x0123_4567_89ab_cdef];
    let mut seen = Vec::new();
    for (k, (nr, msb)) in steps.iter().enumerate() {
        if k > 0 {
            mock.stop_node(0).await;
            let mut c = mock.config();
            c.nodes[0].nr_shards = Some(*nr);
            c.nodes[0].msb_ignore = *msb;
            mock.set_config(c);
            tokio::time::sleep(Duration::from_millis(100)).await;
            let t0 = Instant::now();
            while mock.try_start_node(0).await.is_err() && t0.elapsed() < Duration::from_secs(3) {
                tokio::time::sleep(Duration::from_millis(50)).await;
            }
        }
        // until the pool of the (re)started node covers every shard, at most 6 s; then a moment for the pool to publish
        let t1 = Instant::now();
        loop {
            let shards: std::collections::BTreeSet<u16> = mock.open_connections(0).iter().filter_map(|(_, s, _)| *s).collect();
            if shards.len() as u16 >= *nr || t1.elapsed() > Duration::from_secs(6) {
                break;
            }
            tokio::time::sleep(Duration::from_millis(20)).await;
        }
        let t2 = Instant::now();
        while published(&session) != (*nr, *msb) && t2.elapsed() < Duration::from_millis(4000) {
            tokio::time::sleep(Duration::from_millis(20)).await;
        }
        let p = published(&session);
        let st = session.get_cluster_state();
        let shards: Vec<Value> = match st.get_nodes_info().first().and_then(|n| n.sharder()) {
            Some(s) => tokens.iter().map(|t| json!([t.to_le_bytes().to_vec(), s.shard_of(scylla::routing::Token::new(*t))])).collect(),
            None => vec![],
        };
        let covered = mock.open_connections(0).iter().filter_map(|(_, s, _)| *s).collect::<std::collections::BTreeSet<u16>>().len();
        seen.push(json!({"node": [nr, msb], "published": [p.0, p.1], "shards": shards, "covered": covered}));
    }
    drop(session);
    mock.shutdown().await;
    Ok(json!({"id": id, "kind": "msb", "steps": seen}))
}

async fn scenario(id: usize, nr: u16, lo: u16, hi: u16, occupied: &[u16], v6: bool) -> Result<Value, String> {
    let _g = V6Guard::set(v6);
    use scylla::client::PoolSize;
    use scylla::client::session_builder::SessionBuilder;
    use scylla::routing::ShardAwarePortRange;
    // somebody else holds these ports
    let mut holders = Vec::new();
    let mut really_occupied = Vec::new();
    for p in occupied {
        if let Ok(l) = std::net::TcpListener::bind((Ipv4Addr::UNSPECIFIED, *p)) {
            holders.push(l);
            really_occupied.push(*p);
            if v6 {
                // (fails when the IPv4 wildcard already covers the port for both families: then it is taken anyway)
                if let Ok(l6) = std::net::TcpListener::bind((std::net::Ipv6Addr::UNSPECIFIED, *p)) {
                    holders.push(l6);
                }
            }
        }
    }
    let handler: crate::mock::Handler = Arc::new(|_req: &Request| Action::Reply(Reply::Void));
    let t0 = Instant::now();
    let mock = loop {
        match MockCluster::try_start(mock_config(nr), handler.clone()).await {
            Ok(m) => break m,
            Err(_) if t0.elapsed() < Duration::from_secs(3) => tokio::time::sleep(Duration::from_millis(50)).await,
            Err(e) => return Err(format!("mock start: {e}")),
        }
    };
    let session = SessionBuilder::new()
        .known_node(mock.contact_point(0))
        .pool_size(PoolSize::PerShard(std::num::NonZeroUsize::new(1).unwrap()))
        .shard_aware_local_port_range(ShardAwarePortRange::new(lo..=hi).map_err(|_| "bad range".to_string())?)
        .build()
        .await;
    let start_err = session.as_ref().err().map(|e| e.to_string()).unwrap_or_default();
    // let the pool fill: until every shard is covered, at most 4 s
    let t1 = Instant::now();
    loop {
        let shards: std::collections::BTreeSet<u16> = mock.open_connections(0).iter().filter_map(|(_, s, _)| *s).collect();
        if shards.len() as u16 >= nr || t1.elapsed() > Duration::from_secs(4) {
            break;
        }
        tokio::time::sleep(Duration::from_millis(20)).await;
    }
    tokio::time::sleep(Duration::from_millis(100)).await;
    let log = mock.log();
    let accepts: Vec<Value> = log.iter().filter(|e| e["ev"] == "accept" && e["port"].as_u64() == Some(SA_PORT as u64)).map(|e| json!([e["src_port"], e["shard"]])).collect();
    let plain = log.iter().filter(|e| e["ev"] == "accept" && e["port"].as_u64() == Some(PORT as u64)).count();
    let covered: std::collections::BTreeSet<u16> = mock.open_connections(0).iter().filter_map(|(_, s, _)| *s).collect();
    drop(session);
    mock.shutdown().await;
    drop(holders);
    Ok(json!({"id": id, "kind": "ports", "v6": v6 as i64, "nr": nr, "lo": lo, "hi": hi, "occupied": really_occupied, "accepts": accepts, "plain_accepts": plain,
              "covered": covered.into_iter().collect::<Vec<_>>(), "start_err": start_err}))
}

pub fn cmd_e2e(args: &[String]) -> i32 {
    let Some(outp) = args.first() else {
        eprintln!("usage: vh-driver c11 e2e <out.ndjson>");
        return 2;
    };
    let rt = tokio::runtime::Builder::new_multi_thread().worker_threads(2).enable_all().build().expect("runtime");
    let mut out = std::io::BufWriter::new(std::fs::File::create(outp).expect("out"));
    let mut id = 0usize;
    let mut base: u16 = 43000;
    let mut errors = 0;
    for nr in [2u16, 3, 4, 7] {
        for len in [nr, 2 * nr, 2 * nr + 1, 3 * nr] {
            let ports0: Vec<u16> = (base..base + len).collect();
            // who else holds ports: nobody / the lowest port of every shard / every port of shard 0 / all but the highest port of every shard
            for variant in 0..4 {
                // a fresh range per scenario (ports of a finished scenario linger in TIME_WAIT)
                let lo = base;
                let hi = base + len - 1;
                base += 64;
                let ports: Vec<u16> = ports0.iter().map(|p| p - ports0[0] + lo).collect();
                let occ: Vec<u16> = match variant {
                    0 => vec![],
                    1 => (0..nr).filter_map(|s| ports.iter().copied().find(|p| p % nr == s)).collect(),
                    2 => ports.iter().copied().filter(|p| p % nr == 0).collect(),
                    _ => ports.iter().copied().filter(|p| ports.iter().any(|q| q % nr == p % nr && q > p)).collect(),
                };
                match rt.block_on(scenario(id, nr, lo, hi, &occ, false)) {
                    Ok(v) => writeln!(out, "{v}").unwrap(),
                    Err(e) => {
                        eprintln!("c11 e2e scenario {id}: {e}");
                        errors += 1;
                    }
                }
                id += 1;
            }
        }
    }
    // the node is reached over IPv6
    let mut v6 = 0;
    if v6_available() {
        for nr in [2u16, 3, 5] {
            for variant in 0..3 {
                let len = 2 * nr + 1;
                let lo = base;
                let hi = base + len - 1;
                base += 64;
                let ports: Vec<u16> = (lo..=hi).collect();
                let occ: Vec<u16> = match variant {
                    0 => vec![],
                    1 => (0..nr).filter_map(|s| ports.iter().copied().find(|p| p % nr == s)).collect(),
                    _ => ports.iter().copied().filter(|p| ports.iter().any(|q| q % nr == p % nr && q > p)).collect(),
                };
                match rt.block_on(scenario(id, nr, lo, hi, &occ, true)) {
                    Ok(v) => {
                        writeln!(out, "{v}").unwrap();
                        v6 += 1;
                    }
                    Err(e) => {
                        eprintln!("c11 e2e scenario {id} (IPv6): {e}");
                        errors += 1;
                    }
                }
                id += 1;
            }
        }
    }
    // the node comes back with other sharding parameters
    for steps in [
        vec![(4u16, 12u8), (4, 0)],
        vec![(4, 0), (4, 12), (4, 20)],
        vec![(3, 12), (3, 40), (5, 40)],
        vec![(2, 5), (4, 5), (4, 33), (2, 33)],
    ] {
        match rt.block_on(msb_scenario(id, &steps)) {
            Ok(v) => writeln!(out, "{v}").unwrap(),
            Err(e) => {
                eprintln!("c11 e2e scenario {id} (restart): {e}");
                errors += 1;
            }
        }
        id += 1;
    }
    out.flush().unwrap();
    println!("{}", json!({"cmd": "c11-e2e", "scenarios": id, "v6_scenarios": v6, "errors": errors}));
    if errors > 0 { 2 } else { 0 }
}
