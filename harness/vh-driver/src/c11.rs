//! C11: Sharder — records what the real code computes for TLC-generated and random cases.

use rand::{Rng, SeedableRng};
use scylla::routing::{ShardAwarePortRange, ShardCount, Sharder, Token};
use serde_json::{Value, json};
use std::io::{BufRead, Write};

fn token_of(bytes: &[u8]) -> i64 {
    let mut a = [0u8; 8];
    a.copy_from_slice(bytes);
    i64::from_le_bytes(a)
}

fn shard_case(n: u16, msb: u8, token: i64) -> Value {
    let sharder = Sharder::new(ShardCount::new(n).unwrap(), msb);
    let shard = sharder.shard_of(Token::new(token));
    json!({"kind":"shard","n":n,"msb":msb,"token":token.to_le_bytes().to_vec(),"shard":shard})
}

fn port_case(n: u16, lo: u16, hi: u16, s: u32, draws: usize) -> Value {
    let sharder = Sharder::new(ShardCount::new(n).unwrap(), 12);
    let range = ShardAwarePortRange::new(lo..=hi).unwrap();
    let mut drawn = Vec::new();
    let mut none = 0;
    for _ in 0..draws {
        match sharder.verif_draw_source_port_for_shard_from_range(s, &range) {
            Some(p) => drawn.push(p),
            None => {
                none = 1;
                break;
            }
        }
    }
    let iter = sharder.verif_iter_source_ports_for_shard_from_range(s, &range);
    let mut ok = 1;
    for p in [lo, hi, lo / 2 + hi / 2, 1024, 65535] {
        if sharder.shard_of_source_port(p) != (p % n) as u32 {
            ok = 0;
        }
    }
    json!({"kind":"ports","n":n,"lo":lo,"hi":hi,"s":s,"draws":drawn,"draw_none":none,"iter":iter,"port_shard_ok":ok})
}

/// `c11 run <cases.ndjson> <out.ndjson> <seed> <random shard cases> <random port cases>`
pub fn cmd_run(args: &[String]) -> i32 {
    let inp = std::fs::File::open(&args[0]).expect("cases");
    let mut out = std::io::BufWriter::new(std::fs::File::create(&args[1]).expect("out"));
    let seed: u64 = args[2].parse().unwrap();
    let nrs: usize = args[3].parse().unwrap();
    let nrp: usize = args[4].parse().unwrap();
    let mut n = 0usize;
    let mut mism = 0usize;
    let mut panics = 0usize;
    let mut emit = |v: std::thread::Result<Value>, out: &mut dyn Write| match v {
        Ok(v) => writeln!(out, "{}", v).unwrap(),
        Err(_) => {
            writeln!(out, "{}", json!({"kind":"panic","msg":crate::last_panic()})).unwrap();
        }
    };
    for line in std::io::BufReader::new(inp).lines() {
        let line = line.unwrap();
        if line.trim().is_empty() {
            continue;
        }
        let c: Value = serde_json::from_str(&line).unwrap();
        n += 1;
        if c["kind"] == "shard" {
            let bytes: Vec<u8> = c["token"].as_array().unwrap().iter().map(|x| x.as_u64().unwrap() as u8).collect();
            let (nn, msb) = (c["n"].as_u64().unwrap() as u16, c["msb"].as_u64().unwrap() as u8);
            let r = std::panic::catch_unwind(|| shard_case(nn, msb, token_of(&bytes)));
            if let Ok(v) = &r {
                if v["shard"] != c["shard"] {
                    mism += 1;
                }
            } else {
                panics += 1;
            }
            emit(r, &mut out);
            // tokens at and around the first token of a few shards (inputs only; TLC judges the outputs)
            if bytes[0] == 0 && bytes[7] == 0 && nn > 1 {
                for sidx in [1u128, (nn as u128) / 2, nn as u128 - 1] {
                    if sidx == 0 {
                        continue;
                    }
                    let x: u128 = ((sidx << 64) + nn as u128 - 1) / nn as u128; // smallest shifted value in shard sidx
                    let unit: u128 = 1u128 << msb;
                    let xr = ((x + unit - 1) >> msb) << msb; // next value representable after the shift
                    for delta in [-1i128, 0, 1] {
                        let shifted = xr as i128 + delta * unit as i128;
                        if shifted < 0 || shifted >= (1i128 << 64) {
                            continue;
                        }
                        let biased = (shifted as u128 >> msb) as u64;
                        let token = biased.wrapping_sub(1u64 << 63) as i64;
                        if token == i64::MIN {
                            continue;
                        }
                        let r = std::panic::catch_unwind(|| shard_case(nn, msb, token));
                        if r.is_err() {
                            panics += 1;
                        }
                        emit(r, &mut out);
                        n += 1;
                    }
                }
            }
        } else {
            let (nn, lo, hi) = (c["n"].as_u64().unwrap() as u16, c["lo"].as_u64().unwrap() as u16, c["hi"].as_u64().unwrap() as u16);
            let shards: Vec<u32> = if nn <= 4 { (0..nn as u32).collect() } else { vec![0, 1, (nn / 2) as u32, nn as u32 - 1] };
            for s in shards {
                let r = std::panic::catch_unwind(|| port_case(nn, lo, hi, s, 40));
                if r.is_err() {
                    panics += 1;
                }
                emit(r, &mut out);
            }
        }
    }
    let mut rng = rand::rngs::StdRng::seed_from_u64(seed);
    for _ in 0..nrs {
        let nn: u16 = match rng.random_range(0..4) {
            0 => rng.random_range(1..=64),
            1 => rng.random_range(1..=65535),
            2 => [255u16, 256, 257, 1024, 4095, 4096, 65535][rng.random_range(0..7)],
            _ => rng.random_range(1..=16),
        };
        let msb: u8 = rng.random_range(0..=63);
        let mut token: i64 = match rng.random_range(0..4) {
            0 => rng.random(),
            1 => i64::MAX - rng.random_range(0..3),
            2 => i64::MIN + 1 + rng.random_range(0..3),
            _ => (1i64 << rng.random_range(0..63)).wrapping_sub(rng.random_range(0..2)),
        };
        if token == i64::MIN {
            token = 0;
        }
        let r = std::panic::catch_unwind(|| shard_case(nn, msb, token));
        if r.is_err() {
            panics += 1;
        }
        emit(r, &mut out);
        n += 1;
    }
    for _ in 0..nrp {
        let nn: u16 = rng.random_range(1..=300);
        let lo: u16 = rng.random_range(1024..=65535);
        let w: u16 = rng.random_range(0..=900);
        let hi = lo.saturating_add(w);
        let s: u32 = rng.random_range(0..nn as u32);
        let r = std::panic::catch_unwind(|| port_case(nn, lo, hi, s, 25));
        if r.is_err() {
            panics += 1;
        }
        emit(r, &mut out);
        n += 1;
    }
    out.flush().unwrap();
    println!("{}", json!({"cases": n, "differ_from_spec_vectors": mism, "panics": panics}));
    0
}
