//! C13: speculative execution — TLC-generated scenarios run on the real `execute` under a paused clock.

use scylla::errors::{DbError, RequestAttemptError, RequestError};
use scylla::policies::speculative_execution::verif_hooks::execute;
use serde_json::{Value, json};
use std::cell::RefCell;
use std::io::{BufRead, Write};
use std::rc::Rc;
use std::time::Duration;

const UNIT_MS: u64 = 10;

fn make_err(class: &str, i: usize) -> RequestError {
    let msg = format!("f{}", i);
    match class {
        "Def" => match i % 5 {
            0 => RequestError::LastAttemptError(RequestAttemptError::DbError(DbError::SyntaxError, msg)),
            1 => RequestError::LastAttemptError(RequestAttemptError::DbError(DbError::Invalid, msg)),
            2 => RequestError::LastAttemptError(RequestAttemptError::DbError(DbError::Unauthorized, msg)),
            3 => RequestError::LastAttemptError(RequestAttemptError::DbError(DbError::TruncateError, msg)),
            _ => RequestError::LastAttemptError(RequestAttemptError::DbError(DbError::ProtocolError, msg)),
        },
        _ => match i % 5 {
            0 => RequestError::LastAttemptError(RequestAttemptError::DbError(DbError::Overloaded, msg)),
            1 => RequestError::LastAttemptError(RequestAttemptError::DbError(DbError::ServerError, msg)),
            2 => RequestError::LastAttemptError(RequestAttemptError::DbError(DbError::IsBootstrapping, msg)),
            3 => RequestError::LastAttemptError(RequestAttemptError::UnableToAllocStreamId),
            _ => RequestError::LastAttemptError(RequestAttemptError::DbError(
                DbError::RateLimitReached { op_type: scylla::errors::OperationType::Write, rejected_by_coordinator: true },
                msg,
            )),
        },
    }
}

fn identify(e: &RequestError, outs: &[String]) -> (String, i64) {
    match e {
        RequestError::EmptyPlan => ("Empty".into(), -1),
        RequestError::LastAttemptError(RequestAttemptError::DbError(_, msg)) => {
            let i: i64 = msg.trim_start_matches('f').parse().unwrap_or(-1);
            let class = outs.get(i as usize).cloned().unwrap_or_else(|| "Unknown".into());
            (class, i)
        }
        RequestError::LastAttemptError(RequestAttemptError::UnableToAllocStreamId) => {
            // used only by fibers with i % 5 == 3 and class Ign
            let i = outs.iter().enumerate().find(|(i, o)| i % 5 == 3 && o.as_str() == "Ign").map(|(i, _)| i as i64).unwrap_or(-1);
            ("Ign".into(), i)
        }
        _ => ("Unknown".into(), -1),
    }
}

fn run_scenario(sc: &Value, out: &mut dyn Write, rep: usize) {
    let m = sc["m"].as_u64().unwrap() as usize;
    let iv = sc["iv"].as_u64().unwrap();
    let d: Vec<u64> = sc["d"].as_array().unwrap().iter().map(|x| x.as_u64().unwrap()).collect();
    let o: Vec<String> = sc["o"].as_array().unwrap().iter().map(|x| x.as_str().unwrap().to_string()).collect();
    let rt = tokio::runtime::Builder::new_current_thread().enable_time().start_paused(true).build().unwrap();
    let events: Rc<RefCell<Vec<Value>>> = Rc::new(RefCell::new(Vec::new()));
    let ev2 = events.clone();
    let outs = o.clone();
    rt.block_on(async move {
        let t0 = tokio::time::Instant::now();
        let now = move || -> u64 { (t0.elapsed().as_millis() as u64) / UNIT_MS };
        let counter = Rc::new(RefCell::new(0usize));
        let evg = ev2.clone();
        let (dd, oo) = (d.clone(), o.clone());
        let generator = move |is_spec: bool| {
            let i = {
                let mut c = counter.borrow_mut();
                let i = *c;
                *c += 1;
                i
            };
            evg.borrow_mut().push(json!({"k":"S","i":i,"t":now(),"spec": if is_spec {1} else {0}}));
            let evf = evg.clone();
            let dur = dd.get(i).copied().unwrap_or(0);
            let outc = oo.get(i).cloned().unwrap_or_else(|| "Exh".to_string());
            async move {
                if dur > 0 {
                    tokio::time::sleep(Duration::from_millis(dur * UNIT_MS)).await;
                }
                evf.borrow_mut().push(json!({"k":"E","i":i,"t":now(),"o":outc}));
                match outc.as_str() {
                    "Ok" => Some(Ok(i)),
                    "Exh" => None,
                    c => Some(Err(make_err(c, i))),
                }
            }
        };
        let call = execute(m, Duration::from_millis(iv * UNIT_MS), generator);
        // virtual deadline far beyond anything the scenario can need
        let res = tokio::time::timeout(Duration::from_millis(10_000 * UNIT_MS), std::panic::AssertUnwindSafe(call)).await;
        let t = now();
        match res {
            Err(_) => ev2.borrow_mut().push(json!({"k":"H"})),
            Ok(Ok(i)) => ev2.borrow_mut().push(json!({"k":"R","t":t,"r":"Ok","i":i})),
            Ok(Err(e)) => {
                let (r, i) = identify(&e, &outs);
                ev2.borrow_mut().push(json!({"k":"R","t":t,"r":r,"i":i}));
            }
        }
    });
    let evs = events.borrow().clone();
    writeln!(out, "{}", json!({"m": m, "rep": rep, "scen": sc, "evs": evs})).unwrap();
}

/// `c13 run <scenarios.ndjson> <out.ndjson> <reps>`
pub fn cmd_run(args: &[String]) -> i32 {
    let inp = std::fs::File::open(&args[0]).expect("scenarios");
    let mut out = std::io::BufWriter::new(std::fs::File::create(&args[1]).expect("out"));
    let reps: usize = args.get(2).and_then(|s| s.parse().ok()).unwrap_or(3);
    let mut n = 0;
    let mut panics = 0;
    for line in std::io::BufReader::new(inp).lines() {
        let line = line.unwrap();
        if line.trim().is_empty() {
            continue;
        }
        let sc: Value = serde_json::from_str(&line).unwrap();
        for rep in 0..reps {
            let r = std::panic::catch_unwind(std::panic::AssertUnwindSafe(|| run_scenario(&sc, &mut out, rep)));
            if r.is_err() {
                panics += 1;
                writeln!(out, "{}", json!({"m": sc["m"], "rep": rep, "scen": sc, "evs": [{"k":"P","msg":crate::last_panic()}]})).unwrap();
            }
            n += 1;
        }
    }
    out.flush().unwrap();
    println!("{}", json!({"runs": n, "panics": panics}));
    0
}

/// `c13 classify <out.ndjson>`: which failures of one execution end a speculative call at once (definitive) and which are
/// passed over while another execution may still succeed (ignorable). For every constructible error E the real `execute`
/// runs two executions under the paused clock — the original fails with E at t = 1, the speculative one succeeds at t = 5 —
/// and the harness records what the call returned and when. One output line per error: {"name":..,"result":"Ok"|"Err","t":..}
pub fn cmd_classify(args: &[String]) -> i32 {
    use scylla::errors::{BrokenConnectionErrorKind, ConnectionPoolError};
    use scylla::statement::Consistency;
    if args.len() != 1 {
        eprintln!("usage: vh-driver c13 classify <out.ndjson>");
        return 2;
    }
    let db = |e: DbError| RequestError::LastAttemptError(RequestAttemptError::DbError(e, "x".into()));
    let cl = Consistency::Quorum;
    let table: Vec<(&str, Box<dyn Fn() -> RequestError>)> = vec![
        ("SyntaxError", Box::new(move || db(DbError::SyntaxError))),
        ("Invalid", Box::new(move || db(DbError::Invalid))),
        ("AlreadyExists", Box::new(move || db(DbError::AlreadyExists { keyspace: "k".into(), table: "t".into() }))),
        ("Unauthorized", Box::new(move || db(DbError::Unauthorized))),
        ("ProtocolError", Box::new(move || db(DbError::ProtocolError))),
        ("AuthenticationError", Box::new(move || db(DbError::AuthenticationError))),
        ("Other", Box::new(move || db(DbError::Other(0x7777)))),
        ("FunctionFailure", Box::new(move || db(DbError::FunctionFailure { keyspace: "k".into(), function: "f".into(), arg_types: vec![] }))),
        ("ConfigError", Box::new(move || db(DbError::ConfigError))),
        ("TruncateError", Box::new(move || db(DbError::TruncateError))),
        ("Unavailable", Box::new(move || db(DbError::Unavailable { consistency: cl, required: 2, alive: 1 }))),
        ("Overloaded", Box::new(move || db(DbError::Overloaded))),
        ("IsBootstrapping", Box::new(move || db(DbError::IsBootstrapping))),
        ("ReadTimeout", Box::new(move || db(DbError::ReadTimeout { consistency: cl, received: 1, required: 2, data_present: false }))),
        ("WriteTimeout", Box::new(move || db(DbError::WriteTimeout { consistency: cl, received: 1, required: 2, write_type: scylla::errors::WriteType::Simple }))),
        ("ReadFailure", Box::new(move || db(DbError::ReadFailure { consistency: cl, received: 1, required: 2, numfailures: 1, data_present: false }))),
        ("WriteFailure", Box::new(move || db(DbError::WriteFailure { consistency: cl, received: 1, required: 2, numfailures: 1, write_type: scylla::errors::WriteType::Simple }))),
        ("Unprepared", Box::new(move || db(DbError::Unprepared { statement_id: vec![1u8, 2].into() }))),
        ("ServerError", Box::new(move || db(DbError::ServerError))),
        ("RateLimitReached", Box::new(move || db(DbError::RateLimitReached { op_type: scylla::errors::OperationType::Read, rejected_by_coordinator: false }))),
        ("UnableToAllocStreamId", Box::new(|| RequestError::LastAttemptError(RequestAttemptError::UnableToAllocStreamId))),
        ("BrokenConnection", Box::new(|| RequestError::LastAttemptError(RequestAttemptError::BrokenConnectionError(BrokenConnectionErrorKind::ChannelError.into())))),
        ("RepreparedIdMissingInBatch", Box::new(|| RequestError::LastAttemptError(RequestAttemptError::RepreparedIdMissingInBatch))),
        ("NonfinishedPagingState", Box::new(|| RequestError::LastAttemptError(RequestAttemptError::NonfinishedPagingState))),
        ("EmptyPlan", Box::new(|| RequestError::EmptyPlan)),
        ("RequestTimeout", Box::new(|| RequestError::RequestTimeout(Duration::from_secs(1)))),
        ("PoolInitializing", Box::new(|| RequestError::ConnectionPoolError(ConnectionPoolError::Initializing))),
        ("PoolNodeDisabledByHostFilter", Box::new(|| RequestError::ConnectionPoolError(ConnectionPoolError::NodeDisabledByHostFilter))),
    ];
    let mut out = match std::fs::File::create(&args[0]) {
        Ok(f) => std::io::BufWriter::new(f),
        Err(e) => {
            eprintln!("create {}: {e}", args[0]);
            return 2;
        }
    };
    for (name, mk) in &table {
        let rt = tokio::runtime::Builder::new_current_thread().enable_time().start_paused(true).build().unwrap();
        let (result, t) = rt.block_on(async {
            let t0 = tokio::time::Instant::now();
            let counter = Rc::new(RefCell::new(0usize));
            let generator = |_is_spec: bool| {
                let i = {
                    let mut c = counter.borrow_mut();
                    let i = *c;
                    *c += 1;
                    i
                };
                let e = if i == 0 { Some(mk()) } else { None };
                async move {
                    tokio::time::sleep(Duration::from_millis(if i == 0 { 1 } else { 4 } * UNIT_MS)).await;
                    match e {
                        Some(e) => Some(Err(e)),
                        None => Some(Ok(i)),
                    }
                }
            };
            let res = execute(1, Duration::from_millis(UNIT_MS), generator).await;
            ((if res.is_ok() { "Ok" } else { "Err" }).to_string(), (t0.elapsed().as_millis() as u64) / UNIT_MS)
        });
        if writeln!(out, "{}", json!({"name": name, "result": result, "t": t})).is_err() {
            return 2;
        }
    }
    // bound on the number of executions at the intervals where a timer-driven loop may change its ways: for every max 0..3 and
    // interval 0, 1 (units), executions that all take 5 units and succeed: how many were started, and when the call returned
    for max in 0usize..=3 {
        for iv in [0u64, 1] {
            let rt = tokio::runtime::Builder::new_current_thread().enable_time().start_paused(true).build().unwrap();
            let (started, ok, t) = rt.block_on(async {
                let t0 = tokio::time::Instant::now();
                let counter = Rc::new(RefCell::new(0usize));
                let generator = |_is_spec: bool| {
                    let i = {
                        let mut c = counter.borrow_mut();
                        let i = *c;
                        *c += 1;
                        i
                    };
                    async move {
                        tokio::time::sleep(Duration::from_millis(5 * UNIT_MS)).await;
                        Some(Ok::<usize, RequestError>(i))
                    }
                };
                let res = execute(max, Duration::from_millis(iv * UNIT_MS), generator).await;
                let n = *counter.borrow();
                (n, res.is_ok(), (t0.elapsed().as_millis() as u64) / UNIT_MS)
            });
            if writeln!(out, "{}", json!({"name": "Bound", "max": max, "iv": iv, "started": started, "result": if ok { "Ok" } else { "Err" }, "t": t})).is_err() {
                return 2;
            }
        }
    }
    let _ = out.flush();
    println!("{}", json!({"cmd": "c13-classify", "lines": table.len()}));
    0
}
