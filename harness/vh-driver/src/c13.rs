//! C13: speculative execution — TLC-generated scenarios run on the real `execute` under a paused clock.

use scylla::errors::{DbError, RequestAttemptError, RequestError};
use scylla::policies::speculative_execution::verif_hooks::execute;
use serde_json::{Value, json};
use std::cell::RefCell;
use std::io::{BufRead, Write};
use std::rc::Rc;
use std::time::Duration;

const UNIT_MS: u64 = 10;

fn make_err(class: &str, i: usize) -> RequestError {
    let msg = format!("f{}", i);
    match class {
        "Def" => match i % 5 {
            0 => RequestError::LastAttemptError(RequestAttemptError::DbError(DbError::SyntaxError, msg)),
            1 => RequestError::LastAttemptError(RequestAttemptError::DbError(DbError::Invalid, msg)),
            2 => RequestError::LastAttemptError(RequestAttemptError::DbError(DbError::Unauthorized, msg)),
            3 => RequestError::LastAttemptError(RequestAttemptError::DbError(DbError::TruncateError, msg)),
            _ => RequestError::LastAttemptError(RequestAttemptError::DbError(DbError::ProtocolError, msg)),
        },
        _ => match i % 5 {
            0 => RequestError::LastAttemptError(RequestAttemptError::DbError(DbError::Overloaded, msg)),
            1 => RequestError::LastAttemptError(RequestAttemptError::DbError(DbError::ServerError, msg)),
            2 => RequestError::LastAttemptError(RequestAttemptError::DbError(DbError::IsBootstrapping, msg)),
            3 => RequestError::LastAttemptError(RequestAttemptError::UnableToAllocStreamId),
            _ => RequestError::LastAttemptError(RequestAttemptError::DbError(
                DbError::RateLimitReached { op_type: scylla::errors::OperationType::Write, rejected_by_coordinator: true },
                msg,
            )),
        },
    }
}

fn identify(e: &RequestError, outs: &[String]) -> (String, i64) {
    match e {
        RequestError::EmptyPlan => ("Empty".into(), -1),
        RequestError::LastAttemptError(RequestAttemptError::DbError(_, msg)) => {
            let i: i64 = msg.trim_start_matches('f').parse().unwrap_or(-1);
            let class = outs.get(i as usize).cloned().unwrap_or_else(|| "Unknown".into());
            (class, i)
        }
        RequestError::LastAttemptError(RequestAttemptError::UnableToAllocStreamId) => {
            // used only by fibers with i % 5 == 3 and class Ign
            let i = outs.iter().enumerate().find(|(i, o)| i % 5 == 3 && o.as_str() == "Ign").map(|(i, _)| i as i64).unwrap_or(-1);
            ("Ign".into(), i)
        }
        _ => ("Unknown".into(), -1),
    }
}

fn run_scenario(sc: &Value, out: &mut dyn Write, rep: usize) {
    let m = sc["m"].as_u64().unwrap() as usize;
    let iv = sc["iv"].as_u64().unwrap();
    let d: Vec<u64> = sc["d"].as_array().unwrap().iter().map(|x| x.as_u64().unwrap()).collect();
    let o: Vec<String> = sc["o"].as_array().unwrap().iter().map(|x| x.as_str().unwrap().to_string()).collect();
    let rt = tokio::runtime::Builder::new_current_thread().enable_time().start_paused(true).build().unwrap();
    let events: Rc<RefCell<Vec<Value>>> = Rc::new(RefCell::new(Vec::new()));
    let ev2 = events.clone();
    let outs = o.clone();
    rt.block_on(async move {
        let t0 = tokio::time::Instant::now();
        let now = move || -> u64 { (t0.elapsed().as_millis() as u64) / UNIT_MS };
        let counter = Rc::new(RefCell::new(0usize));
        let evg = ev2.clone();
        let (dd, oo) = (d.clone(), o.clone());
        let generator = move |is_spec: bool| {
            let i = {
                let mut c = counter.borrow_mut();
                let i = *c;
                *c += 1;
                i
            };
            evg.borrow_mut().push(json!({"k":"S","i":i,"t":now(),"spec": if is_spec {1} else {0}}));
            let evf = evg.clone();
            let dur = dd.get(i).copied().unwrap_or(0);
            let outc = oo.get(i).cloned().unwrap_or_else(|| "Exh".to_string());
            async move {
                if dur > 0 {
                    tokio::time::sleep(Duration::from_millis(dur * UNIT_MS)).await;
                }
                evf.borrow_mut().push(json!({"k":"E","i":i,"t":now(),"o":outc}));
                match outc.as_str() {
                    "Ok" => Some(Ok(i)),
                    "Exh" => None,
                    c => Some(Err(make_err(c, i))),
                }
            }
        };
        let call = execute(m, Duration::from_millis(iv * UNIT_MS), generator);
        // virtual deadline far beyond anything the scenario can need
        let res = tokio::time::timeout(Duration::from_millis(10_000 * UNIT_MS), std::panic::AssertUnwindSafe(call)).await;
        let t = now();
        match res {
            Err(_) => ev2.borrow_mut().push(json!({"k":"H"})),
            Ok(Ok(i)) => ev2.borrow_mut().push(json!({"k":"R","t":t,"r":"Ok","i":i})),
            Ok(Err(e)) => {
                let (r, i) = identify(&e, &outs);
                ev2.borrow_mut().push(json!({"k":"R","t":t,"r":r,"i":i}));
            }
        }
    });
    let evs = events.borrow().clone();
    writeln!(out, "{}", json!({"m": m, "rep": rep, "scen": sc, "evs": evs})).unwrap();
}

/// `c13 run <scenarios.ndjson> <out.ndjson> <reps>`
pub fn cmd_run(args: &[String]) -> i32 {
    let inp = std::fs::File::open(&args[0]).expect("scenarios");
    let mut out = std::io::BufWriter::new(std::fs::File::create(&args[1]).expect("out"));
    let reps: usize = args.get(2).and_then(|s| s.parse().ok()).unwrap_or(3);
    let mut n = 0;
    let mut panics = 0;
    for line in std::io::BufReader::new(inp).lines() {
        let line = line.unwrap();
        if line.trim().is_empty() {
            continue;
        }
        let sc: Value = serde_json::from_str(&line).unwrap();
        for rep in 0..reps {
            let r = std::panic::catch_unwind(std::panic::AssertUnwindSafe(|| run_scenario(&sc, &mut out, rep)));
            if r.is_err() {
                panics += 1;
                writeln!(out, "{}", json!({"m": sc["m"], "rep": rep, "scen": sc, "evs": [{"k":"P","msg":crate::last_panic()}]})).unwrap();
            }
            n += 1;
        }
    }
    out.flush().unwrap();
    println!("{}", json!({"runs": n, "panics": panics}));
    0
}
