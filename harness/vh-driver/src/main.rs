//! vh-driver: conformance harness for the `scylla` crate (built with --cfg scylla_verif).
mod c18;
mod c19;
mod gate;

fn main() {
    let args: Vec<String> = std::env::args().skip(1).collect();
    if args.len() < 2 {
        eprintln!("usage: vh-driver <prop> <cmd> [args..]");
        std::process::exit(2);
    }
    let rest = &args[2..];
    let rc = match (args[0].as_str(), args[1].as_str()) {
        ("c18", "run") => c18::cmd_run(rest),
        ("c18", "learn") => c18::cmd_learn(rest),
        ("c18", "stress") => c18::cmd_stress(rest),
        ("c19", "run") => c19::cmd_run(rest),
        ("c19", "learn") => c19::cmd_learn(rest),
        ("c19", "stress") => c19::cmd_stress(rest),
        _ => {
            eprintln!("unknown command {:?}", &args[..2]);
            2
        }
    };
    std::process::exit(rc);
}
