//! vh-driver: conformance harness for the `scylla` crate (built with --cfg scylla_verif).
mod c02;
mod c03;
mod c04;
mod c05;
mod c06;
mod c07;
use c06 as c06_support;
mod exec;
mod e2e;
mod c09;
mod c09e;
mod alloc;
mod x01;
mod x02;
mod c08t;
mod c11;
mod c11e;
mod c12;
mod c13;
mod c14;
mod c15;
mod c18;
mod c18e;
mod c19;
mod c19e;
mod c20;
mod gate;
mod mock;

static LAST_PANIC: std::sync::Mutex<String> = std::sync::Mutex::new(String::new());

/// Message of the most recent panic caught in code under test (set by the panic hook).
pub fn last_panic() -> String {
    LAST_PANIC.lock().unwrap().clone()
}

#[global_allocator]
static GLOBAL: alloc::Counting = alloc::Counting;

fn main() {
    std::panic::set_hook(Box::new(|info| {
        let loc = info.location().map(|l| format!("{}:{}", l.file(), l.line())).unwrap_or_default();
        let msg = if let Some(s) = info.payload().downcast_ref::<&str>() {
            s.to_string()
        } else if let Some(s) = info.payload().downcast_ref::<String>() {
            s.clone()
        } else {
            "panic".to_string()
        };
        *LAST_PANIC.lock().unwrap() = format!("{} at {}", msg, loc);
    }));
    let args: Vec<String> = std::env::args().skip(1).collect();
    if args.len() < 2 {
        eprintln!("usage: vh-driver <prop> <cmd> [args..]");
        std::process::exit(2);
    }
    let rest = &args[2..];
    let rc = match (args[0].as_str(), args[1].as_str()) {
        ("c02", "map") => c02::cmd_map(rest),
        ("c02", "exhaust") => c02::cmd_exhaust(rest),
        ("c02", "router") => c02::cmd_router(rest),
        ("exec", "run") => exec::cmd_run(rest),
        ("e2e", "run") => e2e::cmd_run(rest),
        ("c03", "run") => c03::cmd_run(rest),
        ("c04", "run") => c04::cmd_run(rest),
        ("c05", "run") => c05::cmd_run(rest),
        ("c06", "walk") => c06::cmd_walk(rest),
        ("c07", _) => c07::cmd_run(&args[1..]),
        ("c07-control", _) => c07::cmd_control(&args[1..]),
        ("c09", "run") => c09::cmd_run(rest),
        ("c09", "e2e") => c09e::cmd_e2e(rest),
        ("c08", "tablets") => c08t::cmd_tablets(rest),
        ("x01", "run") => x01::cmd_run(rest),
        ("x02", "run") => x02::cmd_run(rest),
        ("c11", "run") => c11::cmd_run(rest),
        ("c11", "e2e") => c11e::cmd_e2e(rest),
        ("c12", "run") => c12::cmd_run(rest),
        ("c13", "run") => c13::cmd_run(rest),
        ("c13", "classify") => c13::cmd_classify(rest),
        ("c14", "run") => c14::cmd_run(rest),
        ("c20", "run") => c20::cmd_run(rest),
        ("c15", "walk") => c15::cmd_walk(rest),
        ("c15", "random") => c15::cmd_random(rest),
        ("c18", "run") => c18::cmd_run(rest),
        ("c18", "learn") => c18::cmd_learn(rest),
        ("c18", "stress") => c18::cmd_stress(rest),
        ("c18", "e2e") => c18e::cmd_e2e(rest),
        ("c19", "run") => c19::cmd_run(rest),
        ("c19", "learn") => c19::cmd_learn(rest),
        ("c19", "stress") => c19::cmd_stress(rest),
        ("c19", "merge") => c19::cmd_merge(rest),
        ("c19", "refresh") => c19e::cmd_refresh(rest),
        ("mock", "demo") => mock::cmd_demo(rest),
        _ => {
            eprintln!("unknown command {:?}", &args[..2]);
            2
        }
    };
    std::process::exit(rc);
}
