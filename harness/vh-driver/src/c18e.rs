//! `vh-driver c18 e2e <scripts.ndjson> <out.ndjson>`: timestamps as the server sees them (property C18, end-to-end half).
//! One fresh mock cluster (1 node) + Session with a MonotonicTimestampGenerator per script. Every step is a write issued
//! through one of the session's paths, with or without an explicit timestamp; the mock records the timestamp field of
//! every QUERY / EXECUTE / BATCH frame it receives (retries and the re-sent frame after a re-preparation included).
//! Input: {"id":N,"steps":[{"op":"query"|"execute"|"batch_prepared"|"batch_mixed","explicit":0|1,"ts":T,"evict":0|1},...]}
//!   query           Statement with one bound value (session prepares it first: the "unprepared with values" path)
//!   execute         PreparedStatement
//!   batch_prepared  Batch of two prepared statements
//!   batch_mixed     Batch of one prepared and one unprepared statement WITH bound values (rebuilt-batch path)
//!   query_novals / query_page / query_iter   Statement without values (plain QUERY frame) unpaged / single page / paging iterator
//!   query_iter_vals                          Statement with values through the paging iterator
//!   execute_page / execute_iter              PreparedStatement by single page / through the paging iterator
//!   execute_lwt     PreparedStatement the node marked as LWT (SCYLLA_LWT_ADD_METADATA_MARK)
//!   batch_member    Batch with an explicit timestamp whose member statements carry explicit timestamps of their own
//!   evict: 1        the node forgets every prepared statement just before the step (UNPREPARED -> PREPARE -> same request again)
//! Output per step: {"step":..,"ok":0|1,"err":"","frames":[{"opcode":7|10|13,"ts":T|"none","reply":"void"|"unprepared"}...]}
use std::collections::HashSet;
use std::io::{BufRead, Write};
use std::net::Ipv4Addr;
use std::num::NonZeroUsize;
use std::sync::{Arc, Mutex};
use std::time::{Duration, Instant};

use serde_json::{Value, json};

use crate::mock::{Action, MockCluster, MockColumn, MockConfig, MockKeyspace, MockNodeCfg, MockTable, Reply, Request, stable_id, type_bytes};

const PORT: u16 = 19418;
const INS_A: &str = "INSERT INTO ks.t (a, b) VALUES (?, ?)";
const INS_B: &str = "INSERT INTO ks.t (a, b) VALUES (?, ?) IF NOT EXISTS";
const INS_Q: &str = "UPDATE ks.t SET b = ? WHERE a = ?";
const INS_N: &str = "UPDATE ks.t SET b = 1 WHERE a = 2";

#[derive(Default)]
struct Model {
    prepared: HashSet<Vec<u8>>,
    frames: Vec<Value>,
}

fn bind_cols() -> Vec<(String, Vec<u8>)> {
    vec![("a".into(), type_bytes("int").unwrap()), ("b".into(), type_bytes("int").unwrap())]
}

impl Model {
    fn handle(&mut self, req: &Request) -> Action {
        let unprepared = |id: &[u8]| {
            let mut extra = vec![(id.len() >> 8) as u8, id.len() as u8];
            extra.extend_from_slice(id);
            Action::Reply(Reply::Error { code: 0x2500, message: "unprepared".into(), extra })
        };
        match req.opcode {
            9 => {
                let text = req.query.clone().unwrap_or_default();
                let id = stable_id(text.as_bytes());
                self.prepared.insert(id.clone());
                if text.contains("IF NOT EXISTS") && req.ext_lwt_mark {
                    // the node marks the statement as LWT (prepared-metadata flag negotiated through SCYLLA_LWT_ADD_METADATA_MARK)
                    let body = crate::mock::encode_prepared_body(false, &id, None, crate::mock::LWT_MARK_MASK, &[0], &bind_cols(), &[], "ks", "t");
                    return Action::Reply(Reply::Raw { opcode: 8, body });
                }
                Action::Reply(Reply::Prepared { id, result_metadata_id: None, pk_indexes: vec![0], bind_cols: bind_cols(), result_cols: vec![], ks: "ks".into(), table: "t".into() })
            }
            7 | 10 | 13 => {
                let ts = match req.opcode {
                    13 => req.batch.as_ref().and_then(|b| b.timestamp),
                    _ => req.timestamp,
                };
                let missing: Option<Vec<u8>> = match req.opcode {
                    10 => req.prepared_id.clone().filter(|id| !self.prepared.contains(id)),
                    13 => req.batch.as_ref().and_then(|b| b.statements.iter().filter_map(|s| s.prepared_id.clone()).find(|id| !self.prepared.contains(id))),
                    _ => None,
                };
                let reply = if missing.is_some() { "unprepared" } else { "void" };
                self.frames.push(json!({"opcode": req.opcode, "ts": ts.map(Value::from).unwrap_or(json!("none")), "reply": reply}));
                match missing {
                    Some(id) => unprepared(&id),
                    None => Action::Reply(Reply::Void),
                }
            }
            _ => Action::Reply(Reply::Void),
        }
    }
}

fn mock_config() -> MockConfig {
    MockConfig {
        port: PORT,
        shard_aware_port: None,
        nodes: vec![MockNodeCfg {
            ip: Ipv4Addr::new(127, 0, 18, 1),
            host_id: uuid::Uuid::from_u128((0xC18u128 << 64) | 1),
            dc: "dc1".into(),
            rack: "r1".into(),
            tokens: vec![0],
            nr_shards: None,
            msb_ignore: 0,
            metadata_id_ext: false,
            tablets_ext: false,
            lwt_mark: true,
        }],
        keyspaces: vec![MockKeyspace {
            name: "ks".into(),
            replication: vec![("class".into(), "org.apache.cassandra.locator.SimpleStrategy".into()), ("replication_factor".into(), "1".into())],
            tablets: false,
            tables: vec![MockTable {
                name: "t".into(),
                columns: vec![
                    MockColumn { name: "a".into(), kind: "partition_key".into(), position: 0, typ: "int".into() },
                    MockColumn { name: "b".into(), kind: "regular".into(), position: -1, typ: "int".into() },
                ],
                partitioner: Some("org.apache.cassandra.dht.Murmur3Partitioner".into()),
            }],
        }],
        system_page_size_override: None,
    }
}

async fn run_script(sc: &Value) -> Value {
    use scylla::client::PoolSize;
    use scylla::client::session_builder::SessionBuilder;
    use scylla::policies::timestamp_generator::MonotonicTimestampGenerator;
    use scylla::statement::batch::{Batch, BatchType};
    use scylla::response::PagingState;
    use scylla::statement::unprepared::Statement;

    let id = sc["id"].clone();
    let fail = |e: String| json!({"id": id, "start_err": e, "steps": []});
    let model = Arc::new(Mutex::new(Model::default()));
    let m2 = model.clone();
    let handler: crate::mock::Handler = Arc::new(move |req: &Request| m2.lock().unwrap().handle(req));
    let t0 = Instant::now();
    let mock = loop {
        match MockCluster::try_start(mock_config(), handler.clone()).await {
            Ok(m) => break m,
            Err(_) if t0.elapsed() < Duration::from_secs(3) => tokio::time::sleep(Duration::from_millis(50)).await,
            Err(e) => return fail(format!("mock start: {e}")),
        }
    };
    let session = match SessionBuilder::new()
        .known_node(mock.contact_point(0))
        .pool_size(PoolSize::PerHost(NonZeroUsize::new(1).unwrap()))
        .timestamp_generator(Arc::new(MonotonicTimestampGenerator::new()))
        .build()
        .await
    {
        Ok(s) => s,
        Err(e) => {
            mock.shutdown().await;
            return fail(format!("session build: {e}"));
        }
    };
    let (pa, pb) = match (session.prepare(INS_A).await, session.prepare(INS_B).await) {
        (Ok(a), Ok(b)) => (a, b),
        (a, b) => {
            drop(session);
            mock.shutdown().await;
            return fail(format!("prepare: {:?} {:?}", a.err().map(|e| e.to_string()), b.err().map(|e| e.to_string())));
        }
    };
    let lwt_confirmed = pb.is_confirmed_lwt() && !pa.is_confirmed_lwt();
    let mut steps = Vec::new();
    for (i, st) in sc["steps"].as_array().cloned().unwrap_or_default().into_iter().enumerate() {
        let explicit = st["explicit"].as_u64() == Some(1);
        let ts = st["ts"].as_i64().unwrap_or(0);
        if st["evict"].as_u64() == Some(1) {
            model.lock().unwrap().prepared.clear();
        }
        let from = model.lock().unwrap().frames.len();
        let k = i as i32;
        let res: Result<(), String> = match st["op"].as_str().unwrap_or("") {
            "query" => {
                let mut q = Statement::new(INS_Q);
                if explicit {
                    q.set_timestamp(Some(ts));
                }
                session.query_unpaged(q, (k, k)).await.map(|_| ()).map_err(|e| e.to_string())
            }
            "execute" => {
                let mut p = pa.clone();
                if explicit {
                    p.set_timestamp(Some(ts));
                }
                session.execute_unpaged(&p, (k, k)).await.map(|_| ()).map_err(|e| e.to_string())
            }
            "query_novals" | "query_page" | "query_iter" => {
                let mut q = Statement::new(INS_N);
                if explicit {
                    q.set_timestamp(Some(ts));
                }
                match st["op"].as_str().unwrap_or("") {
                    "query_novals" => session.query_unpaged(q, ()).await.map(|_| ()).map_err(|e| e.to_string()),
                    "query_page" => session.query_single_page(q, (), PagingState::start()).await.map(|_| ()).map_err(|e| e.to_string()),
                    _ => session.query_iter(q, ()).await.map(|_| ()).map_err(|e| e.to_string()),
                }
            }
            "query_iter_vals" => {
                let mut q = Statement::new(INS_Q);
                if explicit {
                    q.set_timestamp(Some(ts));
                }
                session.query_iter(q, (k, k)).await.map(|_| ()).map_err(|e| e.to_string())
            }
            "execute_page" | "execute_iter" | "execute_lwt" => {
                let mut p = if st["op"] == "execute_lwt" { pb.clone() } else { pa.clone() };
                if explicit {
                    p.set_timestamp(Some(ts));
                }
                match st["op"].as_str().unwrap_or("") {
                    "execute_page" => session.execute_single_page(&p, (k, k), PagingState::start()).await.map(|_| ()).map_err(|e| e.to_string()),
                    "execute_iter" => session.execute_iter(p, (k, k)).await.map(|_| ()).map_err(|e| e.to_string()),
                    _ => session.execute_unpaged(&p, (k, k)).await.map(|_| ()).map_err(|e| e.to_string()),
                }
            }
            "batch_member" => {
                // the members carry explicit timestamps of their own; the batch's is the one of the request
                let mut b = Batch::new(BatchType::Logged);
                let mut m1 = pa.clone();
                m1.set_timestamp(Some(ts.wrapping_add(1)));
                let mut m2 = Statement::new(INS_N);
                m2.set_timestamp(Some(7));
                b.append_statement(m1);
                b.append_statement(m2);
                if explicit {
                    b.set_timestamp(Some(ts));
                }
                session.batch(&b, ((k, k), ())).await.map(|_| ()).map_err(|e| e.to_string())
            }
            "batch_prepared" => {
                let mut b = Batch::new(BatchType::Logged);
                b.append_statement(pa.clone());
                b.append_statement(pb.clone());
                if explicit {
                    b.set_timestamp(Some(ts));
                }
                session.batch(&b, ((k, k), (k, k))).await.map(|_| ()).map_err(|e| e.to_string())
            }
            "batch_mixed" => {
                let mut b = Batch::new(BatchType::Unlogged);
                b.append_statement(pa.clone());
                b.append_statement(Statement::new(INS_Q));
                if explicit {
                    b.set_timestamp(Some(ts));
                }
                session.batch(&b, ((k, k), (k, k))).await.map(|_| ()).map_err(|e| e.to_string())
            }
            other => Err(format!("HARNESS: unknown op {other:?}")),
        };
        let frames: Vec<Value> = model.lock().unwrap().frames[from..].to_vec();
        steps.push(json!({"step": st, "ok": res.is_ok() as u8, "err": res.err().map(|e| e.chars().take(200).collect::<String>()).unwrap_or_default(), "frames": frames}));
    }
    drop(session);
    mock.shutdown().await;
    json!({"id": id, "start_err": "", "lwt_confirmed": lwt_confirmed as u8, "steps": steps})
}

pub fn cmd_e2e(args: &[String]) -> i32 {
    if args.len() != 2 {
        eprintln!("usage: vh-driver c18 e2e <scripts.ndjson> <out.ndjson>");
        return 2;
    }
    let Ok(inp) = std::fs::File::open(&args[0]) else {
        eprintln!("cannot open {}", args[0]);
        return 2;
    };
    let Ok(outf) = std::fs::File::create(&args[1]) else {
        eprintln!("cannot create {}", args[1]);
        return 2;
    };
    let mut out = std::io::BufWriter::new(outf);
    let (mut lines, mut errors) = (0u64, 0u64);
    for line in std::io::BufReader::new(inp).lines() {
        let Ok(line) = line else { return 2 };
        if line.trim().is_empty() {
            continue;
        }
        let sc: Value = match serde_json::from_str(&line) {
            Ok(v) => v,
            Err(e) => {
                eprintln!("bad line: {e}");
                return 2;
            }
        };
        let rt = tokio::runtime::Builder::new_multi_thread().worker_threads(2).enable_all().build().expect("runtime");
        let o = rt.block_on(run_script(&sc));
        rt.shutdown_timeout(Duration::from_secs(2));
        if o["start_err"].as_str().map(|s| !s.is_empty()).unwrap_or(true) {
            errors += 1;
        }
        lines += 1;
        if writeln!(out, "{o}").is_err() {
            return 2;
        }
    }
    let _ = out.flush();
    println!("{}", json!({"cmd": "c18-e2e", "lines": lines, "errors": errors}));
    0
}
