//! C09: request frames — builds requests through the public frame types from TLC-generated
//! descriptions, serialises them with SerializedRequest::make (none / LZ4 / Snappy) and records the bytes.
//! Compressed bodies are decompressed with the reference decoders (lz4_flex, snap) for the judge.

use scylla_cql::Consistency;
use scylla_cql::frame::request::batch::{Batch, BatchStatement, BatchType};
use scylla_cql::frame::request::query::{PagingState, QueryParameters};
use scylla_cql::frame::request::{AuthResponse, Options, Prepare, Query, SerializableRequest, Startup};
use scylla_cql::frame::request::execute::ExecuteV2;
use scylla_cql::frame::response::result::{ColumnType, NativeType};
use scylla_cql::frame::types::SerialConsistency;
use scylla_cql::frame::{Compression, SerializedRequest};
use scylla_cql::serialize::row::SerializedValues;
use scylla_cql::value::MaybeUnset;
use serde_json::{Value, json};
use std::borrow::Cow;
use std::collections::HashMap;
use std::io::{BufRead, Write};

fn expand(v: &Value) -> Vec<u8> {
    // <<"rep", byte, n>> or a plain byte array
    if let Some(a) = v.as_array() {
        if a.len() == 3 && a[0] == "rep" {
            return vec![a[1].as_u64().unwrap() as u8; a[2].as_u64().unwrap() as usize];
        }
        return a.iter().map(|x| x.as_u64().unwrap() as u8).collect();
    }
    Vec::new()
}

fn big(i: &Value) -> i64 {
    let mut m: i128 = 0;
    for (k, l) in i["mag"].as_array().unwrap().iter().enumerate() {
        m += (l.as_u64().unwrap() as i128) << (8 * k);
    }
    if i["neg"] == 1 { (-m) as i64 } else { m as i64 }
}

fn cons(code: u64) -> Consistency {
    Consistency::try_from(code as u16).unwrap_or(Consistency::One)
}
fn serial(code: u64) -> SerialConsistency {
    if code == 9 { SerialConsistency::LocalSerial } else { SerialConsistency::Serial }
}

/// Expands the value list description into cells (for the record) and builds SerializedValues.
fn values_of(v: &Value) -> (Vec<Value>, Result<SerializedValues, String>) {
    let blob = ColumnType::Native(NativeType::Blob);
    let cells: Vec<Value> = if v.is_array() && v.as_array().unwrap().len() == 2 && (v[0] == "nulls" || v[0] == "nulls_row") {
        (0..v[1].as_u64().unwrap()).map(|_| json!({"k":"null"})).collect()
    } else {
        v.as_array().unwrap().clone()
    };
    if v.is_array() && v[0] == "named" {
        // values given BY NAME (a map) for bind markers named v[1] (names may repeat: the same value goes to every occurrence);
        // the value of name x is the bytes of x
        use scylla_cql::frame::response::result::{ColumnSpec, TableSpec};
        use scylla_cql::serialize::row::RowSerializationContext;
        let names: Vec<String> = v[1].as_array().map(|a| a.iter().filter_map(|x| x.as_str()).map(|x| x.to_string()).collect()).unwrap_or_default();
        let cells: Vec<Value> = names.iter().map(|n| json!({"k":"val","b":n.as_bytes()})).collect();
        let specs: Vec<ColumnSpec> = names.iter().map(|n| ColumnSpec::borrowed(n.as_str(), blob.clone(), TableSpec::borrowed("ks", "t"))).collect();
        let r = if v[2] == "btree" {
            let m: std::collections::BTreeMap<String, Vec<u8>> = names.iter().map(|n| (n.clone(), n.as_bytes().to_vec())).collect();
            SerializedValues::from_serializable(&RowSerializationContext::from_specs(&specs), &m)
        } else {
            let m: std::collections::HashMap<&str, Vec<u8>> = names.iter().map(|n| (n.as_str(), n.as_bytes().to_vec())).collect();
            SerializedValues::from_serializable(&RowSerializationContext::from_specs(&specs), &m)
        };
        return (cells, r.map_err(|e| e.to_string()));
    }
    if v.is_array() && v[0] == "nulls_row" {
        // the other way a value list comes to be: a whole row serialised at once (what sessions do with the caller's values)
        use scylla_cql::frame::response::result::{ColumnSpec, TableSpec};
        use scylla_cql::serialize::row::RowSerializationContext;
        let specs: Vec<ColumnSpec> = (0..cells.len()).map(|i| ColumnSpec::borrowed(if i % 2 == 0 { "a" } else { "b" }, blob.clone(), TableSpec::borrowed("ks", "t"))).collect();
        let row: Vec<Option<Vec<u8>>> = vec![None; cells.len()];
        let r = SerializedValues::from_serializable(&RowSerializationContext::from_specs(&specs), &row);
        return (cells, r.map_err(|e| e.to_string()));
    }
    let mut sv = SerializedValues::new();
    for c in &cells {
        let r = match c["k"].as_str().unwrap() {
            "null" => sv.add_value(&None::<Vec<u8>>, &blob),
            "unset" => sv.add_value(&MaybeUnset::<Vec<u8>>::Unset, &blob),
            _ => sv.add_value(&expand(&c["b"]), &blob),
        };
        if let Err(e) = r {
            return (cells, Err(e.to_string()));
        }
    }
    (cells, Ok(sv))
}

fn params_of<'a>(p: &Value, sv: &'a SerializedValues) -> QueryParameters<'a> {
    QueryParameters {
        consistency: cons(p["cl"].as_u64().unwrap()),
        serial_consistency: if p["serial"][0] == 1 { Some(serial(p["serial"][1].as_u64().unwrap())) } else { None },
        timestamp: if p["ts"][0] == 1 { Some(big(&p["ts"][1])) } else { None },
        page_size: if p["page"][0] == 1 { Some(p["page"][1].as_i64().unwrap() as i32) } else { None },
        paging_state: if p["ps"][0] == 1 { PagingState::new_from_raw_bytes(expand(&p["ps"][1])) } else { PagingState::start() },
        skip_metadata: p["skip"] == 1,
        values: Cow::Borrowed(sv),
    }
}

fn make<R: SerializableRequest>(req: &R, tracing: bool) -> Vec<(String, Value)> {
    let mut out = Vec::new();
    for (name, comp) in [("none", None), ("lz4", Some(Compression::Lz4)), ("snappy", Some(Compression::Snappy))] {
        let r = std::panic::catch_unwind(std::panic::AssertUnwindSafe(|| SerializedRequest::make(req, comp, tracing)));
        let v = match r {
            Err(_) => json!({"ok":0,"err":format!("PANIC: {}", crate::last_panic())}),
            Ok(Err(e)) => json!({"ok":0,"err":e.to_string()}),
            Ok(Ok(sr)) => {
                let frame = sr.get_data().to_vec();
                let body: Option<Vec<u8>> = match name {
                    "none" => Some(frame[9.min(frame.len())..].to_vec()),
                    "lz4" => {
                        // CQL framing of LZ4: 4-byte big-endian uncompressed length, then the block
                        if frame.len() >= 13 {
                            let n = u32::from_be_bytes(frame[9..13].try_into().unwrap()) as usize;
                            lz4_flex::block::decompress(&frame[13..], n).ok()
                        } else {
                            None
                        }
                    }
                    _ => snap::raw::Decoder::new().decompress_vec(&frame[9.min(frame.len())..]).ok(),
                };
                json!({"ok":1,"frame":frame,"body":body})
            }
        };
        out.push((name.to_string(), v));
    }
    out
}

fn run_case(c: &Value) -> Vec<Value> {
    let op = c["op"].as_str().unwrap();
    let tracing = c["tracing"] == 1;
    let mut d = c.clone();
    let results: Vec<(String, Value)> = match op {
        "query" | "execute" => {
            let (cells, sv) = values_of(&c["params"]["values"]);
            d["params"]["values"] = json!(cells);
            match sv {
                Err(e) => vec![("none".into(), json!({"ok":0,"err":e}))],
                Ok(sv) => {
                    if op == "query" {
                        let text = expand(&c["text"]);
                        d["text"] = json!(text);
                        let q = Query { contents: Cow::Owned(String::from_utf8(text).unwrap()), parameters: params_of(&c["params"], &sv) };
                        make(&q, tracing)
                    } else {
                        let id = expand(&c["id"]);
                        let mid = expand(&c["meta_id"][1]);
                        d["id"] = json!(id);
                        d["meta_id"] = json!([c["meta_id"][0], mid]);
                        let e = ExecuteV2 {
                            id: id.as_slice().into(),
                            result_metadata_id: if c["meta_id"][0] == 1 { Some(mid.as_slice().into()) } else { None },
                            parameters: params_of(&c["params"], &sv),
                        };
                        make(&e, tracing)
                    }
                }
            }
        }
        "batch" => {
            let mut stmts: Vec<BatchStatement> = Vec::new();
            let mut vals: Vec<SerializedValues> = Vec::new();
            let mut dstm = Vec::new();
            let mut err = None;
            for s in c["stmts"].as_array().unwrap() {
                let (cells, sv) = values_of(&s["values"]);
                let mut ds = s.clone();
                ds["values"] = json!(cells);
                if s["kind"] == 0 {
                    let t = expand(&s["text"]);
                    ds["text"] = json!(t);
                    stmts.push(BatchStatement::Query { text: Cow::Owned(String::from_utf8(t).unwrap()) });
                } else {
                    let id = expand(&s["id"]);
                    ds["id"] = json!(id);
                    stmts.push(BatchStatement::Prepared { id: Cow::Owned(id.into()) });
                }
                dstm.push(ds);
                match sv {
                    Ok(sv) => vals.push(sv),
                    Err(e) => err = Some(e),
                }
            }
            d["stmts"] = json!(dstm);
            let want = c["nvalsets"].as_u64().unwrap() as usize;
            while vals.len() < want {
                vals.push(SerializedValues::new());
            }
            vals.truncate(want);
            if let Some(e) = err {
                vec![("none".into(), json!({"ok":0,"err":e}))]
            } else if c["path"].as_u64() == Some(1) {
                // The path the session takes: typed BatchValues + one RowSerializationContext per STATEMENT, through
                // RawBatchValuesAdapter (connection.rs batch_with_consistency). Every bound value is a blob column.
                use scylla_cql::frame::response::result::{ColumnSpec, TableSpec};
                use scylla_cql::serialize::raw_batch::RawBatchValuesAdapter;
                use scylla_cql::serialize::row::RowSerializationContext;
                let lists: Vec<Vec<MaybeUnset<Option<Vec<u8>>>>> = {
                    let mut ls: Vec<Vec<MaybeUnset<Option<Vec<u8>>>>> = dstm
                        .iter()
                        .map(|ds| {
                            ds["values"]
                                .as_array()
                                .unwrap()
                                .iter()
                                .map(|c| match c["k"].as_str().unwrap() {
                                    "null" => MaybeUnset::Set(None),
                                    "unset" => MaybeUnset::Unset,
                                    _ => MaybeUnset::Set(Some(expand(&c["b"]))),
                                })
                                .collect()
                        })
                        .collect();
                    while ls.len() < want {
                        ls.push(Vec::new());
                    }
                    ls.truncate(want);
                    ls
                };
                let specs: Vec<Vec<ColumnSpec<'static>>> = dstm
                    .iter()
                    .map(|ds| {
                        (0..ds["values"].as_array().unwrap().len())
                            .map(|i| ColumnSpec::borrowed(Box::leak(format!("c{i}").into_boxed_str()), ColumnType::Native(NativeType::Blob), TableSpec::borrowed("ks", "t")))
                            .collect()
                    })
                    .collect();
                let contexts = specs.iter().map(|sp| RowSerializationContext::from_specs(sp.as_slice()));
                let b = Batch {
                    statements: Cow::Owned(stmts),
                    batch_type: match c["type"].as_u64().unwrap() { 0 => BatchType::Logged, 1 => BatchType::Unlogged, _ => BatchType::Counter },
                    consistency: cons(c["cl"].as_u64().unwrap()),
                    serial_consistency: if c["serial"][0] == 1 { Some(serial(c["serial"][1].as_u64().unwrap())) } else { None },
                    timestamp: if c["ts"][0] == 1 { Some(big(&c["ts"][1])) } else { None },
                    values: RawBatchValuesAdapter::new(lists, contexts),
                };
                make(&b, tracing)
            } else {
                let b = Batch {
                    statements: Cow::Owned(stmts),
                    batch_type: match c["type"].as_u64().unwrap() { 0 => BatchType::Logged, 1 => BatchType::Unlogged, _ => BatchType::Counter },
                    consistency: cons(c["cl"].as_u64().unwrap()),
                    serial_consistency: if c["serial"][0] == 1 { Some(serial(c["serial"][1].as_u64().unwrap())) } else { None },
                    timestamp: if c["ts"][0] == 1 { Some(big(&c["ts"][1])) } else { None },
                    values: vals,
                };
                make(&b, tracing)
            }
        }
        "prepare" => {
            let t = expand(&c["text"]);
            d["text"] = json!(t);
            let s = String::from_utf8(t).unwrap();
            make(&Prepare { query: &s }, tracing)
        }
        "register" => {
            let evs: Vec<String> = c["events"].as_array().unwrap().iter().map(|e| e.as_str().unwrap().to_string()).collect();
            d["events"] = json!(evs.iter().map(|e| e.as_bytes().to_vec()).collect::<Vec<_>>());
            use scylla_cql::frame::server_event_type::EventTypeV2;
            let list: Vec<EventTypeV2> = evs.iter().map(|e| match e.as_str() { "TOPOLOGY_CHANGE" => EventTypeV2::TopologyChange, "STATUS_CHANGE" => EventTypeV2::StatusChange, _ => EventTypeV2::SchemaChange }).collect();
            make(&scylla_cql::frame::request::register::RegisterV2 { event_types_to_register_for: list }, tracing)
        }
        "options" => make(&Options, tracing),
        "auth" => {
            let t = expand(&c["token"]);
            d["token"] = json!(t);
            make(&AuthResponse { response: Some(t) }, tracing)
        }
        "startup" => {
            let mut m: HashMap<Cow<str>, Cow<str>> = HashMap::new();
            let mut dopts = Vec::new();
            for kv in c["options"].as_array().unwrap() {
                let (k, v) = (expand(&kv[0]), expand(&kv[1]));
                dopts.push(json!([k, v]));
                m.insert(Cow::Owned(String::from_utf8(k).unwrap()), Cow::Owned(String::from_utf8(v).unwrap()));
            }
            d["options"] = json!(dopts);
            make(&Startup { options: m }, tracing)
        }
        _ => vec![],
    };
    results
        .into_iter()
        .map(|(comp, r)| {
            let mut rec = json!({"d": d, "comp": comp});
            for (k, v) in r.as_object().unwrap() {
                rec[k] = v.clone();
            }
            if rec.get("frame").is_none() {
                rec["frame"] = json!([]);
                rec["body"] = json!([]);
            }
            rec
        })
        .collect()
}

/// `c09 run <cases.ndjson> <out.ndjson>`
pub fn cmd_run(args: &[String]) -> i32 {
    let inp = std::fs::File::open(&args[0]).expect("cases");
    let mut out = std::io::BufWriter::new(std::fs::File::create(&args[1]).expect("out"));
    let mut n = 0;
    for line in std::io::BufReader::new(inp).lines() {
        let line = line.unwrap();
        if line.trim().is_empty() {
            continue;
        }
        let c: Value = serde_json::from_str(&line).unwrap();
        for rec in run_case(&c) {
            writeln!(out, "{}", rec).unwrap();
            n += 1;
        }
    }
    out.flush().unwrap();
    println!("{}", json!({"records": n}));
    0
}
