//! `vh-driver c08 tablets <in.ndjson> <out.ndjson>`: `tablets-routing-v1` custom payloads (well-formed, truncated, with
//! length / count fields overwritten) through the real parser (RawTablet::from_custom_payload via the verif hook) under the
//! counting allocator. Input {"id":N,"payload":[bytes]}; output {"id","len","ok":0|1,"panic":0|1,"peak":bytes}. A line
//! {"start":id} is written (and flushed) before each payload so that an abort can be attributed.
use std::io::{BufRead, Write};

use scylla::verif::cluster::{VKeyspace, VPeer, add_tablet_payload, build};
use serde_json::{Value, json};

pub fn cmd_tablets(args: &[String]) -> i32 {
    if args.len() != 2 {
        eprintln!("usage: vh-driver c08 tablets <in.ndjson> <out.ndjson>");
        return 2;
    }
    let inp = std::io::BufReader::new(std::fs::File::open(&args[0]).expect("in"));
    let mut out = std::io::BufWriter::new(std::fs::File::create(&args[1]).expect("out"));
    let rt = tokio::runtime::Builder::new_current_thread().enable_all().build().unwrap();
    let peers: Vec<VPeer> = (1..=3u128)
        .map(|n| VPeer {
            host_id: uuid::Uuid::from_u128(n),
            addr: format!("10.8.0.{n}:9042").parse().unwrap(),
            dc: Some("dc1".into()),
            rack: Some("r1".into()),
            tokens: vec![n as i64 * 1000],
        })
        .collect();
    let ks = vec![VKeyspace { name: "ks".into(), strategy: scylla::cluster::metadata::Strategy::SimpleStrategy { replication_factor: 1 }, tablet_based: true, tables: vec!["t".into()] }];
    let state0 = rt.block_on(build(peers, ks));
    let mut n = 0u64;
    for line in inp.lines() {
        let line = line.unwrap();
        if line.trim().is_empty() {
            continue;
        }
        let j: Value = serde_json::from_str(&line).expect("json");
        let payload: Vec<u8> = j["payload"].as_array().map(|a| a.iter().filter_map(|x| x.as_u64()).map(|x| x as u8).collect()).unwrap_or_default();
        writeln!(out, "{}", json!({"start": j["id"]})).unwrap();
        out.flush().unwrap();
        let mut state = state0.clone();
        let base = crate::alloc::mark();
        let r = std::panic::catch_unwind(std::panic::AssertUnwindSafe(|| add_tablet_payload(&mut state, "ks", "t", &payload)));
        let peak = crate::alloc::peak_above(base);
        let (ok, panic) = match r {
            Ok(Ok(())) => (1, 0),
            Ok(Err(_)) => (0, 0),
            Err(_) => (0, 1),
        };
        writeln!(out, "{}", json!({"id": j["id"], "len": payload.len(), "ok": ok, "panic": panic, "peak": peak})).unwrap();
        n += 1;
    }
    out.flush().unwrap();
    println!("{}", json!({"cmd": "c08-tablets", "lines": n}));
    0
}
