//! `vh-driver c12 run <scenarios.ndjson> <out.ndjson>` (see ../C12.md): where the first attempt of a
//! token-aware prepared request goes. Record only; the judge computes tokens/replicas/shards itself.

use std::collections::{BTreeMap, HashMap, HashSet};
use std::io::{BufRead, Write};
use std::net::{Ipv4Addr, SocketAddr};
use std::num::NonZeroUsize;
use std::sync::Arc;
use std::time::{Duration, Instant};

use serde_json::{Value, json};

use crate::mock::{Action, MockCluster, MockColumn, MockConfig, MockKeyspace, MockNodeCfg, MockTable, Reply, Request, stable_id, type_bytes};

const INSERT: &str = "INSERT INTO ks.t (pk, v) VALUES (?, ?)";
const PORT: u16 = 19412;
const SA_PORT: u16 = 19512;

// ---------------------------------------------------------------------------------------------
// Scenario
// ---------------------------------------------------------------------------------------------

#[derive(Clone, Debug)]
struct NodeSc {
    dc: String,
    rack: String,
    tokens: Vec<i64>,
    shards: u16,
    msb: u8,
    up: bool,
}

#[derive(Clone, Debug)]
struct Tablet {
    first: i64,
    last: i64,
    replicas: Vec<(usize, i32)>,
}

#[derive(Clone, Debug)]
struct Scenario {
    id: Value,
    nodes: Vec<NodeSc>,
    replication: Vec<(String, String)>,
    per_shard: bool,
    pool_n: usize,
    prefer_dc: String,
    /// policy.where == "session": the preference is given to SessionBuilder, not to the DefaultPolicy
    pref_on_session: bool,
    /// nat: added to the source port by the mock before deriving the shard (emulated NAT)
    nat: u16,
    /// initial_tablets value the mock reports for a tablets keyspace
    initial_tablets: i32,
    /// refresh: call session.refresh_metadata() between the rounds
    refresh: bool,
    /// msb_change: (node, new sharding_ignore_msb): the node is restarted with another ignore-msb (same shard count) before the executions
    msb_change: Option<(usize, u8)>,
    prefer_rack: String,
    failover: bool,
    tablets: Option<Vec<Tablet>>,
    keys: Vec<(i32, i64)>,
    /// cdc: the table uses the CDC partitioner and a blob partition key; blobs[i] is the key bound for keys[i]
    cdc: bool,
    blobs: Vec<Vec<u8>>,
    /// prepare_fail: every node answers its FIRST PREPARE of the statement with ERROR Overloaded
    prepare_fail: bool,
    rounds: u64,
}

fn limbs_to_i64(v: &Value) -> Result<i64, String> {
    let a = v.as_array().ok_or("token: not an array")?;
    if a.len() != 8 {
        return Err(format!("token: {} limbs instead of 8", a.len()));
    }
    let mut b = [0u8; 8];
    for (i, x) in a.iter().enumerate() {
        b[i] = x.as_u64().filter(|x| *x < 256).ok_or("token: limb not in 0..255")? as u8;
    }
    Ok(i64::from_le_bytes(b))
}

fn node_ip(i: usize) -> Ipv4Addr {
    Ipv4Addr::new(127, 0, 12, (i + 1) as u8)
}

fn host_id(i: usize) -> uuid::Uuid {
    uuid::Uuid::from_u128((0xC12u128 << 64) | (i as u128 + 1))
}

fn parse_scenario(v: &Value) -> Result<Scenario, String> {
    let s = |v: &Value| v.as_str().unwrap_or("").to_string();
    let mut nodes = Vec::new();
    for n in v["nodes"].as_array().ok_or("nodes missing")? {
        let mut tokens = Vec::new();
        for p in n["pos"].as_array().ok_or("pos missing")? {
            let p = p.as_i64().ok_or("pos: not an integer")?;
            // p * 2^60 - 2^63
            tokens.push((p - 8) << 60);
        }
        let rack = s(&n["rack"]);
        nodes.push(NodeSc {
            dc: s(&n["dc"]),
            rack: if rack.is_empty() { "r0".to_string() } else { rack },
            tokens,
            shards: n["shards"].as_u64().unwrap_or(0) as u16,
            msb: n["msb"].as_u64().unwrap_or(0) as u8,
            up: n["up"].as_u64().unwrap_or(1) != 0,
        });
    }
    if nodes.is_empty() || nodes.len() > 250 {
        return Err("bad number of nodes".into());
    }
    let st = &v["strategy"];
    let replication = match st["class"].as_str() {
        Some("simple") => vec![
            ("class".to_string(), "org.apache.cassandra.locator.SimpleStrategy".to_string()),
            ("replication_factor".to_string(), st["rf"].as_u64().ok_or("simple rf missing")?.to_string()),
        ],
        Some("nts") => {
            let mut r = vec![("class".to_string(), "org.apache.cassandra.locator.NetworkTopologyStrategy".to_string())];
            for (dc, rf) in st["rf"].as_object().ok_or("nts rf missing")? {
                r.push((dc.clone(), rf.as_u64().ok_or("nts rf: not an integer")?.to_string()));
            }
            r
        }
        other => return Err(format!("unknown strategy class {other:?}")),
    };
    let tablets = match &v["tablets"] {
        Value::Null => None,
        Value::Array(a) => {
            let mut ts = Vec::new();
            for t in a {
                let mut replicas = Vec::new();
                for r in t["replicas"].as_array().ok_or("tablet replicas missing")? {
                    let node = r[0].as_u64().ok_or("tablet replica node")? as usize;
                    // node index 99 = a host the session does not know (yet): an unknown host id in the payload
                    if node >= nodes.len() && node != 99 {
                        return Err(format!("tablet replica node {node} out of range"));
                    }
                    replicas.push((node, r[1].as_i64().ok_or("tablet replica shard")? as i32));
                }
                ts.push(Tablet { first: limbs_to_i64(&t["first"])?, last: limbs_to_i64(&t["last"])?, replicas });
            }
            Some(ts)
        }
        _ => return Err("tablets: neither null nor a list".into()),
    };
    let mut keys = Vec::new();
    let mut blobs = Vec::new();
    for k in v["keys"].as_array().ok_or("keys missing")? {
        keys.push((k["pk"].as_i64().ok_or("pk missing")? as i32, limbs_to_i64(&k["token"])?));
        blobs.push(k["blob"].as_array().map(|a| a.iter().filter_map(|x| x.as_u64()).map(|x| x as u8).collect()).unwrap_or_default());
    }
    Ok(Scenario {
        id: v["id"].clone(),
        nodes,
        replication,
        per_shard: match v["pool"]["kind"].as_str() {
            Some("per_shard") => true,
            Some("per_host") => false,
            other => return Err(format!("unknown pool kind {other:?}")),
        },
        pool_n: v["pool"]["n"].as_u64().filter(|n| *n > 0).ok_or("pool n missing or 0")? as usize,
        prefer_dc: s(&v["policy"]["prefer_dc"]),
        pref_on_session: v["policy"]["where"].as_str() == Some("session"),
        nat: v["nat"].as_u64().unwrap_or(0) as u16,
        initial_tablets: v["initial_tablets"].as_i64().unwrap_or(1) as i32,
        refresh: v["refresh"].as_u64().unwrap_or(0) == 1,
        cdc: v["cdc"].as_u64() == Some(1),
        blobs,
        prepare_fail: v["prepare_fail"].as_u64() == Some(1),
        msb_change: v["msb_change"].as_object().map(|o| (o["node"].as_u64().unwrap_or(0) as usize, o["msb"].as_u64().unwrap_or(0) as u8)),
        prefer_rack: s(&v["policy"]["prefer_rack"]),
        failover: v["policy"]["failover"].as_u64().unwrap_or(0) == 1,
        tablets,
        keys,
        rounds: v["rounds"].as_u64().unwrap_or(1),
    })
}

fn mock_config(sc: &Scenario) -> MockConfig {
    let tab = sc.tablets.is_some();
    MockConfig {
        port: PORT,
        shard_aware_port: Some(SA_PORT),
        nodes: sc
            .nodes
            .iter()
            .enumerate()
            .map(|(i, n)| MockNodeCfg {
                ip: node_ip(i),
                host_id: host_id(i),
                dc: n.dc.clone(),
                rack: n.rack.clone(),
                tokens: n.tokens.clone(),
                nr_shards: if n.shards == 0 { None } else { Some(n.shards) },
                msb_ignore: n.msb,
                metadata_id_ext: false,
                tablets_ext: tab,
                lwt_mark: false,
            })
            .collect(),
        keyspaces: vec![MockKeyspace {
            name: "ks".into(),
            replication: sc.replication.clone(),
            tablets: tab,
            tables: vec![MockTable {
                name: "t".into(),
                columns: vec![
                    MockColumn { name: "pk".into(), kind: "partition_key".into(), position: 0, typ: if sc.cdc { "blob".into() } else { "int".into() } },
                    MockColumn { name: "v".into(), kind: "regular".into(), position: -1, typ: "int".into() },
                ],
                partitioner: Some(if sc.cdc { "com.scylladb.dht.CDCPartitioner".into() } else { "org.apache.cassandra.dht.Murmur3Partitioner".into() }),
            }],
        }],
        system_page_size_override: None,
    }
}

// ---------------------------------------------------------------------------------------------
// Handler (with tablet feedback)
// ---------------------------------------------------------------------------------------------

fn put_bytes(out: &mut Vec<u8>, body: &[u8]) {
    out.extend_from_slice(&(body.len() as i32).to_be_bytes());
    out.extend_from_slice(body);
}

/// CQL serialization of `tuple<bigint, bigint, list<tuple<uuid, int>>>`, written by hand.
fn encode_tablet_payload(t: &Tablet) -> Vec<u8> {
    let mut list = Vec::new();
    list.extend_from_slice(&(t.replicas.len() as i32).to_be_bytes());
    for (node, shard) in &t.replicas {
        let mut el = Vec::new();
        put_bytes(&mut el, host_id(*node).as_bytes());
        put_bytes(&mut el, &shard.to_be_bytes());
        put_bytes(&mut list, &el);
    }
    let mut out = Vec::new();
    put_bytes(&mut out, &t.first.to_be_bytes());
    put_bytes(&mut out, &t.last.to_be_bytes());
    put_bytes(&mut out, &list);
    out
}

fn make_handler(sc: &Scenario) -> crate::mock::Handler {
    let ins_id = stable_id(INSERT.as_bytes());
    let tablets = sc.tablets.clone();
    let keys = sc.keys.clone();
    let int = type_bytes("int").expect("type int");
    let cols = vec![("pk".to_string(), if sc.cdc { type_bytes("blob").expect("type blob") } else { int.clone() }), ("v".to_string(), int)];
    let prepare_fail = sc.prepare_fail;
    let failed_once: std::sync::Mutex<std::collections::HashSet<usize>> = std::sync::Mutex::new(std::collections::HashSet::new());
    Arc::new(move |req: &Request| -> Action {
        match req.opcode {
            0x09 => match req.query.as_deref() {
                Some(INSERT) if prepare_fail && failed_once.lock().unwrap().insert(req.node) => {
                    Action::Reply(Reply::Error { code: 0x1001, message: "scripted: overloaded (first PREPARE on this node)".into(), extra: vec![] })
                }
                Some(INSERT) => Action::Reply(Reply::Prepared {
                    id: ins_id.clone(),
                    result_metadata_id: None,
                    pk_indexes: vec![0],
                    bind_cols: cols.clone(),
                    result_cols: vec![],
                    ks: "ks".into(),
                    table: "t".into(),
                }),
                other => Action::Reply(Reply::Error { code: 0x2200, message: format!("c12 handler cannot prepare {other:?}"), extra: vec![] }),
            },
            0x0A => {
                if req.prepared_id.as_deref() != Some(&ins_id[..]) {
                    let id = req.prepared_id.clone().unwrap_or_default();
                    let mut extra = (id.len() as u16).to_be_bytes().to_vec();
                    extra.extend_from_slice(&id);
                    return Action::Reply(Reply::Error { code: 0x2500, message: "unknown prepared statement".into(), extra });
                }
                if let Some(tablets) = &tablets
                    && let Some(Some(first)) = req.values.first()
                    && let Some((_, token)) = keys.iter().find(|(pk, _)| pk.to_be_bytes()[..] == first[..])
                    && let Some(t) = tablets.iter().find(|t| t.first < *token && *token <= t.last)
                {
                    let here = t.replicas.iter().any(|(n, s)| *n == req.node && req.shard.map(|rs| rs as i32 == *s).unwrap_or(true));
                    if !here {
                        let mut payload = HashMap::new();
                        payload.insert("tablets-routing-v1".to_string(), encode_tablet_payload(t));
                        return Action::ReplyWithPayload(payload, Reply::Void);
                    }
                }
                Action::Reply(Reply::Void)
            }
            _ => Action::Reply(Reply::Void),
        }
    })
}

// ---------------------------------------------------------------------------------------------
// One scenario
// ---------------------------------------------------------------------------------------------

fn shard_json(s: Option<u16>) -> Value {
    match s {
        Some(s) => json!(s),
        None => json!(-1),
    }
}

/// Connection ids that sent a REGISTER frame (= control connections; they never carry user requests).
fn control_conns(log: &[Value]) -> HashSet<u64> {
    log.iter().filter(|e| e["dir"] == "in" && e["opcode"] == 0x0B).filter_map(|e| e["conn"].as_u64()).collect()
}

fn pool_full(sc: &Scenario, node: usize, conns: &[(u64, Option<u16>, u16)], control: &HashSet<u64>) -> bool {
    let n = &sc.nodes[node];
    let pool: Vec<Option<u16>> = conns.iter().filter(|(id, _, _)| !control.contains(id)).map(|(_, s, _)| *s).collect();
    if n.shards > 0 && sc.per_shard {
        (0..n.shards).all(|s| pool.iter().filter(|x| **x == Some(s)).count() >= sc.pool_n)
    } else {
        pool.len() >= sc.pool_n
    }
}

fn empty_output(sc_id: &Value, err: String) -> Value {
    json!({"id": sc_id, "start_err": err, "pools_full": 0, "conns": [], "control_conn": [], "down_seen": [], "execs": []})
}

async fn run_scenario(sc: &Scenario) -> Value {
    // Ports are reused from the previous scenario: retry binding for up to 3 s.
    let t0 = Instant::now();
    let mock = loop {
        crate::mock::SHARD_SKEW.store(sc.nat, std::sync::atomic::Ordering::SeqCst);
        crate::mock::INITIAL_TABLETS.store(sc.initial_tablets, std::sync::atomic::Ordering::SeqCst);
        match MockCluster::try_start(mock_config(sc), make_handler(sc)).await {
            Ok(m) => break m,
            Err(e) if t0.elapsed() < Duration::from_secs(3) => {
                let _ = e;
                tokio::time::sleep(Duration::from_millis(50)).await;
            }
            Err(e) => return empty_output(&sc.id, format!("mock start: {e}")),
        }
    };
    let out = run_with_mock(sc, &mock).await;
    mock.shutdown().await;
    out
}

/// The mock accepting a connection does not mean the driver's pool already holds it (the handshake may still be under way,
/// slowly on a busy machine). Requests without a token go to a random node on a random connection of its pool: they are sent
/// until every pool connection the mock has open has carried one (at most 3 s), so that the recorded executions start
/// from pools the DRIVER knows to be complete.
async fn warm_up(session: &scylla::client::session::Session, mock: &MockCluster) {
    let t0 = Instant::now();
    let mut sent = 0;
    let (mut last_used, mut last_progress) = (0usize, 0);
    loop {
        let log = mock.log();
        let control = control_conns(&log);
        let used: std::collections::HashSet<u64> = log.iter().filter(|e| e["dir"] == "in" && e["opcode"] == 7 && e["query"].as_str().is_some_and(|q| q.contains("ks.t"))).filter_map(|e| e["conn"].as_u64()).collect();
        let nodes = mock.config().nodes.len();
        let all_used = (0..nodes).all(|i| mock.open_connections(i).iter().all(|(id, _, _)| control.contains(id) || used.contains(id)));
        if used.len() > last_used {
            last_used = used.len();
            last_progress = sent;
        }
        // (connections of nodes the policy never uses for such requests stay unused: stop when 96 requests reached no new one)
        if (all_used && sent > 0) || t0.elapsed() > Duration::from_secs(3) || sent > 4000 || sent - last_progress >= 96 {
            break;
        }
        for _ in 0..8 {
            let _ = session.query_unpaged("SELECT v FROM ks.t", ()).await;
            sent += 1;
        }
    }
}

async fn run_with_mock(sc: &Scenario, mock: &MockCluster) -> Value {
    use scylla::client::PoolSize;
    use scylla::client::execution_profile::ExecutionProfile;
    use scylla::client::session_builder::SessionBuilder;
    use scylla::policies::load_balancing::DefaultPolicy;

    let Some(first_up) = sc.nodes.iter().position(|n| n.up) else {
        return empty_output(&sc.id, "no up node in the scenario".into());
    };

    let mut pb = DefaultPolicy::builder().token_aware(true).permit_dc_failover(sc.failover);
    if !sc.prefer_dc.is_empty() && !sc.pref_on_session {
        pb = if sc.prefer_rack.is_empty() { pb.prefer_datacenter(sc.prefer_dc.clone()) } else { pb.prefer_datacenter_and_rack(sc.prefer_dc.clone(), sc.prefer_rack.clone()) };
    }
    let profile = ExecutionProfile::builder().load_balancing_policy(pb.build()).build();
    let n = NonZeroUsize::new(sc.pool_n).expect("pool n > 0");
    let mut sb = SessionBuilder::new();
    if !sc.prefer_dc.is_empty() && sc.pref_on_session {
        // the location preference given to the session, the policy itself holding none
        sb = if sc.prefer_rack.is_empty() { sb.prefer_datacenter(sc.prefer_dc.clone()) } else { sb.prefer_datacenter_and_rack(sc.prefer_dc.clone(), sc.prefer_rack.clone()) };
    }
    let session = match sb
        .known_node(mock.contact_point(first_up))
        .pool_size(if sc.per_shard { PoolSize::PerShard(n) } else { PoolSize::PerHost(n) })
        .default_execution_profile_handle(profile.into_handle())
        .build()
        .await
    {
        Ok(s) => s,
        Err(e) => return empty_output(&sc.id, format!("session build: {e}")),
    };

    // Wait until the pools are full (at most 5 s). All nodes are still running here; the wait covers all
    // of them, `pools_full` is reported for the nodes that stay up.
    let t0 = Instant::now();
    let full = |only_up: bool| {
        let control = control_conns(&mock.log());
        (0..sc.nodes.len()).filter(|i| !only_up || sc.nodes[*i].up).all(|i| pool_full(sc, i, &mock.open_connections(i), &control))
    };
    while !full(false) && t0.elapsed() < Duration::from_secs(5) {
        tokio::time::sleep(Duration::from_millis(10)).await;
    }
    let pools_full = full(true);

    let prepared = match session.prepare(INSERT).await {
        Ok(p) => p,
        Err(e) => {
            let mut o = empty_output(&sc.id, format!("prepare: {e}"));
            o["pools_full"] = json!(pools_full as u8);
            return o;
        }
    };

    warm_up(&session, mock).await;

    if std::env::var("C12_VERBOSE").is_ok() {
        // Diagnostics only (stderr): the driver's own token of each key as 8 LE limbs, next to the scenario's.
        for (pk, tok) in &sc.keys {
            let t = prepared.calculate_token(&(*pk, 0i32)).ok().flatten().map(|t| t.value());
            eprintln!("c12: scenario {} pk {pk}: driver token {:?} limbs {:?}; scenario token {tok}", sc.id, t, t.map(|t| t.to_le_bytes()));
        }
    }

    // A node comes back reconfigured: same shard count, another sharding_ignore_msb.
    if let Some((i, msb)) = sc.msb_change {
        mock.stop_node(i).await;
        let mut cfg = mock.config();
        cfg.nodes[i].msb_ignore = msb;
        mock.set_config(cfg);
        tokio::time::sleep(Duration::from_millis(100)).await;
        let t0 = Instant::now();
        while mock.try_start_node(i).await.is_err() && t0.elapsed() < Duration::from_secs(3) {
            tokio::time::sleep(Duration::from_millis(50)).await;
        }
        let t0 = Instant::now();
        loop {
            let control = control_conns(&mock.log());
            let st = session.get_cluster_state();
            let seen = st.get_nodes_info().iter().any(|n| n.address.ip() == std::net::IpAddr::V4(node_ip(i)) && n.is_connected());
            if (seen && pool_full(sc, i, &mock.open_connections(i), &control)) || t0.elapsed() > Duration::from_secs(6) {
                break;
            }
            tokio::time::sleep(Duration::from_millis(20)).await;
        }
        warm_up(&session, mock).await;
    }

    // Down nodes.
    let node_of_ip = |ip: std::net::IpAddr| -> i64 {
        (0..sc.nodes.len()).find(|i| std::net::IpAddr::V4(node_ip(*i)) == ip).map(|i| i as i64).unwrap_or(-1)
    };
    let considered_down = |i: usize| -> bool {
        let st = session.get_cluster_state();
        match st.get_nodes_info().iter().find(|n| n.address.ip() == std::net::IpAddr::V4(node_ip(i))) {
            Some(n) => !n.is_connected(),
            None => true,
        }
    };
    for (i, n) in sc.nodes.iter().enumerate() {
        if n.up {
            continue;
        }
        mock.stop_node(i).await;
        mock.send_event("STATUS_CHANGE", "DOWN", SocketAddr::from((node_ip(i), PORT)));
        let t0 = Instant::now();
        while !considered_down(i) && t0.elapsed() < Duration::from_secs(2) {
            tokio::time::sleep(Duration::from_millis(10)).await;
        }
    }
    let down_seen: Vec<usize> = (0..sc.nodes.len()).filter(|i| considered_down(*i)).collect();

    // Open pool connections per (node, shard) just before the executions (control connection excluded).
    let control = control_conns(&mock.log());
    let mut conns = Vec::new();
    let mut control_out = Vec::new();
    for i in 0..sc.nodes.len() {
        let mut per: BTreeMap<i64, u64> = BTreeMap::new();
        for (id, shard, _) in mock.open_connections(i) {
            if control.contains(&id) {
                control_out.push(json!({"node": i, "shard": shard_json(shard), "conn": id}));
            } else {
                *per.entry(shard.map(|s| s as i64).unwrap_or(-1)).or_default() += 1;
            }
        }
        for (s, c) in per {
            conns.push(json!({"node": i, "shard": s, "count": c}));
        }
    }

    // Executions.
    let mut execs = Vec::new();
    for round in 1..=sc.rounds {
        if round > 1 && sc.tablets.is_some() {
            // Tablet feedback is applied by the driver's cluster worker asynchronously: let it settle.
            tokio::time::sleep(Duration::from_millis(200)).await;
        }
        if round > 1 && sc.refresh {
            // a metadata refresh between the rounds: what was learned about tablets must survive it
            let _ = session.refresh_metadata().await;
            tokio::time::sleep(Duration::from_millis(50)).await;
        }
        for (pk, _) in &sc.keys {
            let l = mock.log().len();
            let res = if sc.cdc {
                let blob = sc.blobs[sc.keys.iter().position(|(p, _)| p == pk).unwrap_or(0)].clone();
                session.execute_unpaged(&prepared, (blob, 0i32)).await
            } else {
                session.execute_unpaged(&prepared, (*pk, 0i32)).await
            };
            let log = mock.log();
            let frames: Vec<Value> = log[l.min(log.len())..]
                .iter()
                .filter(|e| e["dir"] == "in" && e["kind"] == "user" && e["opcode"] == 0x0A)
                .map(|e| json!({"node": e["node"], "shard": if e["shard"].is_null() { json!(-1) } else { e["shard"].clone() }, "conn": e["conn"]}))
                .collect();
            let (ok, err, coord) = match &res {
                Ok(r) => {
                    let c = r.request_coordinator();
                    (1, String::new(), json!({"node": node_of_ip(c.node().address.ip()), "shard": c.shard().map(|s| s as i64).unwrap_or(-1)}))
                }
                Err(e) => (0, format!("{e}"), json!("none")),
            };
            execs.push(json!({"round": round, "pk": pk, "ok": ok, "err": err, "frames": frames, "coordinator": coord}));
        }
    }
    drop(session);
    json!({"id": sc.id, "start_err": "", "pools_full": pools_full as u8, "conns": conns, "control_conn": control_out, "down_seen": down_seen, "execs": execs})
}

// ---------------------------------------------------------------------------------------------
// Command
// ---------------------------------------------------------------------------------------------

pub fn cmd_run(args: &[String]) -> i32 {
    if args.len() < 2 {
        eprintln!("usage: vh-driver c12 run <scenarios.ndjson> <out.ndjson>");
        return 2;
    }
    let inp = match std::fs::File::open(&args[0]) {
        Ok(f) => f,
        Err(e) => {
            eprintln!("c12: cannot open {}: {e}", args[0]);
            return 2;
        }
    };
    let mut out = match std::fs::File::create(&args[1]) {
        Ok(f) => std::io::BufWriter::new(f),
        Err(e) => {
            eprintln!("c12: cannot create {}: {e}", args[1]);
            return 2;
        }
    };
    let verbose = std::env::var("C12_VERBOSE").is_ok();
    let (mut lines, mut errors) = (0u64, 0u64);
    for line in std::io::BufReader::new(inp).lines() {
        let line = match line {
            Ok(l) => l,
            Err(e) => {
                eprintln!("c12: read error: {e}");
                return 2;
            }
        };
        if line.trim().is_empty() {
            continue;
        }
        let t0 = Instant::now();
        let parsed: Result<(Value, Scenario), (Value, String)> = match serde_json::from_str::<Value>(&line) {
            Err(e) => Err((json!(-1), format!("bad scenario line: {e}"))),
            Ok(v) => match parse_scenario(&v) {
                Ok(sc) => Ok((v["id"].clone(), sc)),
                Err(e) => Err((if v["id"].is_null() { json!(-1) } else { v["id"].clone() }, format!("bad scenario: {e}"))),
            },
        };
        let result = match parsed {
            Err((id, e)) => empty_output(&id, e),
            Ok((id, sc)) => {
                // A fresh runtime per scenario: dropping it kills every task of the Session and of the
                // mock, so nothing of this scenario can talk to the next one's listeners.
                let rt = tokio::runtime::Builder::new_multi_thread().worker_threads(2).enable_all().build().expect("tokio runtime");
                let id2 = if id.is_null() { json!(-1) } else { id.clone() };
                let r = std::panic::catch_unwind(std::panic::AssertUnwindSafe(|| rt.block_on(async { tokio::time::timeout(Duration::from_secs(120), run_scenario(&sc)).await })));
                rt.shutdown_timeout(Duration::from_secs(2));
                match r {
                    Ok(Ok(mut v)) => {
                        if v["id"].is_null() {
                            v["id"] = id2;
                        }
                        v
                    }
                    Ok(Err(_)) => empty_output(&id2, "scenario timed out after 120 s".into()),
                    Err(_) => empty_output(&id2, format!("panic: {}", crate::last_panic())),
                }
            }
        };
        if result["start_err"] != "" {
            errors += 1;
        }
        if verbose {
            eprintln!("c12: scenario {} took {} ms", result["id"], t0.elapsed().as_millis());
        }
        if writeln!(out, "{result}").is_err() {
            eprintln!("c12: write error");
            return 2;
        }
        lines += 1;
    }
    if out.flush().is_err() {
        eprintln!("c12: write error");
        return 2;
    }
    println!("{}", json!({"cmd": "c12", "lines": lines, "errors": errors}));
    0
}
