//! C03: routing token — the real Murmur3 hasher under all chunkings, and the real
//! PreparedStatement::calculate_token / compute_partition_key for keys whose components are
//! bound through permuted markers. PreparedStatements are built from RESULT/Prepared bodies
//! (written by this harness' own encoder) through the real parser.

use rand::{Rng, SeedableRng};
use scylla::routing::partitioner::{CDCPartitioner, Murmur3Partitioner, Partitioner, PartitionerHasher};
use scylla::statement::prepared::PreparedStatement;
use serde_json::{Value, json};
use std::collections::BTreeSet;
use std::io::{BufRead, Write};

fn fill(len: usize, pat: u64, salt: u64) -> Vec<u8> {
    (0..len)
        .map(|i| match pat {
            0 => ((i as u64 * 37 + 11 + salt) % 256) as u8,
            1 => (0x80 | ((i as u64 + salt) % 128)) as u8,
            _ => {
                if (i + salt as usize) % 3 == 0 { 0xFF } else { 0x00 }
            }
        })
        .collect()
}

fn le(token: i64) -> Vec<u8> {
    token.to_le_bytes().to_vec()
}

fn hash_with_chunks(data: &[u8], cuts: &[usize]) -> i64 {
    let mut h = Murmur3Partitioner.build_hasher();
    let mut prev = 0;
    for &c in cuts {
        h.write(&data[prev..c]);
        prev = c;
    }
    h.write(&data[prev..]);
    h.finish().value()
}

fn cdc_hash_with_chunks(data: &[u8], cuts: &[usize]) -> i64 {
    let mut h = CDCPartitioner.build_hasher();
    let mut prev = 0;
    for &c in cuts {
        h.write(&data[prev..c]);
        prev = c;
    }
    h.write(&data[prev..]);
    h.finish().value()
}

/// all chunkings for short inputs; boundary-straddling and random ones for long inputs
fn chunkings(n: usize, rng: &mut impl Rng) -> Vec<Vec<usize>> {
    let mut v: Vec<Vec<usize>> = vec![vec![]];
    if n == 0 {
        v.push(vec![0]);
        v.push(vec![0, 0]);
        return v;
    }
    if n <= 10 {
        for mask in 1u32..(1 << (n - 1)) {
            v.push((1..n).filter(|i| mask >> (i - 1) & 1 == 1).collect());
        }
        // with empty writes interleaved
        v.push(vec![0, n]);
        return v;
    }
    for c in 1..n {
        v.push(vec![c]); // every single cut
    }
    for a in [1usize, 7, 8, 9, 15, 16, 17, 31, 32, 33] {
        for b in [15usize, 16, 17, 31, 32, 33, 47, 48, 49] {
            if a < b && b < n {
                v.push(vec![a, b]);
                v.push(vec![a, a, b]); // an empty write in the middle
            }
        }
    }
    v.push((1..n).collect()); // byte by byte
    for _ in 0..20 {
        let k = rng.random_range(1..6);
        let mut cuts: Vec<usize> = (0..k).map(|_| rng.random_range(0..=n)).collect();
        cuts.sort();
        v.push(cuts);
    }
    v
}

// ---- RESULT/Prepared body (CQL v4), all bind markers of type blob, global table spec
fn prepared_body(markers: usize, pkidx: &[usize]) -> Vec<u8> {
    let mut b = Vec::new();
    b.extend_from_slice(&4i32.to_be_bytes()); // kind = Prepared
    b.extend_from_slice(&2u16.to_be_bytes()); // id
    b.extend_from_slice(b"id");
    // prepared metadata
    b.extend_from_slice(&1i32.to_be_bytes()); // flags: global tables spec
    b.extend_from_slice(&(markers as i32).to_be_bytes());
    b.extend_from_slice(&(pkidx.len() as i32).to_be_bytes());
    for i in pkidx {
        b.extend_from_slice(&(*i as u16).to_be_bytes());
    }
    for s in ["ks", "t"] {
        b.extend_from_slice(&(s.len() as u16).to_be_bytes());
        b.extend_from_slice(s.as_bytes());
    }
    for m in 0..markers {
        let name = format!("c{}", m);
        b.extend_from_slice(&(name.len() as u16).to_be_bytes());
        b.extend_from_slice(name.as_bytes());
        b.extend_from_slice(&3u16.to_be_bytes()); // blob
    }
    // result metadata: no columns
    b.extend_from_slice(&4i32.to_be_bytes()); // flags: no_metadata
    b.extend_from_slice(&0i32.to_be_bytes());
    b
}

fn pk_case(markers: usize, pkidx: &[usize], values: &[Vec<u8>], cdc: bool) -> Value {
    let body = prepared_body(markers, pkidx);
    let part = if cdc { Some("com.scylladb.dht.CDCPartitioner") } else { Some("org.apache.cassandra.dht.Murmur3Partitioner") };
    let ps = match PreparedStatement::verif_from_prepared_response_body("INSERT ...", &body, part) {
        Ok(ps) => ps,
        Err(e) => return json!({"kind":"error","msg":e}),
    };
    let vals: Vec<Vec<u8>> = values.to_vec();
    let token = ps.calculate_token(&vals);
    let enc = ps.compute_partition_key(&vals);
    // the same statement as a CachingSession cache hit hands it out (stored unconfigured, configured again)
    let cached = ps.verif_through_cache_handle();
    let token_c = match cached.calculate_token(&vals) {
        Ok(Some(t)) => le(t.value()),
        _ => Vec::new(),
    };
    match (token, enc) {
        (Ok(Some(t)), Ok(enc)) => json!({"kind":"pk","markers":markers,"pkidx":pkidx,"values":values,"encoded":enc.to_vec(),"token":le(t.value()),"token_cached":token_c,"cdc": if cdc {1} else {0}}),
        (t, e) => json!({"kind":"error","msg":format!("{:?} {:?}", t, e.map(|b| b.len()))}),
    }
}

/// `c03 run <cases.ndjson> <out.ndjson> <seed> <random hash cases> <random pk cases>`
pub fn cmd_run(args: &[String]) -> i32 {
    let inp = std::fs::File::open(&args[0]).expect("cases");
    let mut out = std::io::BufWriter::new(std::fs::File::create(&args[1]).expect("out"));
    let seed: u64 = args[2].parse().unwrap();
    let nrh: usize = args[3].parse().unwrap();
    let nrp: usize = args[4].parse().unwrap();
    let mut rng = rand::rngs::StdRng::seed_from_u64(seed);
    let (mut n, mut chunkruns, mut panics) = (0usize, 0usize, 0usize);
    let mut hash_case = |data: Vec<u8>, rng: &mut rand::rngs::StdRng, out: &mut dyn Write, chunkruns: &mut usize, panics: &mut usize| {
        let r = std::panic::catch_unwind(std::panic::AssertUnwindSafe(|| {
            let mut tokens: BTreeSet<i64> = BTreeSet::new();
            let mut ctokens: BTreeSet<i64> = BTreeSet::new();
            let cks = chunkings(data.len(), rng);
            for c in &cks {
                tokens.insert(hash_with_chunks(&data, c));
                ctokens.insert(cdc_hash_with_chunks(&data, c));
            }
            (tokens, ctokens, cks.len())
        }));
        match r {
            Ok((tokens, ctokens, k)) => {
                *chunkruns += 2 * k;
                // the CDC partitioner's hasher over the same chunkings
                for t in ctokens.iter() {
                    writeln!(out, "{}", json!({"kind":"cdchash","data":data,"chunkings":k,"token":le(*t)})).unwrap();
                }
                let toks: Vec<Vec<u8>> = tokens.iter().map(|t| le(*t)).collect();
                // one record per distinct token observed (a single one when chunking does not matter)
                for t in toks {
                    writeln!(out, "{}", json!({"kind":"hash","data":data,"chunkings":k,"token":t})).unwrap();
                }
            }
            Err(_) => {
                *panics += 1;
                writeln!(out, "{}", json!({"kind":"panic","msg":crate::last_panic(),"data":data})).unwrap();
            }
        }
    };
    for line in std::io::BufReader::new(inp).lines() {
        let line = line.unwrap();
        if line.trim().is_empty() {
            continue;
        }
        let c: Value = serde_json::from_str(&line).unwrap();
        n += 1;
        if c["kind"] == "hash" {
            let data = fill(c["len"].as_u64().unwrap() as usize, c["pat"].as_u64().unwrap(), 0);
            hash_case(data, &mut rng, &mut out, &mut chunkruns, &mut panics);
        } else {
            let m = c["m"].as_u64().unwrap() as usize;
            let pkidx: Vec<usize> = c["pkidx"].as_array().unwrap().iter().map(|x| x.as_u64().unwrap() as usize).collect();
            let cl = c["cl"].as_u64().unwrap() as usize;
            // component i has length cl + i (distinct contents per marker), non-key markers get noise
            let values: Vec<Vec<u8>> = (0..m).map(|i| fill(if pkidx.contains(&i) { cl + pkidx.iter().position(|x| *x == i).unwrap() } else { 3 }, (i % 3) as u64, i as u64 * 7)).collect();
            for cdc in [false, true] {
                let r = std::panic::catch_unwind(|| pk_case(m, &pkidx, &values, cdc));
                match r {
                    Ok(v) => writeln!(out, "{}", v).unwrap(),
                    Err(_) => {
                        panics += 1;
                        writeln!(out, "{}", json!({"kind":"panic","msg":crate::last_panic()})).unwrap();
                    }
                }
            }
        }
    }
    // boundary inputs: two 16-byte keys whose raw Murmur3 hash is exactly Long.MIN_VALUE (derived by inverting the
    // final mix; the token must be Long.MAX_VALUE), and CDC stream ids whose first 8 bytes are MIN / MIN+1 / MAX
    for key in [
        vec![9u8, 156, 237, 212, 130, 172, 242, 249, 233, 127, 211, 68, 44, 233, 138, 38],
        vec![166u8, 181, 7, 33, 235, 186, 240, 14, 126, 250, 248, 129, 3, 72, 9, 150],
    ] {
        hash_case(key.clone(), &mut rng, &mut out, &mut chunkruns, &mut panics);
        let r = std::panic::catch_unwind(|| pk_case(1, &[0], &[key.clone()], false));
        if let Ok(v) = r {
            writeln!(out, "{}", v).unwrap();
        }
        n += 2;
    }
    for first in [[0x80u8, 0, 0, 0, 0, 0, 0, 0], [0x80, 0, 0, 0, 0, 0, 0, 1], [0x7f, 0xff, 0xff, 0xff, 0xff, 0xff, 0xff, 0xff]] {
        let mut key = first.to_vec();
        key.extend_from_slice(&[1, 2, 3, 4, 5, 6, 7, 8]);
        let r = std::panic::catch_unwind(|| pk_case(2, &[1], &[vec![9], key.clone()], true));
        if let Ok(v) = r {
            writeln!(out, "{}", v).unwrap();
        }
        n += 1;
    }
    for _ in 0..nrh {
        let len = match rng.random_range(0..3) {
            0 => rng.random_range(0..71),
            1 => 16 * rng.random_range(1..12) + rng.random_range(0..3) - 1,
            _ => rng.random_range(0..300),
        };
        let data: Vec<u8> = (0..len).map(|_| if rng.random_bool(0.5) { rng.random::<u8>() | 0x80 } else { rng.random() }).collect();
        hash_case(data, &mut rng, &mut out, &mut chunkruns, &mut panics);
        n += 1;
    }
    for _ in 0..nrp {
        let m = rng.random_range(1..=16usize);
        let k = rng.random_range(1..=m.min(8));
        let mut idx: Vec<usize> = (0..m).collect();
        for i in 0..k {
            let j = rng.random_range(i..m);
            idx.swap(i, j);
        }
        let pkidx: Vec<usize> = idx[..k].to_vec();
        let values: Vec<Vec<u8>> = (0..m).map(|_| { let l = rng.random_range(0..40); (0..l).map(|_| rng.random()).collect() }).collect();
        let cdc = rng.random_bool(0.2);
        let r = std::panic::catch_unwind(|| pk_case(m, &pkidx, &values, cdc));
        match r {
            Ok(v) => writeln!(out, "{}", v).unwrap(),
            Err(_) => {
                panics += 1;
                writeln!(out, "{}", json!({"kind":"panic","msg":crate::last_panic()})).unwrap();
            }
        }
        n += 1;
    }
    out.flush().unwrap();
    println!("{}", json!({"cases": n, "hasher_runs": chunkruns, "panics": panics}));
    0
}
