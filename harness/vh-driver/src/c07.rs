//! `vh-driver c07` / `vh-driver c07-control`: paged iteration through a real `Session` against the
//! in-process mock cluster (contract: ../C07.md). Records only; a TLA+ judge interprets.

use std::collections::{BTreeMap, VecDeque};
use std::io::{BufRead, Write};
use std::net::Ipv4Addr;
use std::sync::{Arc, Mutex};
use std::time::{Duration, Instant};

use futures::StreamExt;
use serde_json::{Value, json};

use scylla::client::PoolSize;
use scylla::client::execution_profile::ExecutionProfile;
use scylla::client::session::Session;
use scylla::client::session_builder::SessionBuilder;
use scylla::policies::retry::DefaultRetryPolicy;
use scylla::statement::unprepared::Statement;

use crate::mock::{Action, Handler, MockCluster, MockColumn, MockConfig, MockKeyspace, MockNodeCfg, MockTable, Reply, Request, stable_id, type_bytes};

const PORT: u16 = 19407;
const CONTROL_PORT: u16 = 19417;
const SIMPLE: &str = "org.apache.cassandra.locator.SimpleStrategy";
/// Nothing in a scenario can legitimately take this long (request timeout 5 s, a handful of attempts per page).
const SCENARIO_WATCHDOG: Duration = Duration::from_secs(30);

fn trunc(s: &str) -> String {
    s.chars().take(200).collect()
}

fn nodes(net: u8, n: usize) -> Vec<MockNodeCfg> {
    // One token per node, evenly spread over the ring.
    let step = (u64::MAX / n.max(1) as u64) as i128;
    (0..n)
        .map(|i| MockNodeCfg {
            ip: Ipv4Addr::new(127, 0, net, i as u8 + 1),
            host_id: uuid::Uuid::from_u128(0xC070_0000_0000_4000_8000_0000_0000_0000u128 + ((net as u128) << 16) + i as u128 + 1),
            dc: "dc1".into(),
            rack: "r1".into(),
            tokens: vec![(i64::MIN as i128 + step / 2 + step * i as i128) as i64],
            nr_shards: None,
            msb_ignore: 12,
            metadata_id_ext: false,
            tablets_ext: false,
            lwt_mark: false,
        })
        .collect()
}

fn table(name: &str, vtype: &str) -> MockTable {
    MockTable {
        name: name.into(),
        columns: vec![
            MockColumn { name: "pk".into(), kind: "partition_key".into(), position: 0, typ: "int".into() },
            MockColumn { name: "v".into(), kind: "regular".into(), position: -1, typ: vtype.into() },
        ],
        partitioner: Some("org.apache.cassandra.dht.Murmur3Partitioner".into()),
    }
}

fn void_handler() -> Handler {
    Arc::new(|_r: &Request| Action::Reply(Reply::Void))
}

fn runtime() -> tokio::runtime::Runtime {
    tokio::runtime::Builder::new_multi_thread().worker_threads(2).enable_all().build().unwrap()
}

// ---------------------------------------------------------------------------------------------
// c07: scripted pages
// ---------------------------------------------------------------------------------------------

struct Script {
    text: String,
    prep_id: Vec<u8>,
    pages: Vec<Vec<i32>>,
    states: Vec<Vec<u8>>,
    /// number of pages handed out so far = the page the pager's cursor is at
    served: usize,
    faults: Vec<VecDeque<String>>,
    frames: Vec<Value>,
    prepares: u64,
}

fn v_cols() -> Vec<(String, Vec<u8>)> {
    vec![("v".to_string(), type_bytes("int").unwrap())]
}

fn error_reply(code: i32, message: &str, extra: Vec<u8>) -> Action {
    Action::Reply(Reply::Error { code, message: message.into(), extra })
}

impl Script {
    fn rows_reply(&self, page: usize) -> Reply {
        Reply::Rows {
            cols: v_cols(),
            ks: "ks".into(),
            table: "t".into(),
            rows: self.pages[page].iter().map(|r| vec![Some(r.to_be_bytes().to_vec())]).collect(),
            paging_state: if page + 1 < self.pages.len() { self.states.get(page).cloned() } else { None },
            no_metadata: false,
            new_metadata_id: None,
        }
    }

    /// Answers one QUERY / EXECUTE of the scenario's statement and records the frame.
    fn serve(&mut self, req: &Request) -> Action {
        // A request is for page p iff it carries the state returned with page p-1 (none for page 0). Paging states
        // are opaque and need not differ between pages: among the candidates the page the cursor is at (the number
        // of pages served so far) wins, so that a server returning the same bytes twice is scripted faithfully.
        let page: i64 = {
            let npages = self.pages.len();
            let cands: Vec<usize> = (0..npages)
                .filter(|p| match (&req.paging_state, *p) {
                    (None, 0) => true,
                    (Some(ps), p) if p >= 1 => self.states.get(p - 1) == Some(ps),
                    _ => false,
                })
                .collect();
            if cands.contains(&self.served) { self.served as i64 } else { cands.first().map(|p| *p as i64).unwrap_or(-1) }
        };
        let (reply, action) = if page < 0 {
            ("error:0x2200".to_string(), error_reply(0x2200, "unknown paging state", vec![]))
        } else {
            let p = page as usize;
            match self.faults.get_mut(p).and_then(|q| q.pop_front()) {
                None => {
                    if p == self.served {
                        self.served += 1;
                    }
                    ("rows".to_string(), Action::Reply(self.rows_reply(p)))
                }
                Some(f) => match f.as_str() {
                    "delay" => {
                        if p == self.served {
                            self.served += 1;
                        }
                        ("delayed_rows".to_string(), Action::DelayMs(150, Box::new(Action::Reply(self.rows_reply(p)))))
                    }
                    // the node has forgotten the prepared statement: ERROR Unprepared naming its id
                    "unprepared" => {
                        let mut extra = vec![(self.prep_id.len() >> 8) as u8, self.prep_id.len() as u8];
                        extra.extend_from_slice(&self.prep_id);
                        ("error:0x2500".to_string(), error_reply(0x2500, "scripted unprepared", extra))
                    }
                    "drop" => ("drop".to_string(), Action::Reset),
                    other => {
                        let (code, extra): (i32, Vec<u8>) = match other {
                            "overloaded" => (0x1001, vec![]),
                            "bootstrapping" => (0x1002, vec![]),
                            // <cl short = ONE><required int = 1><alive int = 0>
                            "unavailable" => (0x1000, vec![0, 1, 0, 0, 0, 1, 0, 0, 0, 0]),
                            // <cl short = ONE><received int = 1><blockfor int = 1><data_present byte = 0>
                            "read_timeout" => (0x1200, vec![0, 1, 0, 0, 0, 1, 0, 0, 0, 1, 0]),
                            "server_error" => (0x0000, vec![]),
                            "invalid" => (0x2200, vec![]),
                            "syntax" => (0x2000, vec![]),
                            "unauthorized" => (0x2100, vec![]),
                            // Not in the contract: answered as a server error so that it is visible.
                            _ => (0x0000, vec![]),
                        };
                        (format!("error:0x{code:04x}"), error_reply(code, &format!("scripted {other}"), extra))
                    }
                },
            }
        };
        self.frames.push(json!({
            "seq": req.seq,
            "node": req.node,
            "conn": req.conn_id,
            "opcode": req.opcode,
            "paging_state": match &req.paging_state { Some(ps) => json!(ps), None => json!("none") },
            "page_size": req.page_size.unwrap_or(0),
            "page": page,
            "reply": reply,
        }));
        action
    }
}

fn ghost_text(text: &str) -> String {
    format!("{text} ALLOW FILTERING")
}

/// plan = exactly one node (by index in the mock's node list)
#[derive(Debug)]
struct OnlyNode(uuid::Uuid);
impl scylla::policies::load_balancing::LoadBalancingPolicy for OnlyNode {
    fn pick<'a>(
        &'a self,
        _request: &'a scylla::policies::load_balancing::RoutingInfo,
        cluster: &'a scylla::cluster::ClusterState,
    ) -> Option<(scylla::cluster::NodeRef<'a>, Option<scylla::routing::Shard>)> {
        cluster.get_nodes_info().iter().find(|n| n.host_id == self.0).map(|n| (n, None))
    }
    fn fallback<'a>(
        &'a self,
        _request: &'a scylla::policies::load_balancing::RoutingInfo,
        _cluster: &'a scylla::cluster::ClusterState,
    ) -> scylla::policies::load_balancing::FallbackPlan<'a> {
        Box::new(std::iter::empty())
    }
    fn name(&self) -> String {
        "C07OnlyNode".to_string()
    }
}

/// On every node's connection: a request whose caller gives up (40 ms) long before the node answers it (350 ms).
async fn ghosts(session: &Session, text: &str) {
    for n in nodes(7, 3) {
        let mut g = Statement::new(ghost_text(text));
        g.set_request_timeout(Some(Duration::from_millis(40)));
        g.set_load_balancing_policy(Some(Arc::new(OnlyNode(n.host_id))));
        let _ = session.query_unpaged(g, ()).await;
    }
}

fn scenario_handler(script: Arc<Mutex<Script>>) -> Handler {
    Arc::new(move |req: &Request| {
        let mut s = script.lock().unwrap();
        match req.opcode {
            0x09 if req.query.as_deref() == Some(s.text.as_str()) => {
                s.prepares += 1;
                Action::Reply(Reply::Prepared { id: s.prep_id.clone(), result_metadata_id: None, pk_indexes: vec![], bind_cols: vec![], result_cols: v_cols(), ks: "ks".into(), table: "t".into() })
            }
            0x07 if req.query.as_deref() == Some(s.text.as_str()) => s.serve(req),
            // the "ghost": another request on the same connections, answered long after its caller has given up
            0x07 if req.query.as_deref() == Some(ghost_text(&s.text).as_str()) => Action::DelayMs(
                350,
                Box::new(Action::Reply(Reply::Rows {
                    cols: v_cols(),
                    ks: "ks".into(),
                    table: "t".into(),
                    rows: vec![vec![Some(777_777i32.to_be_bytes().to_vec())]],
                    paging_state: None,
                    no_metadata: false,
                    new_metadata_id: None,
                })),
            ),
            0x0A if req.prepared_id.as_deref() == Some(&s.prep_id[..]) => s.serve(req),
            _ => Action::Reply(Reply::Void),
        }
    })
}

/// What the consumer side observed; shared so that it survives a panic / watchdog abort of the task.
#[derive(Default)]
struct Observed {
    start_err: String,
    items: Vec<i32>,
    end: String,
    err: String,
}

async fn consume(session: Arc<Session>, text: String, prepared: bool, page_size: i32, mode: String, k: usize, obs: Arc<Mutex<Observed>>) {
    let mut stmt = Statement::new(text);
    stmt.set_page_size(page_size);
    stmt.set_is_idempotent(true);
    let pager = if prepared {
        match session.prepare(stmt).await {
            Ok(mut p) => {
                p.set_page_size(page_size);
                p.set_is_idempotent(true);
                session.execute_iter(p, ()).await.map_err(|e| e.to_string())
            }
            Err(e) => Err(format!("prepare: {e}")),
        }
    } else {
        session.query_iter(stmt, ()).await.map_err(|e| e.to_string())
    };
    let pager = match pager {
        Ok(p) => p,
        Err(e) => {
            let mut o = obs.lock().unwrap();
            o.start_err = trunc(&e);
            o.end = "error".into();
            return;
        }
    };
    let mut stream = match pager.rows_stream::<(i32,)>() {
        Ok(s) => s,
        Err(e) => {
            let mut o = obs.lock().unwrap();
            o.start_err = trunc(&format!("rows_stream: {e}"));
            o.end = "error".into();
            return;
        }
    };
    let mut got = 0usize;
    let end = loop {
        if mode == "drop_after" && got >= k {
            break "dropped";
        }
        if mode == "slow" {
            tokio::time::sleep(Duration::from_millis(20)).await;
        }
        match stream.next().await {
            Some(Ok((v,))) => {
                got += 1;
                obs.lock().unwrap().items.push(v);
            }
            Some(Err(e)) => {
                obs.lock().unwrap().err = trunc(&e.to_string());
                break "error";
            }
            None => break "done",
        }
    };
    drop(stream);
    obs.lock().unwrap().end = end.into();
    if mode == "drop_after" {
        tokio::time::sleep(Duration::from_millis(300)).await;
    }
}

/// Waits (up to 3 s) until every node has at least as many open connections as right after session
/// start and the driver sees every node's pool as connected. Returns whether that was reached.
async fn wait_all_nodes(mock: &MockCluster, session: &Session, baseline: &[usize]) -> bool {
    let t0 = Instant::now();
    loop {
        let mock_ok = baseline.iter().enumerate().all(|(i, b)| mock.open_connection_count(i) >= (*b).max(1));
        let state = session.get_cluster_state();
        let drv = state.get_nodes_info();
        let drv_ok = drv.len() == baseline.len() && drv.iter().all(|n| n.is_connected());
        if mock_ok && drv_ok {
            return true;
        }
        if t0.elapsed() > Duration::from_secs(3) {
            return false;
        }
        tokio::time::sleep(Duration::from_millis(5)).await;
    }
}

fn parse_scenario(sc: &Value) -> Result<(i64, bool, i32, Script, String, usize), String> {
    let id = sc["id"].as_i64().ok_or("id")?;
    let prepared = match sc["kind"].as_str() {
        Some("prepared") => true,
        Some("unprepared") => false,
        other => return Err(format!("kind {other:?}")),
    };
    let page_size = sc["page_size"].as_i64().ok_or("page_size")? as i32;
    let pages: Vec<Vec<i32>> = serde_json::from_value(sc["pages"].clone()).map_err(|e| format!("pages: {e}"))?;
    if pages.is_empty() {
        return Err("pages: at least one page".into());
    }
    let states: Vec<Vec<u8>> = serde_json::from_value(sc["states"].clone()).map_err(|e| format!("states: {e}"))?;
    if states.len() + 1 < pages.len() {
        return Err("states: fewer than len(pages)-1".into());
    }
    let faults: Vec<Vec<String>> = serde_json::from_value(sc["faults"].clone()).map_err(|e| format!("faults: {e}"))?;
    let mode = sc["consumer"]["mode"].as_str().ok_or("consumer.mode")?.to_string();
    if !matches!(mode.as_str(), "all" | "drop_after" | "slow") {
        return Err(format!("consumer.mode {mode:?}"));
    }
    let k = sc["consumer"]["n"].as_u64().unwrap_or(0) as usize;
    let text = format!("SELECT v FROM ks.t WHERE pk = {id}");
    let script = Script { prep_id: stable_id(text.as_bytes()), text, pages, states, faults: faults.into_iter().map(VecDeque::from).collect(), frames: vec![], prepares: 0, served: 0 };
    Ok((id, prepared, page_size, script, mode, k))
}

async fn run_scenario(mock: &MockCluster, session: &Arc<Session>, sc: &Value) -> Result<Value, String> {
    let (id, prepared, page_size, script, mode, k) = parse_scenario(sc)?;
    let text = script.text.clone();
    let script = Arc::new(Mutex::new(script));
    mock.clear_log();
    mock.set_handler(scenario_handler(script.clone()));

    if sc["ghost"].as_u64() == Some(1) {
        ghosts(session, &text).await;
    }
    let obs = Arc::new(Mutex::new(Observed::default()));
    let mut task = tokio::spawn(consume(session.clone(), text, prepared, page_size, mode, k, obs.clone()));
    let joined = tokio::time::timeout(SCENARIO_WATCHDOG, &mut task).await;
    let abnormal = match joined {
        Ok(Ok(())) => None,
        Ok(Err(e)) if e.is_panic() => Some(format!("panic: {}", crate::last_panic())),
        Ok(Err(e)) => Some(format!("task: {e}")),
        Err(_) => {
            task.abort();
            Some(format!("watchdog: no end of the scenario after {} s", SCENARIO_WATCHDOG.as_secs()))
        }
    };
    // From here on requests of this statement are no longer recorded / scripted.
    mock.set_handler(void_handler());

    let o = obs.lock().unwrap();
    let (mut end, mut err) = (o.end.clone(), o.err.clone());
    if let Some(a) = abnormal {
        end = "error".into();
        err = trunc(&a);
    }
    let mut s = script.lock().unwrap();
    s.frames.sort_by_key(|f| f["seq"].as_u64().unwrap_or(0));
    Ok(json!({
        "id": id, "kind": sc["kind"], "ghost": sc["ghost"].as_u64().unwrap_or(0), "consumer": sc["consumer"], "pages": sc["pages"], "states": sc["states"], "faults": sc["faults"],
        "start_err": o.start_err,
        "frames": s.frames,
        "prepares": s.prepares,
        "items": o.items,
        "end": end,
        "err": err,
    }))
}

async fn run_all(inp: &str, outp: &str) -> Result<Value, String> {
    let input = std::fs::File::open(inp).map_err(|e| format!("open {inp}: {e}"))?;
    let mut out = std::io::BufWriter::new(std::fs::File::create(outp).map_err(|e| format!("create {outp}: {e}"))?);

    let cfg = MockConfig {
        port: PORT,
        shard_aware_port: None,
        nodes: nodes(7, 3),
        keyspaces: vec![MockKeyspace { name: "ks".into(), replication: vec![("class".into(), SIMPLE.into()), ("replication_factor".into(), "3".into())], tablets: false, tables: vec![table("t", "int")] }],
        system_page_size_override: None,
    };
    let mock = MockCluster::try_start(cfg, void_handler()).await.map_err(|e| format!("mock start: {e}"))?;
    let profile = ExecutionProfile::builder().request_timeout(Some(Duration::from_secs(5))).retry_policy(Arc::new(DefaultRetryPolicy::new())).speculative_execution_policy(None).build();
    let session = SessionBuilder::new()
        .known_node(mock.contact_point(0))
        .pool_size(PoolSize::PerHost(std::num::NonZeroUsize::new(1).unwrap()))
        .disallow_shard_aware_port(true)
        .compression(None)
        .default_execution_profile_handle(profile.into_handle())
        .build()
        .await
        .map_err(|e| format!("session build: {e}"))?;
    let session = Arc::new(session);

    // Baseline: control connection + one pool connection on the contact node, one pool connection elsewhere.
    let t0 = Instant::now();
    loop {
        let state = session.get_cluster_state();
        let n = state.get_nodes_info();
        if n.len() == 3 && n.iter().all(|x| x.is_connected()) && (0..3).all(|i| mock.open_connection_count(i) >= 1) {
            break;
        }
        if t0.elapsed() > Duration::from_secs(10) {
            return Err(format!("the session did not connect to all 3 nodes in 10 s (driver sees {} nodes)", n.len()));
        }
        tokio::time::sleep(Duration::from_millis(10)).await;
    }
    tokio::time::sleep(Duration::from_millis(50)).await;
    let baseline: Vec<usize> = (0..3).map(|i| mock.open_connection_count(i)).collect();

    let (mut lines, mut errors, mut bad, mut not_ready) = (0u64, 0u64, 0u64, 0u64);
    let started = Instant::now();
    for line in std::io::BufReader::new(input).lines() {
        let line = line.map_err(|e| format!("read {inp}: {e}"))?;
        if line.trim().is_empty() {
            continue;
        }
        let parsed: Result<Value, String> = serde_json::from_str(&line).map_err(|e| format!("json: {e}"));
        let rec = match parsed {
            Ok(sc) => {
                if !wait_all_nodes(&mock, &session, &baseline).await {
                    not_ready += 1;
                    eprintln!("c07: scenario {}: not every node had its connections back after 3 s", sc["id"]);
                }
                match run_scenario(&mock, &session, &sc).await {
                    Ok(r) => r,
                    Err(e) => {
                        bad += 1;
                        json!({"id": sc["id"].as_i64().unwrap_or(-1), "bad_input": trunc(&e)})
                    }
                }
            }
            Err(e) => {
                bad += 1;
                json!({"id": -1, "bad_input": trunc(&e)})
            }
        };
        if rec["start_err"].as_str().is_some_and(|s| !s.is_empty()) || rec["err"].as_str().is_some_and(|s| !s.is_empty()) {
            errors += 1;
        }
        writeln!(out, "{rec}").map_err(|e| format!("write {outp}: {e}"))?;
        lines += 1;
    }
    out.flush().map_err(|e| format!("write {outp}: {e}"))?;
    let ms = started.elapsed().as_millis() as u64;
    drop(session);
    mock.shutdown().await;
    Ok(json!({"cmd": "c07", "lines": lines, "errors": errors, "bad_lines": bad, "not_ready": not_ready, "ms": ms}))
}

pub fn cmd_run(args: &[String]) -> i32 {
    if args.len() < 2 {
        eprintln!("usage: vh-driver c07 <scenarios.ndjson> <out.ndjson>");
        return 2;
    }
    let rt = runtime();
    let r = rt.block_on(run_all(&args[0], &args[1]));
    rt.shutdown_timeout(Duration::from_secs(2));
    match r {
        Ok(summary) => {
            println!("{summary}");
            0
        }
        Err(e) => {
            eprintln!("c07: harness failure: {e}");
            1
        }
    }
}

// ---------------------------------------------------------------------------------------------
// c07-control: control-connection pager
// ---------------------------------------------------------------------------------------------

static CONTROL_WATCHDOGS: std::sync::atomic::AtomicU32 = std::sync::atomic::AtomicU32::new(0);

async fn run_control_scenario(sc: &Value) -> Result<Value, String> {
    let id = sc["id"].as_i64().ok_or("id")?;
    let n = sc["nodes"].as_u64().ok_or("nodes")? as usize;
    let k = sc["keyspaces"].as_u64().ok_or("keyspaces")? as usize;
    let t = sc["tables"].as_u64().ok_or("tables")? as usize;
    let p = sc["sys_page"].as_u64().ok_or("sys_page")? as usize;
    // empty: 1 = between two pages of rows the server sends a page WITHOUT rows that still announces more pages
    crate::mock::SYS_EMPTY_PAGES.store(sc["empty"].as_u64() == Some(1), std::sync::atomic::Ordering::SeqCst);
    // "slow": every page of every system-table answer takes 70 ms and the client-side timeout of a metadata request is 500 ms:
    // no page is too slow, but a table read in many pages takes longer than the timeout in total
    let slow = sc["slow"].as_u64() == Some(1);
    crate::mock::SYS_DELAY_MS.store(if slow { 70 } else { 0 }, std::sync::atomic::Ordering::SeqCst);
    if !(1..=200).contains(&n) {
        return Err(format!("nodes {n}"));
    }
    let cfg = MockConfig {
        port: CONTROL_PORT,
        shard_aware_port: None,
        nodes: nodes(8, n),
        keyspaces: (0..k)
            .map(|i| MockKeyspace {
                name: format!("ks{i}"),
                replication: vec![("class".into(), SIMPLE.into()), ("replication_factor".into(), "1".into())],
                tablets: false,
                tables: (0..t).map(|j| table(&format!("t{j}"), "text")).collect(),
            })
            .collect(),
        system_page_size_override: if p == 0 { None } else { Some(p) },
    };
    let mut expected: Vec<String> = cfg.nodes.iter().map(|x| x.host_id.to_string()).collect();
    expected.sort();

    // The port may still be in use for a moment by the previous scenario's sockets.
    let mut mock = None;
    let mut last = String::new();
    for _ in 0..100 {
        match MockCluster::try_start(cfg.clone(), void_handler()).await {
            Ok(m) => {
                mock = Some(m);
                break;
            }
            Err(e) => {
                last = e.to_string();
                tokio::time::sleep(Duration::from_millis(50)).await;
            }
        }
    }
    let mock = mock.ok_or(format!("mock start: {last}"))?;

    // after three sessions that never came up the remaining scenarios are not tried (each would cost the full watchdog)
    if CONTROL_WATCHDOGS.load(std::sync::atomic::Ordering::SeqCst) >= 3 {
        mock.shutdown().await;
        return Ok(json!({"id": id, "nodes": n, "keyspaces": k, "tables": t, "sys_page": p, "start_err": "skipped: the session build of three earlier scenarios never finished",
                         "seen_nodes": [], "expected_nodes": [], "seen_keyspaces": {}, "system_pages": 0}));
    }
    let build_task = tokio::spawn({
        let cp = mock.contact_point(0);
        async move {
            let mut sb = SessionBuilder::new().known_node(cp).pool_size(PoolSize::PerHost(std::num::NonZeroUsize::new(1).unwrap())).disallow_shard_aware_port(true);
            if slow {
                sb = sb.metadata_request_clientside_timeout(Duration::from_millis(500));
            }
            sb.build().await
        }
    });
    let build_abort = build_task.abort_handle();
    let built = tokio::time::timeout(Duration::from_secs(10), build_task).await;
    if built.is_err() {
        build_abort.abort(); // a build that spins must not go on spinning behind the next scenarios
    }
    let mut start_err = String::new();
    let mut seen_nodes: Vec<String> = vec![];
    let mut seen_ks: BTreeMap<String, Vec<String>> = BTreeMap::new();
    let session = match built {
        Ok(Ok(Ok(s))) => Some(s),
        Ok(Ok(Err(e))) => {
            start_err = trunc(&e.to_string());
            None
        }
        Ok(Err(e)) => {
            start_err = trunc(&if e.is_panic() { format!("panic: {}", crate::last_panic()) } else { format!("task: {e}") });
            None
        }
        Err(_) => {
            CONTROL_WATCHDOGS.fetch_add(1, std::sync::atomic::Ordering::SeqCst);
            start_err = "watchdog: session build did not finish in 10 s (the metadata fetch over the control connection does not terminate)".into();
            None
        }
    };
    if let Some(s) = &session {
        let state = s.get_cluster_state();
        seen_nodes = state.get_nodes_info().iter().map(|x| x.host_id.to_string()).collect();
        seen_nodes.sort();
        for (name, ks) in state.keyspaces_iter() {
            if name.starts_with("system") {
                continue;
            }
            let mut tables: Vec<String> = ks.tables.keys().cloned().collect();
            tables.sort();
            seen_ks.insert(name.to_string(), tables);
        }
    }
    // The mock does not log the has_more_pages flag of system answers; every such answer makes the
    // control connection come back with the returned paging state, so those requests are counted.
    let log = mock.log();
    let system_pages = log.iter().filter(|e| e["dir"] == "in" && e["kind"] == "system" && e["paging_state"].is_string()).count();
    drop(session);
    mock.shutdown().await;
    drop(mock);
    Ok(json!({
        "id": id, "nodes": n, "keyspaces": k, "tables": t, "sys_page": p, "start_err": start_err,
        "seen_nodes": seen_nodes, "expected_nodes": expected, "seen_keyspaces": seen_ks, "system_pages": system_pages,
    }))
}

async fn run_control_all(inp: &str, outp: &str) -> Result<Value, String> {
    let input = std::fs::File::open(inp).map_err(|e| format!("open {inp}: {e}"))?;
    let mut out = std::io::BufWriter::new(std::fs::File::create(outp).map_err(|e| format!("create {outp}: {e}"))?);
    let (mut lines, mut errors, mut bad) = (0u64, 0u64, 0u64);
    let started = Instant::now();
    for line in std::io::BufReader::new(input).lines() {
        let line = line.map_err(|e| format!("read {inp}: {e}"))?;
        if line.trim().is_empty() {
            continue;
        }
        let rec = match serde_json::from_str::<Value>(&line) {
            Ok(sc) => match run_control_scenario(&sc).await {
                Ok(r) => r,
                Err(e) if e.starts_with("mock start") => return Err(e),
                Err(e) => {
                    bad += 1;
                    json!({"id": sc["id"].as_i64().unwrap_or(-1), "bad_input": trunc(&e)})
                }
            },
            Err(e) => {
                bad += 1;
                json!({"id": -1, "bad_input": trunc(&format!("json: {e}"))})
            }
        };
        if rec["start_err"].as_str().is_some_and(|s| !s.is_empty()) {
            errors += 1;
        }
        writeln!(out, "{rec}").map_err(|e| format!("write {outp}: {e}"))?;
        lines += 1;
    }
    out.flush().map_err(|e| format!("write {outp}: {e}"))?;
    Ok(json!({"cmd": "c07-control", "lines": lines, "errors": errors, "bad_lines": bad, "ms": started.elapsed().as_millis() as u64}))
}

pub fn cmd_control(args: &[String]) -> i32 {
    if args.len() < 2 {
        eprintln!("usage: vh-driver c07-control <scenarios.ndjson> <out.ndjson>");
        return 2;
    }
    let rt = runtime();
    let r = rt.block_on(run_control_all(&args[0], &args[1]));
    rt.shutdown_timeout(Duration::from_secs(2));
    match r {
        Ok(summary) => {
            println!("{summary}");
            0
        }
        Err(e) => {
            eprintln!("c07-control: harness failure: {e}");
            1
        }
    }
}
