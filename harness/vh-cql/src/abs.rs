//! Abstract model of CQL types (`T`) and values (`V`) as described in FORMAT.md,
//! their JSON encoding, and conversions to `ColumnType` and to/from `CqlValue`.
//!
//! Nothing in here judges anything; conversions either succeed exactly or
//! report "cannot represent" (`None`).

use std::net::{IpAddr, Ipv4Addr, Ipv6Addr};
use std::sync::Arc;

use scylla_cql_core::frame::response::result::{
    CollectionType, ColumnType, NativeType, UserDefinedType,
};
use scylla_cql_core::value::{
    Counter, CqlDate, CqlDecimal, CqlDuration, CqlTime, CqlTimestamp, CqlTimeuuid, CqlValue,
    CqlVarint,
};
use serde_json::{Value, json};

pub const UDT_KEYSPACE: &str = "ks";
pub const UDT_NAME: &str = "u";

// ---------------------------------------------------------------------------
// Big integers `I`
// ---------------------------------------------------------------------------

/// `{"neg":0|1,"mag":[limbs]}`; `mag` little-endian base-256, no trailing zero limbs.
#[derive(Clone, Debug, PartialEq, Eq)]
pub struct BigI {
    pub neg: bool,
    pub mag: Vec<u8>,
}

impl BigI {
    pub fn zero() -> Self {
        BigI { neg: false, mag: Vec::new() }
    }

    pub fn new(neg: bool, mut mag: Vec<u8>) -> Self {
        while mag.last() == Some(&0) {
            mag.pop();
        }
        let neg = neg && !mag.is_empty();
        BigI { neg, mag }
    }

    pub fn is_zero(&self) -> bool {
        self.mag.is_empty()
    }

    pub fn from_json(j: &Value) -> Result<BigI, String> {
        let o = j.as_object().ok_or_else(|| format!("I: not an object: {j}"))?;
        let neg = match o.get("neg").and_then(Value::as_u64) {
            Some(0) => false,
            Some(1) => true,
            _ => return Err(format!("I: bad neg: {j}")),
        };
        let arr = o
            .get("mag")
            .and_then(Value::as_array)
            .ok_or_else(|| format!("I: bad mag: {j}"))?;
        let mag = bytes_from_json_array(arr)?;
        Ok(BigI::new(neg, mag))
    }

    pub fn to_json(&self) -> Value {
        json!({"neg": if self.neg {1} else {0}, "mag": bytes_to_json(&self.mag)})
    }

    /// Arithmetic conversion: sum of limb * 256^i, then negate.
    pub fn to_i128(&self) -> Option<i128> {
        let mut acc: u128 = 0;
        let mut weight: u128 = 1;
        for (i, limb) in self.mag.iter().enumerate() {
            if i >= 16 {
                return None;
            }
            acc = acc.checked_add((*limb as u128).checked_mul(weight)?)?;
            if i < 15 {
                weight = weight.checked_mul(256)?;
            }
        }
        if self.neg {
            // -(2^127) is representable, handle it separately.
            if acc == (1u128 << 127) {
                Some(i128::MIN)
            } else if acc < (1u128 << 127) {
                Some(-(acc as i128))
            } else {
                None
            }
        } else if acc < (1u128 << 127) {
            Some(acc as i128)
        } else {
            None
        }
    }

    pub fn to_i64(&self) -> Option<i64> {
        self.to_i128().and_then(|x| i64::try_from(x).ok())
    }
    pub fn to_i32(&self) -> Option<i32> {
        self.to_i128().and_then(|x| i32::try_from(x).ok())
    }
    pub fn to_i16(&self) -> Option<i16> {
        self.to_i128().and_then(|x| i16::try_from(x).ok())
    }
    pub fn to_i8(&self) -> Option<i8> {
        self.to_i128().and_then(|x| i8::try_from(x).ok())
    }
    pub fn to_u32(&self) -> Option<u32> {
        self.to_i128().and_then(|x| u32::try_from(x).ok())
    }

    /// Arithmetic conversion back: repeated division by 256 of the absolute value.
    pub fn from_i128(x: i128) -> BigI {
        let neg = x < 0;
        let mut m: u128 = x.unsigned_abs();
        let mut mag = Vec::new();
        while m != 0 {
            mag.push((m % 256) as u8);
            m /= 256;
        }
        BigI { neg, mag }
    }

    /// Minimal two's-complement big-endian encoding (what CQL `varint` uses);
    /// computed with byte arithmetic on the magnitude. Zero is `[0]`.
    pub fn to_twos_be(&self) -> Vec<u8> {
        if self.mag.is_empty() {
            return vec![0];
        }
        let top = *self.mag.last().unwrap();
        if !self.neg {
            let mut be: Vec<u8> = self.mag.iter().rev().copied().collect();
            if top >= 0x80 {
                be.insert(0, 0);
            }
            be
        } else {
            let mut n = self.mag.len();
            let lower_nonzero = self.mag[..n - 1].iter().any(|b| *b != 0);
            if top > 0x80 || (top == 0x80 && lower_nonzero) {
                n += 1;
            }
            // 2^(8n) - mag  ==  (!mag) + 1 over n bytes
            let mut le: Vec<u8> = (0..n)
                .map(|i| !self.mag.get(i).copied().unwrap_or(0))
                .collect();
            let mut carry = 1u16;
            for b in le.iter_mut() {
                let s = *b as u16 + carry;
                *b = (s % 256) as u8;
                carry = s / 256;
                if carry == 0 {
                    break;
                }
            }
            le.reverse();
            le
        }
    }

    /// Inverse of `to_twos_be`; also accepts non-minimal encodings; empty slice is zero.
    pub fn from_twos_be(b: &[u8]) -> BigI {
        if b.is_empty() {
            return BigI::zero();
        }
        if b[0] & 0x80 == 0 {
            BigI::new(false, b.iter().rev().copied().collect())
        } else {
            let mut le: Vec<u8> = b.iter().rev().map(|x| !*x).collect();
            let mut carry = 1u16;
            for x in le.iter_mut() {
                let s = *x as u16 + carry;
                *x = (s % 256) as u8;
                carry = s / 256;
                if carry == 0 {
                    break;
                }
            }
            if carry != 0 {
                le.push(carry as u8);
            }
            BigI::new(true, le)
        }
    }
}

pub fn bytes_to_json(b: &[u8]) -> Value {
    Value::Array(b.iter().map(|x| Value::from(*x as u64)).collect())
}

pub fn bytes_from_json_array(arr: &[Value]) -> Result<Vec<u8>, String> {
    arr.iter()
        .map(|x| match x.as_u64() {
            Some(n) if n <= 255 => Ok(n as u8),
            _ => Err(format!("bad byte {x}")),
        })
        .collect()
}

fn bytes_field(o: &serde_json::Map<String, Value>, k: &str) -> Result<Vec<u8>, String> {
    let arr = o
        .get(k)
        .and_then(Value::as_array)
        .ok_or_else(|| format!("missing byte array field {k:?}"))?;
    bytes_from_json_array(arr)
}

// ---------------------------------------------------------------------------
// Types `T`
// ---------------------------------------------------------------------------

/// `VH_FROZEN=1`: every collection / UDT type is described as frozen (as a server describes nested ones and frozen columns);
/// frozen-ness changes nothing about which values fit or how they are encoded.
pub fn frozen_types() -> bool {
    static F: std::sync::OnceLock<bool> = std::sync::OnceLock::new();
    *F.get_or_init(|| std::env::var("VH_FROZEN").map(|v| v == "1").unwrap_or(false))
}

#[derive(Clone, Debug, PartialEq, Eq)]
pub enum T {
    Native(String),
    List(Box<T>),
    Set(Box<T>),
    Map(Box<T>, Box<T>),
    Tuple(Vec<T>),
    Udt(Vec<(String, T)>),
    Vector(Box<T>, u16),
}

pub const NATIVE_NAMES: &[&str] = &[
    "ascii", "bigint", "blob", "boolean", "counter", "date", "decimal", "double", "duration",
    "float", "inet", "int", "smallint", "text", "time", "timestamp", "timeuuid", "tinyint", "uuid",
    "varint",
];

impl T {
    pub fn native(&self) -> Option<&str> {
        match self {
            T::Native(n) => Some(n.as_str()),
            _ => None,
        }
    }

    pub fn from_json(j: &Value) -> Result<T, String> {
        let o = j.as_object().ok_or_else(|| format!("T: not an object: {j}"))?;
        let k = o.get("k").and_then(Value::as_str).ok_or_else(|| format!("T: no k: {j}"))?;
        let sub = |name: &str| -> Result<Box<T>, String> {
            Ok(Box::new(T::from_json(
                o.get(name).ok_or_else(|| format!("T: missing {name}: {j}"))?,
            )?))
        };
        match k {
            "native" => {
                let n = o.get("n").and_then(Value::as_str).ok_or_else(|| format!("T: no n: {j}"))?;
                if !NATIVE_NAMES.contains(&n) {
                    return Err(format!("T: unknown native {n}"));
                }
                Ok(T::Native(n.to_string()))
            }
            "list" => Ok(T::List(sub("e")?)),
            "set" => Ok(T::Set(sub("e")?)),
            "map" => Ok(T::Map(sub("a")?, sub("b")?)),
            "tuple" => {
                let ts = o.get("ts").and_then(Value::as_array).ok_or_else(|| format!("T: no ts: {j}"))?;
                Ok(T::Tuple(ts.iter().map(T::from_json).collect::<Result<_, _>>()?))
            }
            "udt" => {
                let fs = o.get("fs").and_then(Value::as_array).ok_or_else(|| format!("T: no fs: {j}"))?;
                let mut out = Vec::new();
                for f in fs {
                    let n = f.get("n").and_then(Value::as_str).ok_or_else(|| format!("T: udt field without n: {f}"))?;
                    let t = T::from_json(f.get("t").ok_or_else(|| format!("T: udt field without t: {f}"))?)?;
                    out.push((n.to_string(), t));
                }
                Ok(T::Udt(out))
            }
            "vector" => {
                let d = o.get("d").and_then(Value::as_u64).ok_or_else(|| format!("T: no d: {j}"))?;
                let d = u16::try_from(d).map_err(|_| format!("T: d out of range: {j}"))?;
                Ok(T::Vector(sub("e")?, d))
            }
            other => Err(format!("T: unknown kind {other}")),
        }
    }

    pub fn to_json(&self) -> Value {
        match self {
            T::Native(n) => json!({"k":"native","n":n}),
            T::List(e) => json!({"k":"list","e":e.to_json()}),
            T::Set(e) => json!({"k":"set","e":e.to_json()}),
            T::Map(a, b) => json!({"k":"map","a":a.to_json(),"b":b.to_json()}),
            T::Tuple(ts) => json!({"k":"tuple","ts":ts.iter().map(T::to_json).collect::<Vec<_>>()}),
            T::Udt(fs) => json!({"k":"udt","fs":fs.iter().map(|(n,t)| json!({"n":n,"t":t.to_json()})).collect::<Vec<_>>()}),
            T::Vector(e, d) => json!({"k":"vector","e":e.to_json(),"d":d}),
        }
    }

    pub fn to_column_type(&self) -> ColumnType<'static> {
        match self {
            T::Native(n) => ColumnType::Native(match n.as_str() {
                "ascii" => NativeType::Ascii,
                "bigint" => NativeType::BigInt,
                "blob" => NativeType::Blob,
                "boolean" => NativeType::Boolean,
                "counter" => NativeType::Counter,
                "date" => NativeType::Date,
                "decimal" => NativeType::Decimal,
                "double" => NativeType::Double,
                "duration" => NativeType::Duration,
                "float" => NativeType::Float,
                "inet" => NativeType::Inet,
                "int" => NativeType::Int,
                "smallint" => NativeType::SmallInt,
                "text" => NativeType::Text,
                "time" => NativeType::Time,
                "timestamp" => NativeType::Timestamp,
                "timeuuid" => NativeType::Timeuuid,
                "tinyint" => NativeType::TinyInt,
                "uuid" => NativeType::Uuid,
                "varint" => NativeType::Varint,
                other => unreachable!("native name {other} was validated on parse"),
            }),
            T::List(e) => ColumnType::Collection {
                frozen: frozen_types(),
                typ: CollectionType::List(Box::new(e.to_column_type())),
            },
            T::Set(e) => ColumnType::Collection {
                frozen: frozen_types(),
                typ: CollectionType::Set(Box::new(e.to_column_type())),
            },
            T::Map(a, b) => ColumnType::Collection {
                frozen: frozen_types(),
                typ: CollectionType::Map(Box::new(a.to_column_type()), Box::new(b.to_column_type())),
            },
            T::Tuple(ts) => ColumnType::Tuple(ts.iter().map(T::to_column_type).collect()),
            T::Udt(fs) => ColumnType::UserDefinedType {
                frozen: frozen_types(),
                definition: Arc::new(UserDefinedType {
                    name: UDT_NAME.into(),
                    keyspace: UDT_KEYSPACE.into(),
                    field_types: fs
                        .iter()
                        .map(|(n, t)| (n.clone().into(), t.to_column_type()))
                        .collect(),
                }),
            },
            T::Vector(e, d) => ColumnType::Vector {
                typ: Box::new(e.to_column_type()),
                dimensions: *d,
            },
        }
    }
}

// ---------------------------------------------------------------------------
// Values `V`
// ---------------------------------------------------------------------------

#[derive(Clone, Debug, PartialEq, Eq)]
pub enum V {
    Null,
    Unset,
    Empty,
    /// Output-only marker: the carrier cannot be deserialized into.
    Skip,
    /// Input-only, inside a UDT value: the field is not listed by the (dynamic) value at all.
    Absent,
    I(BigI),
    B(bool),
    Bits(Vec<u8>),
    S(Vec<u8>),
    Bytes(Vec<u8>),
    Dec { scale: BigI, int: BigI },
    Dur { months: BigI, days: BigI, nanos: BigI },
    Seq(Vec<V>),
    Map(Vec<(V, V)>),
    Tup(Vec<V>),
    Udt(Vec<V>),
}

impl V {
    pub fn int(x: i128) -> V {
        V::I(BigI::from_i128(x))
    }

    pub fn as_big(&self) -> Option<&BigI> {
        match self {
            V::I(i) => Some(i),
            _ => None,
        }
    }

    pub fn from_json(j: &Value) -> Result<V, String> {
        let o = j.as_object().ok_or_else(|| format!("V: not an object: {j}"))?;
        let k = o.get("k").and_then(Value::as_str).ok_or_else(|| format!("V: no k: {j}"))?;
        let big = |name: &str| -> Result<BigI, String> {
            BigI::from_json(o.get(name).ok_or_else(|| format!("V: missing {name}: {j}"))?)
        };
        let list = |name: &str| -> Result<Vec<V>, String> {
            o.get(name)
                .and_then(Value::as_array)
                .ok_or_else(|| format!("V: missing {name}: {j}"))?
                .iter()
                .map(V::from_json)
                .collect()
        };
        match k {
            "null" => Ok(V::Null),
            "unset" => Ok(V::Unset),
            "empty" => Ok(V::Empty),
            "skip" => Ok(V::Skip),
            "absent" => Ok(V::Absent),
            "i" => Ok(V::I(big("i")?)),
            "b" => match o.get("v").and_then(Value::as_u64) {
                Some(0) => Ok(V::B(false)),
                Some(1) => Ok(V::B(true)),
                _ => Err(format!("V: bad boolean: {j}")),
            },
            "bits" => Ok(V::Bits(bytes_field(o, "b")?)),
            "s" => Ok(V::S(bytes_field(o, "b")?)),
            "bytes" => Ok(V::Bytes(bytes_field(o, "b")?)),
            "dec" => Ok(V::Dec { scale: big("scale")?, int: big("int")? }),
            "dur" => Ok(V::Dur { months: big("months")?, days: big("days")?, nanos: big("nanos")? }),
            "seq" => Ok(V::Seq(list("vs")?)),
            "tup" => Ok(V::Tup(list("vs")?)),
            "udt" => Ok(V::Udt(list("vs")?)),
            "map" => {
                let kvs = o.get("kvs").and_then(Value::as_array).ok_or_else(|| format!("V: no kvs: {j}"))?;
                let mut out = Vec::new();
                for kv in kvs {
                    let p = kv.as_array().filter(|p| p.len() == 2).ok_or_else(|| format!("V: bad map pair {kv}"))?;
                    out.push((V::from_json(&p[0])?, V::from_json(&p[1])?));
                }
                Ok(V::Map(out))
            }
            other => Err(format!("V: unknown kind {other}")),
        }
    }

    pub fn to_json(&self) -> Value {
        match self {
            V::Null => json!({"k":"null"}),
            V::Unset => json!({"k":"unset"}),
            V::Empty => json!({"k":"empty"}),
            V::Skip => json!({"k":"skip"}),
            V::Absent => json!({"k":"absent"}),
            V::I(i) => json!({"k":"i","i":i.to_json()}),
            V::B(b) => json!({"k":"b","v": if *b {1} else {0}}),
            V::Bits(b) => json!({"k":"bits","b":bytes_to_json(b)}),
            V::S(b) => json!({"k":"s","b":bytes_to_json(b)}),
            V::Bytes(b) => json!({"k":"bytes","b":bytes_to_json(b)}),
            V::Dec { scale, int } => json!({"k":"dec","scale":scale.to_json(),"int":int.to_json()}),
            V::Dur { months, days, nanos } => {
                json!({"k":"dur","months":months.to_json(),"days":days.to_json(),"nanos":nanos.to_json()})
            }
            V::Seq(vs) => json!({"k":"seq","vs":vs.iter().map(V::to_json).collect::<Vec<_>>()}),
            V::Tup(vs) => json!({"k":"tup","vs":vs.iter().map(V::to_json).collect::<Vec<_>>()}),
            V::Udt(vs) => json!({"k":"udt","vs":vs.iter().map(V::to_json).collect::<Vec<_>>()}),
            V::Map(kvs) => json!({"k":"map","kvs":kvs.iter().map(|(k,v)| json!([k.to_json(), v.to_json()])).collect::<Vec<_>>()}),
        }
    }
}

// ---------------------------------------------------------------------------
// Small scalar helpers shared by the dynamic and the typed carriers
// ---------------------------------------------------------------------------

/// Big-endian bit pattern bytes -> u32, arithmetically.
pub fn bits_to_u32(b: &[u8]) -> Option<u32> {
    if b.len() != 4 {
        return None;
    }
    Some(b.iter().fold(0u32, |acc, x| acc * 256 + *x as u32))
}

pub fn bits_to_u64(b: &[u8]) -> Option<u64> {
    if b.len() != 8 {
        return None;
    }
    Some(b.iter().fold(0u64, |acc, x| acc * 256 + *x as u64))
}

pub fn u32_to_bits(mut x: u32) -> Vec<u8> {
    let mut out = vec![0u8; 4];
    for i in (0..4).rev() {
        out[i] = (x % 256) as u8;
        x /= 256;
    }
    out
}

pub fn u64_to_bits(mut x: u64) -> Vec<u8> {
    let mut out = vec![0u8; 8];
    for i in (0..8).rev() {
        out[i] = (x % 256) as u8;
        x /= 256;
    }
    out
}

pub fn f32_from_v(v: &V) -> Option<f32> {
    match v {
        V::Bits(b) => bits_to_u32(b).map(f32::from_bits),
        _ => None,
    }
}
pub fn f64_from_v(v: &V) -> Option<f64> {
    match v {
        V::Bits(b) => bits_to_u64(b).map(f64::from_bits),
        _ => None,
    }
}
pub fn f32_to_v(f: f32) -> V {
    V::Bits(u32_to_bits(f.to_bits()))
}
pub fn f64_to_v(f: f64) -> V {
    V::Bits(u64_to_bits(f.to_bits()))
}

pub fn string_from_v(v: &V) -> Option<String> {
    match v {
        V::S(b) => String::from_utf8(b.clone()).ok(),
        _ => None,
    }
}

pub fn ip_from_v(v: &V) -> Option<IpAddr> {
    match v {
        V::Bytes(b) if b.len() == 4 => {
            let a: [u8; 4] = b.as_slice().try_into().ok()?;
            Some(IpAddr::V4(Ipv4Addr::from(a)))
        }
        V::Bytes(b) if b.len() == 16 => {
            let a: [u8; 16] = b.as_slice().try_into().ok()?;
            Some(IpAddr::V6(Ipv6Addr::from(a)))
        }
        _ => None,
    }
}
pub fn ip_to_v(ip: &IpAddr) -> V {
    match ip {
        IpAddr::V4(a) => V::Bytes(a.octets().to_vec()),
        IpAddr::V6(a) => V::Bytes(a.octets().to_vec()),
    }
}

pub fn bytes16_from_v(v: &V) -> Option<[u8; 16]> {
    match v {
        V::Bytes(b) => b.as_slice().try_into().ok(),
        _ => None,
    }
}

pub fn duration_from_v(v: &V) -> Option<CqlDuration> {
    match v {
        V::Dur { months, days, nanos } => Some(CqlDuration {
            months: months.to_i32()?,
            days: days.to_i32()?,
            nanoseconds: nanos.to_i64()?,
        }),
        _ => None,
    }
}
pub fn duration_to_v(d: &CqlDuration) -> V {
    V::Dur {
        months: BigI::from_i128(d.months as i128),
        days: BigI::from_i128(d.days as i128),
        nanos: BigI::from_i128(d.nanoseconds as i128),
    }
}

pub fn decimal_from_v(v: &V) -> Option<CqlDecimal> {
    match v {
        V::Dec { scale, int } => Some(CqlDecimal::from_signed_be_bytes_and_exponent(
            int.to_twos_be(),
            scale.to_i32()?,
        )),
        _ => None,
    }
}
pub fn decimal_parts_to_v(bytes: &[u8], scale: i32) -> V {
    V::Dec { scale: BigI::from_i128(scale as i128), int: BigI::from_twos_be(bytes) }
}

// ---------------------------------------------------------------------------
// CqlValue <-> (T, V)
// ---------------------------------------------------------------------------

/// Builds the `CqlValue` tree for a non-null, non-unset value. `None` when `CqlValue`
/// cannot represent `(t, v)` (null element inside list/set/map/vector, unset anywhere,
/// value kind that does not belong to the type, out-of-range scalar, invalid UTF-8, ...).
pub fn to_cql(t: &T, v: &V) -> Option<CqlValue> {
    match v {
        V::Null | V::Unset | V::Skip | V::Absent => return None,
        V::Empty => return Some(CqlValue::Empty),
        _ => {}
    }
    match t {
        T::Native(n) => {
            let big = v.as_big();
            Some(match n.as_str() {
                "ascii" => CqlValue::Ascii(string_from_v(v)?),
                "text" => CqlValue::Text(string_from_v(v)?),
                "bigint" => CqlValue::BigInt(big?.to_i64()?),
                "int" => CqlValue::Int(big?.to_i32()?),
                "smallint" => CqlValue::SmallInt(big?.to_i16()?),
                "tinyint" => CqlValue::TinyInt(big?.to_i8()?),
                "counter" => CqlValue::Counter(Counter(big?.to_i64()?)),
                "varint" => CqlValue::Varint(CqlVarint::from_signed_bytes_be(big?.to_twos_be())),
                "date" => CqlValue::Date(CqlDate(big?.to_u32()?)),
                "time" => CqlValue::Time(CqlTime(big?.to_i64()?)),
                "timestamp" => CqlValue::Timestamp(CqlTimestamp(big?.to_i64()?)),
                "boolean" => match v {
                    V::B(b) => CqlValue::Boolean(*b),
                    _ => return None,
                },
                "float" => CqlValue::Float(f32_from_v(v)?),
                "double" => CqlValue::Double(f64_from_v(v)?),
                "blob" => match v {
                    V::Bytes(b) => CqlValue::Blob(b.clone()),
                    _ => return None,
                },
                "uuid" => CqlValue::Uuid(uuid::Uuid::from_bytes(bytes16_from_v(v)?)),
                "timeuuid" => CqlValue::Timeuuid(CqlTimeuuid::from_bytes(bytes16_from_v(v)?)),
                "inet" => CqlValue::Inet(ip_from_v(v)?),
                "decimal" => CqlValue::Decimal(decimal_from_v(v)?),
                "duration" => CqlValue::Duration(duration_from_v(v)?),
                _ => return None,
            })
        }
        T::List(e) | T::Set(e) | T::Vector(e, _) => {
            let V::Seq(vs) = v else { return None };
            let els: Vec<CqlValue> = vs.iter().map(|x| to_cql(e, x)).collect::<Option<_>>()?;
            Some(match t {
                T::List(_) => CqlValue::List(els),
                T::Set(_) => CqlValue::Set(els),
                _ => CqlValue::Vector(els),
            })
        }
        T::Map(a, b) => {
            let V::Map(kvs) = v else { return None };
            let els: Vec<(CqlValue, CqlValue)> = kvs
                .iter()
                .map(|(k, x)| Some((to_cql(a, k)?, to_cql(b, x)?)))
                .collect::<Option<_>>()?;
            Some(CqlValue::Map(els))
        }
        T::Tuple(ts) => {
            let V::Tup(vs) = v else { return None };
            if vs.len() > ts.len() {
                return None;
            }
            let els: Vec<Option<CqlValue>> = vs
                .iter()
                .zip(ts.iter())
                .map(|(x, et)| to_cql_opt(et, x))
                .collect::<Option<_>>()?;
            Some(CqlValue::Tuple(els))
        }
        T::Udt(fs) => {
            let V::Udt(vs) = v else { return None };
            if vs.len() > fs.len() {
                return None;
            }
            let fields: Vec<(String, Option<CqlValue>)> = vs
                .iter()
                .zip(fs.iter())
                .filter(|(x, _)| !matches!(x, V::Absent))      // a field the value does not list
                .map(|(x, (fname, ft))| Some((fname.clone(), to_cql_opt(ft, x)?)))
                .collect::<Option<_>>()?;
            Some(CqlValue::UserDefinedType {
                keyspace: UDT_KEYSPACE.to_string(),
                name: UDT_NAME.to_string(),
                fields,
            })
        }
    }
}

/// Like `to_cql` but `V::Null` becomes `Some(None)`.
pub fn to_cql_opt(t: &T, v: &V) -> Option<Option<CqlValue>> {
    match v {
        V::Null => Some(None),
        _ => to_cql(t, v).map(Some),
    }
}

pub fn opt_cql_to_v(c: &Option<CqlValue>) -> V {
    match c {
        None => V::Null,
        Some(c) => from_cql(c),
    }
}

/// `CqlValue` is self-describing, so no `T` is needed on the way back.
pub fn from_cql(c: &CqlValue) -> V {
    match c {
        CqlValue::Ascii(s) | CqlValue::Text(s) => V::S(s.as_bytes().to_vec()),
        CqlValue::Boolean(b) => V::B(*b),
        CqlValue::Blob(b) => V::Bytes(b.clone()),
        CqlValue::Counter(c) => V::int(c.0 as i128),
        CqlValue::Decimal(d) => {
            let (bytes, scale) = d.as_signed_be_bytes_slice_and_exponent();
            decimal_parts_to_v(bytes, scale)
        }
        CqlValue::Date(d) => V::int(d.0 as i128),
        CqlValue::Double(d) => f64_to_v(*d),
        CqlValue::Duration(d) => duration_to_v(d),
        CqlValue::Empty => V::Empty,
        CqlValue::Float(f) => f32_to_v(*f),
        CqlValue::Int(i) => V::int(*i as i128),
        CqlValue::BigInt(i) => V::int(*i as i128),
        CqlValue::Timestamp(t) => V::int(t.0 as i128),
        CqlValue::Inet(ip) => ip_to_v(ip),
        CqlValue::List(l) | CqlValue::Set(l) | CqlValue::Vector(l) => {
            V::Seq(l.iter().map(from_cql).collect())
        }
        CqlValue::Map(m) => V::Map(m.iter().map(|(k, v)| (from_cql(k), from_cql(v))).collect()),
        CqlValue::UserDefinedType { fields, .. } => {
            V::Udt(fields.iter().map(|(_, v)| opt_cql_to_v(v)).collect())
        }
        CqlValue::SmallInt(i) => V::int(*i as i128),
        CqlValue::TinyInt(i) => V::int(*i as i128),
        CqlValue::Time(t) => V::int(t.0 as i128),
        CqlValue::Timeuuid(u) => V::Bytes(u.as_bytes().to_vec()),
        CqlValue::Tuple(t) => V::Tup(t.iter().map(opt_cql_to_v).collect()),
        CqlValue::Uuid(u) => V::Bytes(u.as_bytes().to_vec()),
        CqlValue::Varint(v) => V::I(BigI::from_twos_be(v.as_signed_bytes_be_slice())),
        // CqlValue is #[non_exhaustive]
        _ => V::Skip,
    }
}

/// Some ordinary, valid, non-null value of the given type (used by c17-rollback).
pub fn sample_cql(t: &T) -> CqlValue {
    match t {
        T::Native(n) => match n.as_str() {
            "ascii" => CqlValue::Ascii("a".into()),
            "text" => CqlValue::Text("a".into()),
            "bigint" => CqlValue::BigInt(1),
            "int" => CqlValue::Int(1),
            "smallint" => CqlValue::SmallInt(1),
            "tinyint" => CqlValue::TinyInt(1),
            "counter" => CqlValue::Counter(Counter(1)),
            "varint" => CqlValue::Varint(CqlVarint::from_signed_bytes_be(vec![1])),
            "date" => CqlValue::Date(CqlDate(1 << 31)),
            "time" => CqlValue::Time(CqlTime(1)),
            "timestamp" => CqlValue::Timestamp(CqlTimestamp(1)),
            "boolean" => CqlValue::Boolean(true),
            "float" => CqlValue::Float(1.0),
            "double" => CqlValue::Double(1.0),
            "blob" => CqlValue::Blob(vec![1]),
            "uuid" => CqlValue::Uuid(uuid::Uuid::from_bytes([1; 16])),
            "timeuuid" => CqlValue::Timeuuid(CqlTimeuuid::from_bytes([1; 16])),
            "inet" => CqlValue::Inet(IpAddr::V4(Ipv4Addr::new(127, 0, 0, 1))),
            "decimal" => CqlValue::Decimal(CqlDecimal::from_signed_be_bytes_and_exponent(vec![1], 0)),
            _ => CqlValue::Duration(CqlDuration { months: 1, days: 1, nanoseconds: 1 }),
        },
        T::List(e) => CqlValue::List(vec![sample_cql(e)]),
        T::Set(e) => CqlValue::Set(vec![sample_cql(e)]),
        T::Vector(e, d) => CqlValue::Vector((0..*d).map(|_| sample_cql(e)).collect()),
        T::Map(a, b) => CqlValue::Map(vec![(sample_cql(a), sample_cql(b))]),
        T::Tuple(ts) => CqlValue::Tuple(ts.iter().map(|t| Some(sample_cql(t))).collect()),
        T::Udt(fs) => CqlValue::UserDefinedType {
            keyspace: UDT_KEYSPACE.to_string(),
            name: UDT_NAME.to_string(),
            fields: fs.iter().map(|(n, t)| (n.clone(), Some(sample_cql(t)))).collect(),
        },
    }
}
