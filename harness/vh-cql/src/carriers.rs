//! Typed (and dynamic) carriers: Rust types that can hold an abstract `(T, V)`, be
//! serialized by the real driver code and (mostly) be deserialized back.
//!
//! `Abs` says how a Rust type is built from / converted back to the abstract model.
//! The generic impls (Option, MaybeUnset, MaybeEmpty, Box, Arc, Vec, sets, maps, tuples)
//! compose, so e.g. `HashMap<String, Vec<Option<i32>>>` needs no code of its own - only
//! an entry in `registry()`.

use std::collections::{BTreeMap, BTreeSet, HashMap, HashSet};
use std::hash::Hash;
use std::net::IpAddr;
use std::panic::{AssertUnwindSafe, catch_unwind};
use std::sync::Arc;

use bytes::Bytes;
use scylla_cql_core::deserialize::value::DeserializeValue;
use scylla_cql_core::deserialize::{DeserializationError, FrameSlice, TypeCheckError};
use scylla_cql_core::frame::response::result::ColumnType;
use scylla_cql_core::serialize::row::SerializedValues;
use scylla_cql_core::serialize::value::SerializeValue;
use scylla_cql_core::serialize::{CellWriter, SerializationError};
use scylla_cql_core::value::{
    Counter, CqlDate, CqlDecimal, CqlDecimalBorrowed, CqlDuration, CqlTime, CqlTimestamp,
    CqlTimeuuid, CqlValue, CqlVarint, CqlVarintBorrowed, Emptiable, MaybeEmpty, MaybeUnset,
};
use serde_json::{Value, json};
use uuid::Uuid;

use crate::abs::{self, BigI, T, V, bytes_to_json};

// ---------------------------------------------------------------------------
// Abs: Rust type <-> abstract model
// ---------------------------------------------------------------------------

pub trait Abs: Sized {
    /// Stable carrier name.
    fn name() -> String;
    /// Can this Rust type be used for a column of type `t` at all?
    fn accepts(t: &T) -> bool;
    /// Build the Rust value; `None` = this carrier cannot represent `(t, v)`.
    fn from_abs(t: &T, v: &V) -> Option<Self>;
    /// What the carrier actually holds, in iteration (= serialization) order.
    fn to_abs(&self) -> V;
}

macro_rules! abs_native {
    ($ty:ty, $name:expr, [$($n:literal),+], $from:expr, $to:expr) => {
        impl Abs for $ty {
            fn name() -> String { $name.to_string() }
            fn accepts(t: &T) -> bool { matches!(t.native(), Some($($n)|+)) }
            fn from_abs(t: &T, v: &V) -> Option<Self> {
                if !Self::accepts(t) { return None; }
                let f: fn(&V) -> Option<$ty> = $from;
                f(v)
            }
            fn to_abs(&self) -> V {
                let f: fn(&$ty) -> V = $to;
                f(self)
            }
        }
    };
}

fn big(v: &V) -> Option<&BigI> {
    v.as_big()
}

// --- fixed-width integers, floats, bool
abs_native!(i8, "i8", ["tinyint"], |v| big(v)?.to_i8(), |x| V::int(*x as i128));
abs_native!(i16, "i16", ["smallint"], |v| big(v)?.to_i16(), |x| V::int(*x as i128));
abs_native!(i32, "i32", ["int"], |v| big(v)?.to_i32(), |x| V::int(*x as i128));
abs_native!(i64, "i64", ["bigint"], |v| big(v)?.to_i64(), |x| V::int(*x as i128));
abs_native!(f32, "f32", ["float"], abs::f32_from_v, |x| abs::f32_to_v(*x));
abs_native!(f64, "f64", ["double"], abs::f64_from_v, |x| abs::f64_to_v(*x));
abs_native!(
    bool,
    "bool",
    ["boolean"],
    |v| match v {
        V::B(b) => Some(*b),
        _ => None,
    },
    |x| V::B(*x)
);

// --- strings
abs_native!(String, "String", ["text", "ascii"], abs::string_from_v, |x| V::S(x.as_bytes().to_vec()));
abs_native!(
    Box<str>,
    "Box<str>",
    ["text", "ascii"],
    |v| abs::string_from_v(v).map(String::into_boxed_str),
    |x| V::S(x.as_bytes().to_vec())
);
abs_native!(
    Arc<str>,
    "Arc<str>",
    ["text", "ascii"],
    |v| abs::string_from_v(v).map(Arc::<str>::from),
    |x| V::S(x.as_bytes().to_vec())
);

// --- blobs
fn blob_from_v(v: &V) -> Option<Vec<u8>> {
    match v {
        V::Bytes(b) => Some(b.clone()),
        _ => None,
    }
}
abs_native!(Vec<u8>, "Vec<u8>", ["blob"], blob_from_v, |x| V::Bytes(x.clone()));
abs_native!(Bytes, "Bytes", ["blob"], |v| blob_from_v(v).map(Bytes::from), |x| V::Bytes(x.to_vec()));

// --- inet / uuid
abs_native!(IpAddr, "IpAddr", ["inet"], abs::ip_from_v, abs::ip_to_v);
abs_native!(
    Uuid,
    "Uuid",
    ["uuid"],
    |v| abs::bytes16_from_v(v).map(Uuid::from_bytes),
    |x| V::Bytes(x.as_bytes().to_vec())
);
abs_native!(
    CqlTimeuuid,
    "CqlTimeuuid",
    ["timeuuid"],
    |v| abs::bytes16_from_v(v).map(CqlTimeuuid::from_bytes),
    |x| V::Bytes(x.as_bytes().to_vec())
);

// --- Cql* date/time
abs_native!(CqlDate, "CqlDate", ["date"], |v| big(v)?.to_u32().map(CqlDate), |x| V::int(x.0 as i128));
abs_native!(CqlTime, "CqlTime", ["time"], |v| big(v)?.to_i64().map(CqlTime), |x| V::int(x.0 as i128));
abs_native!(
    CqlTimestamp,
    "CqlTimestamp",
    ["timestamp"],
    |v| big(v)?.to_i64().map(CqlTimestamp),
    |x| V::int(x.0 as i128)
);
abs_native!(CqlDuration, "CqlDuration", ["duration"], abs::duration_from_v, abs::duration_to_v);
abs_native!(Counter, "Counter", ["counter"], |v| big(v)?.to_i64().map(Counter), |x| V::int(x.0 as i128));

// --- chrono 0.4
const DAYS_CE_TO_UNIX_EPOCH: i64 = 719_163; // 1970-01-01 is day 719163 of the common era
const TWO_31: i64 = 1 << 31;

abs_native!(
    chrono_04::NaiveDate,
    "chrono::NaiveDate",
    ["date"],
    |v| {
        let raw = big(v)?.to_u32()? as i64;
        let days_ce = i32::try_from(raw - TWO_31 + DAYS_CE_TO_UNIX_EPOCH).ok()?;
        chrono_04::NaiveDate::from_num_days_from_ce_opt(days_ce)
    },
    |x| {
        use chrono_04::Datelike;
        V::int((x.num_days_from_ce() as i64 - DAYS_CE_TO_UNIX_EPOCH + TWO_31) as i128)
    }
);
abs_native!(
    chrono_04::NaiveTime,
    "chrono::NaiveTime",
    ["time"],
    |v| {
        let ns = big(v)?.to_i64()?;
        if !(0..86_400_000_000_000).contains(&ns) {
            return None;
        }
        chrono_04::NaiveTime::from_num_seconds_from_midnight_opt(
            (ns / 1_000_000_000) as u32,
            (ns % 1_000_000_000) as u32,
        )
    },
    |x| {
        use chrono_04::Timelike;
        V::int(x.num_seconds_from_midnight() as i128 * 1_000_000_000 + x.nanosecond() as i128)
    }
);
abs_native!(
    chrono_04::DateTime<chrono_04::Utc>,
    "chrono::DateTime<Utc>",
    ["timestamp"],
    |v| chrono_04::DateTime::from_timestamp_millis(big(v)?.to_i64()?),
    |x| V::int(x.timestamp_millis() as i128)
);

// --- time 0.3
const JULIAN_DAY_UNIX_EPOCH: i64 = 2_440_588;

abs_native!(
    time_03::Date,
    "time::Date",
    ["date"],
    |v| {
        let raw = big(v)?.to_u32()? as i64;
        let jd = i32::try_from(raw - TWO_31 + JULIAN_DAY_UNIX_EPOCH).ok()?;
        time_03::Date::from_julian_day(jd).ok()
    },
    |x| V::int((x.to_julian_day() as i64 - JULIAN_DAY_UNIX_EPOCH + TWO_31) as i128)
);
abs_native!(
    time_03::Time,
    "time::Time",
    ["time"],
    |v| {
        let ns = big(v)?.to_i64()?;
        if !(0..86_400_000_000_000).contains(&ns) {
            return None;
        }
        let secs = ns / 1_000_000_000;
        time_03::Time::from_hms_nano(
            (secs / 3600) as u8,
            (secs / 60 % 60) as u8,
            (secs % 60) as u8,
            (ns % 1_000_000_000) as u32,
        )
        .ok()
    },
    |x| {
        let (h, m, s, n) = x.as_hms_nano();
        V::int((h as i128 * 3600 + m as i128 * 60 + s as i128) * 1_000_000_000 + n as i128)
    }
);
abs_native!(
    time_03::OffsetDateTime,
    "time::OffsetDateTime",
    ["timestamp"],
    |v| {
        let ms = big(v)?.to_i64()?;
        time_03::OffsetDateTime::from_unix_timestamp_nanos(ms as i128 * 1_000_000).ok()
    },
    |x| V::int(x.unix_timestamp_nanos().div_euclid(1_000_000))
);

// --- varint
abs_native!(
    CqlVarint,
    "CqlVarint",
    ["varint"],
    |v| Some(CqlVarint::from_signed_bytes_be(big(v)?.to_twos_be())),
    |x| V::I(BigI::from_twos_be(x.as_signed_bytes_be_slice()))
);

macro_rules! bigint_conv {
    ($modname:ident, $krate:ident) => {
        pub mod $modname {
            use crate::abs::BigI;
            use $krate::{BigInt, Sign};
            /// sum of limb * 256^i, then negate - plain BigInt arithmetic.
            pub fn from_big(i: &BigI) -> BigInt {
                let mut acc = BigInt::from(0u8);
                for limb in i.mag.iter().rev() {
                    acc = acc * BigInt::from(256u32) + BigInt::from(*limb);
                }
                if i.neg { -acc } else { acc }
            }
            /// repeated division of the absolute value by 256.
            pub fn to_big(x: &BigInt) -> BigI {
                let neg = x.sign() == Sign::Minus;
                let mut m: BigInt = if neg { -x.clone() } else { x.clone() };
                let zero = BigInt::from(0u8);
                let base = BigInt::from(256u32);
                let mut mag = Vec::new();
                while m != zero {
                    let r = &m % &base;
                    let (_, digits) = r.to_u32_digits();
                    mag.push(digits.first().copied().unwrap_or(0) as u8);
                    m = &m / &base;
                }
                BigI::new(neg, mag)
            }
        }
    };
}
bigint_conv!(big03, num_bigint_03);
bigint_conv!(big04, num_bigint_04);

abs_native!(
    num_bigint_03::BigInt,
    "num_bigint_03::BigInt",
    ["varint"],
    |v| Some(big03::from_big(big(v)?)),
    |x| V::I(big03::to_big(x))
);
abs_native!(
    num_bigint_04::BigInt,
    "num_bigint_04::BigInt",
    ["varint"],
    |v| Some(big04::from_big(big(v)?)),
    |x| V::I(big04::to_big(x))
);

// --- decimal
abs_native!(CqlDecimal, "CqlDecimal", ["decimal"], abs::decimal_from_v, |x| {
    let (bytes, scale) = x.as_signed_be_bytes_slice_and_exponent();
    abs::decimal_parts_to_v(bytes, scale)
});
abs_native!(
    bigdecimal_04::BigDecimal,
    "bigdecimal_04::BigDecimal",
    ["decimal"],
    |v| match v {
        V::Dec { scale, int } => Some(bigdecimal_04::BigDecimal::new(
            big04::from_big(int),
            scale.to_i32()? as i64,
        )),
        _ => None,
    },
    |x| {
        let (int, scale) = x.as_bigint_and_exponent();
        V::Dec { scale: BigI::from_i128(scale as i128), int: big04::to_big(&int) }
    }
);

// --- the dynamic carrier
impl Abs for CqlValue {
    fn name() -> String {
        "CqlValue".to_string()
    }
    fn accepts(_t: &T) -> bool {
        true
    }
    fn from_abs(t: &T, v: &V) -> Option<Self> {
        abs::to_cql(t, v)
    }
    fn to_abs(&self) -> V {
        abs::from_cql(self)
    }
}

// --- wrappers
impl<X: Abs> Abs for Option<X> {
    fn name() -> String {
        format!("Option<{}>", X::name())
    }
    fn accepts(t: &T) -> bool {
        X::accepts(t)
    }
    fn from_abs(t: &T, v: &V) -> Option<Self> {
        match v {
            V::Null => X::accepts(t).then_some(None),
            _ => X::from_abs(t, v).map(Some),
        }
    }
    fn to_abs(&self) -> V {
        match self {
            None => V::Null,
            Some(x) => x.to_abs(),
        }
    }
}

impl<X: Abs> Abs for MaybeUnset<X> {
    fn name() -> String {
        format!("MaybeUnset<{}>", X::name())
    }
    fn accepts(t: &T) -> bool {
        X::accepts(t)
    }
    fn from_abs(t: &T, v: &V) -> Option<Self> {
        match v {
            V::Unset => X::accepts(t).then_some(MaybeUnset::Unset),
            _ => X::from_abs(t, v).map(MaybeUnset::Set),
        }
    }
    fn to_abs(&self) -> V {
        match self {
            MaybeUnset::Unset => V::Unset,
            MaybeUnset::Set(x) => x.to_abs(),
        }
    }
}

impl<X: Abs + Emptiable> Abs for MaybeEmpty<X> {
    fn name() -> String {
        format!("MaybeEmpty<{}>", X::name())
    }
    fn accepts(t: &T) -> bool {
        X::accepts(t)
    }
    fn from_abs(t: &T, v: &V) -> Option<Self> {
        match v {
            V::Empty => X::accepts(t).then_some(MaybeEmpty::Empty),
            _ => X::from_abs(t, v).map(MaybeEmpty::Value),
        }
    }
    fn to_abs(&self) -> V {
        match self {
            MaybeEmpty::Empty => V::Empty,
            MaybeEmpty::Value(x) => x.to_abs(),
        }
    }
}

impl<X: Abs> Abs for Box<X> {
    fn name() -> String {
        format!("Box<{}>", X::name())
    }
    fn accepts(t: &T) -> bool {
        X::accepts(t)
    }
    fn from_abs(t: &T, v: &V) -> Option<Self> {
        X::from_abs(t, v).map(Box::new)
    }
    fn to_abs(&self) -> V {
        (**self).to_abs()
    }
}

impl<X: Abs> Abs for Arc<X> {
    fn name() -> String {
        format!("Arc<{}>", X::name())
    }
    fn accepts(t: &T) -> bool {
        X::accepts(t)
    }
    fn from_abs(t: &T, v: &V) -> Option<Self> {
        X::from_abs(t, v).map(Arc::new)
    }
    fn to_abs(&self) -> V {
        (**self).to_abs()
    }
}

// --- sequences
fn seq_elem_type(t: &T) -> Option<&T> {
    match t {
        T::List(e) | T::Set(e) | T::Vector(e, _) => Some(e),
        _ => None,
    }
}

impl<X: Abs> Abs for Vec<X> {
    fn name() -> String {
        format!("Vec<{}>", X::name())
    }
    fn accepts(t: &T) -> bool {
        seq_elem_type(t).is_some_and(X::accepts)
    }
    fn from_abs(t: &T, v: &V) -> Option<Self> {
        let e = seq_elem_type(t)?;
        let V::Seq(vs) = v else { return None };
        vs.iter().map(|x| X::from_abs(e, x)).collect()
    }
    fn to_abs(&self) -> V {
        V::Seq(self.iter().map(Abs::to_abs).collect())
    }
}

impl<X: Abs + Eq + Hash> Abs for HashSet<X> {
    fn name() -> String {
        format!("HashSet<{}>", X::name())
    }
    fn accepts(t: &T) -> bool {
        matches!(t, T::Set(e) if X::accepts(e))
    }
    fn from_abs(t: &T, v: &V) -> Option<Self> {
        let T::Set(e) = t else { return None };
        let V::Seq(vs) = v else { return None };
        vs.iter().map(|x| X::from_abs(e, x)).collect()
    }
    fn to_abs(&self) -> V {
        V::Seq(self.iter().map(Abs::to_abs).collect())
    }
}

impl<X: Abs + Ord> Abs for BTreeSet<X> {
    fn name() -> String {
        format!("BTreeSet<{}>", X::name())
    }
    fn accepts(t: &T) -> bool {
        matches!(t, T::Set(e) if X::accepts(e))
    }
    fn from_abs(t: &T, v: &V) -> Option<Self> {
        let T::Set(e) = t else { return None };
        let V::Seq(vs) = v else { return None };
        vs.iter().map(|x| X::from_abs(e, x)).collect()
    }
    fn to_abs(&self) -> V {
        V::Seq(self.iter().map(Abs::to_abs).collect())
    }
}

// --- maps
impl<K: Abs + Eq + Hash, X: Abs> Abs for HashMap<K, X> {
    fn name() -> String {
        format!("HashMap<{}, {}>", K::name(), X::name())
    }
    fn accepts(t: &T) -> bool {
        matches!(t, T::Map(a, b) if K::accepts(a) && X::accepts(b))
    }
    fn from_abs(t: &T, v: &V) -> Option<Self> {
        let T::Map(a, b) = t else { return None };
        let V::Map(kvs) = v else { return None };
        kvs.iter()
            .map(|(k, x)| Some((K::from_abs(a, k)?, X::from_abs(b, x)?)))
            .collect()
    }
    fn to_abs(&self) -> V {
        V::Map(self.iter().map(|(k, x)| (k.to_abs(), x.to_abs())).collect())
    }
}

impl<K: Abs + Ord, X: Abs> Abs for BTreeMap<K, X> {
    fn name() -> String {
        format!("BTreeMap<{}, {}>", K::name(), X::name())
    }
    fn accepts(t: &T) -> bool {
        matches!(t, T::Map(a, b) if K::accepts(a) && X::accepts(b))
    }
    fn from_abs(t: &T, v: &V) -> Option<Self> {
        let T::Map(a, b) = t else { return None };
        let V::Map(kvs) = v else { return None };
        kvs.iter()
            .map(|(k, x)| Some((K::from_abs(a, k)?, X::from_abs(b, x)?)))
            .collect()
    }
    fn to_abs(&self) -> V {
        V::Map(self.iter().map(|(k, x)| (k.to_abs(), x.to_abs())).collect())
    }
}

// --- Rust tuples (arity 1..=4). The Rust tuple may be SHORTER than the CQL tuple type
// (the serializer allows it); it holds exactly as many elements as V has.
macro_rules! abs_tuple {
    ($len:expr; $($X:ident $idx:tt),+) => {
        impl<$($X: Abs),+> Abs for ($($X,)+) {
            fn name() -> String {
                let parts: Vec<String> = vec![$($X::name()),+];
                if parts.len() == 1 { format!("({},)", parts[0]) } else { format!("({})", parts.join(", ")) }
            }
            fn accepts(t: &T) -> bool {
                match t {
                    T::Tuple(ts) => ts.len() >= $len $(&& $X::accepts(&ts[$idx]))+,
                    _ => false,
                }
            }
            fn from_abs(t: &T, v: &V) -> Option<Self> {
                let T::Tuple(ts) = t else { return None };
                let V::Tup(vs) = v else { return None };
                if vs.len() != $len || ts.len() < $len { return None; }
                Some(($($X::from_abs(&ts[$idx], &vs[$idx])?,)+))
            }
            fn to_abs(&self) -> V {
                V::Tup(vec![$(self.$idx.to_abs()),+])
            }
        }
    };
}
abs_tuple!(1; A 0);
abs_tuple!(2; A 0, B 1);
abs_tuple!(3; A 0, B 1, C 2);
abs_tuple!(4; A 0, B 1, C 2, D 3);

// ---------------------------------------------------------------------------
// Execution of one carrier on one vector
// ---------------------------------------------------------------------------

pub struct Ctx<'a> {
    pub t: &'a T,
    pub v: &'a V,
    pub ct: &'a ColumnType<'static>,
    pub t_json: &'a Value,
}

#[derive(Default)]
pub struct Stats {
    pub records: u64,
    pub ser_errors: u64,
    pub de_errors: u64,
    pub panics: u64,
    pub split_records: u64,
}

pub struct Out {
    pub records: Vec<Value>,
    pub stats: Stats,
}

#[derive(PartialEq, Eq)]
pub enum SerRes {
    Ok(Vec<u8>),
    Err(String),
    Panic(String),
}

pub enum Decoded {
    Skip,
    Val(V),
    Err(String),
}

pub type DecodeFn = for<'a> fn(&'a ColumnType<'a>, Option<FrameSlice<'a>>) -> Decoded;

/// The raw value buffer of a `SerializedValues` (without the u16 count that
/// `write_to_request` prepends).
pub fn raw_buffer(sv: &SerializedValues) -> Vec<u8> {
    let mut buf = Vec::with_capacity(sv.buffer_size() + 2);
    sv.write_to_request(&mut buf);
    buf.split_off(2)
}

fn panic_text() -> String {
    format!("PANIC: {}", crate::last_panic())
}

/// type_check + deserialize + convert, with panics caught.
pub fn decode_with<R>(
    tc: impl FnOnce() -> Result<(), TypeCheckError>,
    de: impl FnOnce() -> Result<R, DeserializationError>,
    conv: impl FnOnce(&R) -> V,
) -> Decoded {
    let r = catch_unwind(AssertUnwindSafe(|| {
        if let Err(e) = tc() {
            return Decoded::Err(e.to_string());
        }
        match de() {
            Ok(r) => Decoded::Val(conv(&r)),
            Err(e) => Decoded::Err(e.to_string()),
        }
    }));
    r.unwrap_or_else(|_| Decoded::Err(panic_text()))
}

pub fn decode_owned<X>(ct: &ColumnType<'_>, body: Option<FrameSlice<'_>>) -> Decoded
where
    X: Abs + for<'f, 'm> DeserializeValue<'f, 'm>,
{
    decode_with(
        || <X as DeserializeValue<'_, '_>>::type_check(ct),
        || <X as DeserializeValue<'_, '_>>::deserialize(ct, body),
        |x: &X| x.to_abs(),
    )
}

fn decode_skip(_ct: &ColumnType<'_>, _body: Option<FrameSlice<'_>>) -> Decoded {
    Decoded::Skip
}

/// 4-byte big-endian signed length, computed arithmetically.
fn read_len(cell: &[u8]) -> Option<i64> {
    if cell.len() < 4 {
        return None;
    }
    let u = cell[..4].iter().fold(0i64, |acc, b| acc * 256 + *b as i64);
    Some(if u >= (1 << 31) { u - (1 << 32) } else { u })
}

fn decode_cell(ct: &ColumnType<'static>, cell: &[u8], decode: DecodeFn) -> Decoded {
    match read_len(cell) {
        None => Decoded::Skip,
        Some(-1) => decode(ct, None),
        Some(n) if n < -1 => Decoded::Skip, // unset (or garbage): nothing to deserialize
        Some(_) => {
            // The body handed to deserialize is exactly the bytes after the length prefix.
            let body = Bytes::copy_from_slice(&cell[4..]);
            decode(ct, Some(FrameSlice::new(&body)))
        }
    }
}

fn has_absent(v: &V) -> bool {
    match v {
        V::Absent => true,
        V::Seq(vs) | V::Tup(vs) | V::Udt(vs) => vs.iter().any(has_absent),
        V::Map(kvs) => kvs.iter().any(|(k, x)| has_absent(k) || has_absent(x)),
        _ => false,
    }
}

pub fn execute(
    ctx: &Ctx,
    name: &str,
    held: V,
    ser_add: &dyn Fn(&mut SerializedValues) -> Result<(), SerializationError>,
    ser_direct: &dyn Fn(&mut Vec<u8>) -> Result<(), SerializationError>,
    decode: DecodeFn,
    out: &mut Out,
) {
    let a = match catch_unwind(AssertUnwindSafe(|| {
        let mut sv = SerializedValues::new();
        match ser_add(&mut sv) {
            Ok(()) => SerRes::Ok(raw_buffer(&sv)),
            Err(e) => SerRes::Err(e.to_string()),
        }
    })) {
        Ok(r) => r,
        Err(_) => SerRes::Panic(panic_text()),
    };
    let b = match catch_unwind(AssertUnwindSafe(|| {
        let mut buf = Vec::new();
        match ser_direct(&mut buf) {
            Ok(()) => SerRes::Ok(buf),
            Err(e) => SerRes::Err(e.to_string()),
        }
    })) {
        Ok(r) => r,
        Err(_) => SerRes::Panic(panic_text()),
    };

    let variants: Vec<(String, SerRes)> = if a == b {
        vec![(name.to_string(), a)]
    } else {
        out.stats.split_records += 1;
        vec![(format!("{name}/add_value"), a), (format!("{name}/serialize"), b)]
    };

    // A dynamic UDT value that does not list a field cannot be read back positionally from the CqlValue
    // (`from_cql` has no type): for such inputs the record carries the input value itself.
    let held_json = if has_absent(ctx.v) { ctx.v.to_json() } else { held.to_json() };
    for (cname, res) in variants {
        let (cell, decoded, ser_err, de_err) = match res {
            SerRes::Ok(cell) => match decode_cell(ctx.ct, &cell, decode) {
                Decoded::Skip => (bytes_to_json(&cell), V::Skip.to_json(), Value::Null, Value::Null),
                Decoded::Val(v) => (bytes_to_json(&cell), v.to_json(), Value::Null, Value::Null),
                Decoded::Err(e) => {
                    if e.starts_with("PANIC: ") {
                        out.stats.panics += 1;
                    }
                    out.stats.de_errors += 1;
                    (bytes_to_json(&cell), Value::Null, Value::Null, Value::String(e))
                }
            },
            SerRes::Err(e) => {
                out.stats.ser_errors += 1;
                (Value::Null, Value::Null, Value::String(e), Value::Null)
            }
            SerRes::Panic(e) => {
                out.stats.panics += 1;
                out.stats.ser_errors += 1;
                (Value::Null, Value::Null, Value::String(e), Value::Null)
            }
        };
        out.stats.records += 1;
        out.records.push(json!({
            "t": ctx.t_json,
            "v": held_json,
            "carrier": cname,
            "cell": cell,
            "decoded": decoded,
            "ser_err": ser_err,
            "de_err": de_err,
        }));
    }
}

// ---------------------------------------------------------------------------
// Generic runners
// ---------------------------------------------------------------------------

pub type Runner = fn(&Ctx, &mut Out);

/// Carrier that can be serialized and deserialized (owned types).
pub fn run_full<X>(ctx: &Ctx, out: &mut Out)
where
    X: Abs + SerializeValue + for<'f, 'm> DeserializeValue<'f, 'm>,
{
    if !X::accepts(ctx.t) {
        return;
    }
    let Some(x) = X::from_abs(ctx.t, ctx.v) else { return };
    execute(
        ctx,
        &X::name(),
        x.to_abs(),
        &|sv| sv.add_value(&x, ctx.ct),
        &|buf| x.serialize(ctx.ct, CellWriter::new(buf)).map(|_| ()),
        decode_owned::<X>,
        out,
    );
}

/// Carrier that can only be serialized (`decoded` = skip).
pub fn run_ser<X>(ctx: &Ctx, out: &mut Out)
where
    X: Abs + SerializeValue,
{
    if !X::accepts(ctx.t) {
        return;
    }
    let Some(x) = X::from_abs(ctx.t, ctx.v) else { return };
    execute(
        ctx,
        &X::name(),
        x.to_abs(),
        &|sv| sv.add_value(&x, ctx.ct),
        &|buf| x.serialize(ctx.ct, CellWriter::new(buf)).map(|_| ()),
        decode_skip,
        out,
    );
}

/// Carrier `&X` (serialize only).
pub fn run_ref<X>(ctx: &Ctx, out: &mut Out)
where
    X: Abs + SerializeValue,
{
    if !X::accepts(ctx.t) {
        return;
    }
    let Some(x) = X::from_abs(ctx.t, ctx.v) else { return };
    let r: &X = &x;
    execute(
        ctx,
        &format!("&{}", X::name()),
        x.to_abs(),
        &|sv| sv.add_value::<&X>(&r, ctx.ct),
        &|buf| <&X as SerializeValue>::serialize(&r, ctx.ct, CellWriter::new(buf)).map(|_| ()),
        decode_skip,
        out,
    );
}

// --- borrowed carriers (deserialize borrows from the frame)

fn run_ref_str(ctx: &Ctx, out: &mut Out) {
    let Some(owner) = String::from_abs(ctx.t, ctx.v) else { return };
    let r: &str = owner.as_str();
    fn dec<'a>(ct: &'a ColumnType<'a>, body: Option<FrameSlice<'a>>) -> Decoded {
        decode_with(
            || <&'a str as DeserializeValue<'a, 'a>>::type_check(ct),
            || <&'a str as DeserializeValue<'a, 'a>>::deserialize(ct, body),
            |s| V::S(s.as_bytes().to_vec()),
        )
    }
    execute(
        ctx,
        "&str",
        V::S(r.as_bytes().to_vec()),
        &|sv| sv.add_value::<&str>(&r, ctx.ct),
        &|buf| <&str as SerializeValue>::serialize(&r, ctx.ct, CellWriter::new(buf)).map(|_| ()),
        dec,
        out,
    );
}

fn run_ref_bytes(ctx: &Ctx, out: &mut Out) {
    let Some(owner) = <Vec<u8>>::from_abs(ctx.t, ctx.v) else { return };
    let r: &[u8] = owner.as_slice();
    fn dec<'a>(ct: &'a ColumnType<'a>, body: Option<FrameSlice<'a>>) -> Decoded {
        decode_with(
            || <&'a [u8] as DeserializeValue<'a, 'a>>::type_check(ct),
            || <&'a [u8] as DeserializeValue<'a, 'a>>::deserialize(ct, body),
            |s| V::Bytes(s.to_vec()),
        )
    }
    execute(
        ctx,
        "&[u8]",
        V::Bytes(r.to_vec()),
        &|sv| sv.add_value::<&[u8]>(&r, ctx.ct),
        &|buf| <&[u8] as SerializeValue>::serialize(&r, ctx.ct, CellWriter::new(buf)).map(|_| ()),
        dec,
        out,
    );
}

fn run_varint_borrowed(ctx: &Ctx, out: &mut Out) {
    if ctx.t.native() != Some("varint") {
        return;
    }
    let Some(i) = ctx.v.as_big() else { return };
    let owner = i.to_twos_be();
    let r = CqlVarintBorrowed::from_signed_bytes_be_slice(&owner);
    fn to_v(x: &CqlVarintBorrowed<'_>) -> V {
        V::I(BigI::from_twos_be(x.as_signed_bytes_be_slice()))
    }
    fn dec<'a>(ct: &'a ColumnType<'a>, body: Option<FrameSlice<'a>>) -> Decoded {
        decode_with(
            || <CqlVarintBorrowed<'a> as DeserializeValue<'a, 'a>>::type_check(ct),
            || <CqlVarintBorrowed<'a> as DeserializeValue<'a, 'a>>::deserialize(ct, body),
            to_v,
        )
    }
    execute(
        ctx,
        "CqlVarintBorrowed",
        to_v(&r),
        &|sv| sv.add_value(&r, ctx.ct),
        &|buf| r.serialize(ctx.ct, CellWriter::new(buf)).map(|_| ()),
        dec,
        out,
    );
}

fn run_decimal_borrowed(ctx: &Ctx, out: &mut Out) {
    if ctx.t.native() != Some("decimal") {
        return;
    }
    let V::Dec { scale, int } = ctx.v else { return };
    let Some(scale) = scale.to_i32() else { return };
    let owner = int.to_twos_be();
    let r = CqlDecimalBorrowed::from_signed_be_bytes_slice_and_exponent(&owner, scale);
    fn to_v(x: &CqlDecimalBorrowed<'_>) -> V {
        let (bytes, scale) = x.as_signed_be_bytes_slice_and_exponent();
        abs::decimal_parts_to_v(bytes, scale)
    }
    fn dec<'a>(ct: &'a ColumnType<'a>, body: Option<FrameSlice<'a>>) -> Decoded {
        decode_with(
            || <CqlDecimalBorrowed<'a> as DeserializeValue<'a, 'a>>::type_check(ct),
            || <CqlDecimalBorrowed<'a> as DeserializeValue<'a, 'a>>::deserialize(ct, body),
            to_v,
        )
    }
    execute(
        ctx,
        "CqlDecimalBorrowed",
        to_v(&r),
        &|sv| sv.add_value(&r, ctx.ct),
        &|buf| r.serialize(ctx.ct, CellWriter::new(buf)).map(|_| ()),
        dec,
        out,
    );
}

/// `[u8; N]` (serialize only) for the blob lengths we have a const for.
fn run_u8_array(ctx: &Ctx, out: &mut Out) {
    let Some(owner) = <Vec<u8>>::from_abs(ctx.t, ctx.v) else { return };
    macro_rules! arr {
        ($($n:literal),*) => {
            match owner.len() {
                $($n => {
                    let a: [u8; $n] = owner.as_slice().try_into().unwrap();
                    execute(
                        ctx,
                        concat!("[u8; ", stringify!($n), "]"),
                        V::Bytes(a.to_vec()),
                        &|sv| sv.add_value(&a, ctx.ct),
                        &|buf| a.serialize(ctx.ct, CellWriter::new(buf)).map(|_| ()),
                        decode_skip,
                        out,
                    );
                    let r: &[u8; $n] = &a;
                    execute(
                        ctx,
                        concat!("&[u8; ", stringify!($n), "]"),
                        V::Bytes(a.to_vec()),
                        &|sv| sv.add_value::<&[u8; $n]>(&r, ctx.ct),
                        &|buf| <&[u8; $n] as SerializeValue>::serialize(&r, ctx.ct, CellWriter::new(buf)).map(|_| ()),
                        decode_skip,
                        out,
                    );
                })*
                _ => {}
            }
        };
    }
    arr!(0, 1, 2, 3, 4, 5, 8, 16, 32);
}

// ---------------------------------------------------------------------------
// Registry
// ---------------------------------------------------------------------------

macro_rules! push_full { ($v:ident; $($ty:ty),* $(,)?) => { $( $v.push(run_full::<$ty> as Runner); )* }; }

/// X, Option<X>, MaybeUnset<X>, Box<X>, Arc<X>, &X
macro_rules! push_wrapped {
    ($v:ident; $($ty:ty),* $(,)?) => { $(
        $v.push(run_full::<$ty> as Runner);
        $v.push(run_full::<Option<$ty>> as Runner);
        $v.push(run_ser::<MaybeUnset<$ty>> as Runner);
        $v.push(run_full::<Box<$ty>> as Runner);
        $v.push(run_full::<Arc<$ty>> as Runner);
        $v.push(run_ref::<$ty> as Runner);
    )* };
}

macro_rules! push_emptiable {
    ($v:ident; $($ty:ty),* $(,)?) => { $(
        $v.push(run_full::<MaybeEmpty<$ty>> as Runner);
        $v.push(run_full::<Option<MaybeEmpty<$ty>>> as Runner);
    )* };
}

/// Vec<X>, Vec<Option<X>>
macro_rules! push_seqs {
    ($v:ident; $($ty:ty),* $(,)?) => { $(
        $v.push(run_full::<Vec<$ty>> as Runner);
        $v.push(run_full::<Vec<Option<$ty>>> as Runner);
    )* };
}

macro_rules! push_sets {
    ($v:ident; $($ty:ty),* $(,)?) => { $(
        $v.push(run_full::<HashSet<$ty>> as Runner);
        $v.push(run_full::<BTreeSet<$ty>> as Runner);
    )* };
}

/// HashMap<K, X> and BTreeMap<K, X> for every K in the first list and X in the second.
macro_rules! push_maps {
    ($v:ident; [$($k:ty),*]; $xs:tt) => { $( push_maps!(@k $v; $k; $xs); )* };
    (@k $v:ident; $k:ty; [$($x:ty),*]) => { $(
        $v.push(run_full::<HashMap<$k, $x>> as Runner);
        $v.push(run_full::<BTreeMap<$k, $x>> as Runner);
    )* };
}

type BigInt03 = num_bigint_03::BigInt;
type BigInt04 = num_bigint_04::BigInt;
type BigDecimal04 = bigdecimal_04::BigDecimal;
type NaiveDate = chrono_04::NaiveDate;
type NaiveTime = chrono_04::NaiveTime;
type DateTimeUtc = chrono_04::DateTime<chrono_04::Utc>;
type TDate = time_03::Date;
type TTime = time_03::Time;
type TOdt = time_03::OffsetDateTime;
type OC = Option<CqlValue>;

pub fn registry() -> Vec<Runner> {
    let mut v: Vec<Runner> = Vec::new();

    // the dynamic carrier: CqlValue / Option<CqlValue> (null) / MaybeUnset<CqlValue> (unset)
    push_wrapped!(v; CqlValue);
    v.push(run_ser::<MaybeUnset<Option<CqlValue>>> as Runner);

    // natives
    push_wrapped!(v;
        i8, i16, i32, i64, f32, f64, bool,
        String, Box<str>, Arc<str>, Vec<u8>, Bytes,
        IpAddr, Uuid, CqlTimeuuid,
        CqlDate, CqlTime, CqlTimestamp, CqlDuration, Counter,
        NaiveDate, NaiveTime, DateTimeUtc, TDate, TTime, TOdt,
        CqlVarint, BigInt03, BigInt04, CqlDecimal, BigDecimal04,
    );
    push_emptiable!(v;
        i8, i16, i32, i64, f32, f64, bool,
        IpAddr, Uuid, CqlTimeuuid,
        CqlDate, CqlTime, CqlTimestamp,
        NaiveDate, NaiveTime, DateTimeUtc, TDate, TTime, TOdt,
        CqlVarint, BigInt03, BigInt04, CqlDecimal, BigDecimal04,
    );
    v.push(run_ref_str as Runner);
    v.push(run_ref_bytes as Runner);
    v.push(run_varint_borrowed as Runner);
    v.push(run_decimal_borrowed as Runner);
    v.push(run_u8_array as Runner);

    // list / set / vector of natives (and of dynamic values, which also covers null elements
    // inside arbitrarily nested element types)
    push_seqs!(v;
        CqlValue,
        i8, i16, i32, i64, f32, f64, bool,
        String, Vec<u8>, Bytes,
        IpAddr, Uuid, CqlTimeuuid,
        CqlDate, CqlTime, CqlTimestamp, CqlDuration, Counter,
        NaiveDate, NaiveTime, DateTimeUtc, TDate, TTime, TOdt,
        CqlVarint, BigInt03, BigInt04, CqlDecimal, BigDecimal04,
    );
    push_full!(v; Vec<MaybeEmpty<i32>>, Vec<Box<i32>>, Vec<Arc<String>>);
    push_sets!(v;
        i8, i16, i32, i64, bool, String, Vec<u8>,
        IpAddr, Uuid, CqlTimeuuid, CqlTimestamp, BigInt04, NaiveDate,
    );

    // maps
    push_maps!(v;
        [i32, i64, String, Uuid];
        [i32, i64, String, bool, f64, Vec<u8>, Uuid, CqlValue, OC, Option<i32>, Option<String>,
         Vec<i32>, Vec<String>, Vec<CqlValue>, Vec<OC>]
    );

    // Rust tuples
    push_full!(v;
        (OC,), (OC, OC), (OC, OC, OC), (OC, OC, OC, OC),
        (CqlValue,), (CqlValue, CqlValue), (CqlValue, CqlValue, CqlValue),
        (Option<i32>,), (Option<String>,),
        (i32, String), (String, i32), (i32, i32),
        (Option<i32>, Option<String>), (Option<String>, Option<i32>), (Option<i32>, Option<i32>),
        (Option<i64>, Option<String>), (Option<String>, Option<String>),
        (Option<i32>, Option<String>, Option<bool>),
        (Option<i64>, Option<String>, Option<f64>),
        (Option<i32>, Option<i32>, Option<i32>),
        (Option<i32>, Option<String>, Option<f64>, Option<Vec<u8>>),
        (Option<i32>, Option<i32>, Option<i32>, Option<i32>),
    );

    // depth 2
    push_seqs!(v;
        Vec<i32>, Vec<i64>, Vec<String>, Vec<f32>, Vec<CqlValue>, Vec<OC>,
        (i32, String), (String, i32), (i32, i32), (OC, OC), (OC, OC, OC),
        HashMap<String, i32>, BTreeMap<i32, String>, HashSet<i32>, BTreeSet<String>,
    );
    push_full!(v;
        HashSet<Vec<i32>>, BTreeSet<Vec<i32>>, BTreeSet<(i32, String)>,
        Option<Vec<i32>>, Option<Vec<Option<i32>>>, Option<HashMap<String, i32>>,
        Option<(Option<i32>, Option<String>)>,
    );
    v.push(run_ser::<MaybeUnset<Vec<i32>>> as Runner);

    v
}
