//! The FIXED family of structs for `vh-cql c16` (derive macros). See FORMAT.md.
//!
//! Which derive accepts which `#[scylla(..)]` attribute (from /repo/scylla-macros/src):
//!
//! | attribute                  | SerializeValue | DeserializeValue | SerializeRow | DeserializeRow |
//! |----------------------------|----------------|------------------|--------------|----------------|
//! | crate, flavor, skip_name_checks (struct) | yes | yes            | yes          | yes            |
//! | forbid_excess_udt_fields (struct)        | yes | yes            | NO           | NO             |
//! | rename, skip (field)       | yes            | yes              | yes          | yes            |
//! | default_when_null (field)  | yes (ignored)  | yes              | yes (ignored)| yes            |
//! | allow_missing (field)      | yes            | yes              | NO           | NO             |
//! | flatten (field)            | NO             | NO               | yes          | NO             |
//!
//! All four derives share the single `scylla` attribute namespace and reject unknown keys
//! (darling), so an attribute that one derive does not know cannot be put on a struct that
//! also carries that derive. Where that happens the family member is declared as two (or
//! three) Rust structs with the same fields; the external name `s` stays as in the table and
//! `c16.rs` maps each of the four roles (udt ser / udt de / row ser / row de) to a struct.
//!
//! Every struct derives `Debug, PartialEq, Default, Clone`.

use scylla_cql::{DeserializeRow, DeserializeValue, SerializeRow, SerializeValue};
use scylla_cql_core::value::CqlValue;
use serde_json::{Value, json};
use std::collections::BTreeMap;

use crate::abs::{T, V, from_cql, to_cql};

// ---------------------------------------------------------------------------
// abstract V  <->  Rust field values (through abs::to_cql / abs::from_cql)
// ---------------------------------------------------------------------------

/// A Rust field type that can be built from / reported as an abstract `V`.
pub trait FieldAbs: Sized {
    fn from_v(v: &V) -> Option<Self>;
    fn to_v(&self) -> V;
}

fn native(n: &str) -> T {
    T::Native(n.to_string())
}

impl FieldAbs for i32 {
    fn from_v(v: &V) -> Option<Self> {
        match to_cql(&native("int"), v)? {
            CqlValue::Int(x) => Some(x),
            _ => None,
        }
    }
    fn to_v(&self) -> V {
        from_cql(&CqlValue::Int(*self))
    }
}

impl FieldAbs for i64 {
    fn from_v(v: &V) -> Option<Self> {
        match to_cql(&native("bigint"), v)? {
            CqlValue::BigInt(x) => Some(x),
            _ => None,
        }
    }
    fn to_v(&self) -> V {
        from_cql(&CqlValue::BigInt(*self))
    }
}

impl FieldAbs for bool {
    fn from_v(v: &V) -> Option<Self> {
        match to_cql(&native("boolean"), v)? {
            CqlValue::Boolean(x) => Some(x),
            _ => None,
        }
    }
    fn to_v(&self) -> V {
        from_cql(&CqlValue::Boolean(*self))
    }
}

impl FieldAbs for String {
    fn from_v(v: &V) -> Option<Self> {
        match to_cql(&native("text"), v)? {
            CqlValue::Text(x) => Some(x),
            _ => None,
        }
    }
    fn to_v(&self) -> V {
        from_cql(&CqlValue::Text(self.clone()))
    }
}

impl<X: FieldAbs> FieldAbs for Option<X> {
    fn from_v(v: &V) -> Option<Self> {
        match v {
            V::Null => Some(None),
            other => X::from_v(other).map(Some),
        }
    }
    fn to_v(&self) -> V {
        match self {
            None => V::Null,
            Some(x) => x.to_v(),
        }
    }
}

pub type Vals = BTreeMap<String, V>;

pub fn field<X: FieldAbs>(vals: &Vals, name: &str) -> Result<X, String> {
    let v = vals.get(name).ok_or_else(|| format!("vals has no field {name:?}"))?;
    X::from_v(v).ok_or_else(|| {
        format!(
            "vals.{name} = {} does not fit Rust type {}",
            v.to_json(),
            std::any::type_name::<X>()
        )
    })
}

/// A member of the family seen as its four logical fields a, b, c, d.
pub trait Abs4: Sized {
    /// Builds the struct from `vals` (keys are the RUST field names a, b, c, d).
    fn build(vals: &Vals) -> Result<Self, String>;
    /// `{"a":V,"b":V,"c":V,"d":V}` of the struct as it is.
    fn report(&self) -> Value;
}

macro_rules! impl_abs4 {
    ($($t:ty),* $(,)?) => {$(
        impl Abs4 for $t {
            fn build(vals: &Vals) -> Result<Self, String> {
                Ok(Self {
                    a: field(vals, "a")?,
                    b: field(vals, "b")?,
                    c: field(vals, "c")?,
                    d: field(vals, "d")?,
                })
            }
            fn report(&self) -> Value {
                json!({
                    "a": self.a.to_v().to_json(),
                    "b": self.b.to_v().to_json(),
                    "c": self.c.to_v().to_json(),
                    "d": self.d.to_v().to_json(),
                })
            }
        }
    )*};
}

// ---------------------------------------------------------------------------
// the family
// ---------------------------------------------------------------------------

/// `Plain`: default flavor (match_by_name). All four derives.
#[derive(
    SerializeValue, DeserializeValue, SerializeRow, DeserializeRow, Debug, PartialEq, Default, Clone,
)]
#[scylla(crate = scylla_cql)]
pub struct Plain {
    pub a: i32,
    pub b: String,
    pub c: i64,
    pub d: bool,
}

/// `Same`: default flavor, all fields `i32`. All four derives.
#[derive(
    SerializeValue, DeserializeValue, SerializeRow, DeserializeRow, Debug, PartialEq, Default, Clone,
)]
#[scylla(crate = scylla_cql)]
pub struct Same {
    pub a: i32,
    pub b: i32,
    pub c: i32,
    pub d: i32,
}

/// `Opt`: default flavor, all fields optional. All four derives.
#[derive(
    SerializeValue, DeserializeValue, SerializeRow, DeserializeRow, Debug, PartialEq, Default, Clone,
)]
#[scylla(crate = scylla_cql)]
pub struct Opt {
    pub a: Option<i32>,
    pub b: Option<String>,
    pub c: Option<i64>,
    pub d: Option<bool>,
}

/// `Renamed`: default flavor, b -> "bb", d -> "a2". All four derives.
#[derive(
    SerializeValue, DeserializeValue, SerializeRow, DeserializeRow, Debug, PartialEq, Default, Clone,
)]
#[scylla(crate = scylla_cql)]
pub struct Renamed {
    pub a: i32,
    #[scylla(rename = "bb")]
    pub b: String,
    pub c: i64,
    #[scylla(rename = "a2")]
    pub d: bool,
}

/// `Skip`: default flavor, c skipped. All four derives.
#[derive(
    SerializeValue, DeserializeValue, SerializeRow, DeserializeRow, Debug, PartialEq, Default, Clone,
)]
#[scylla(crate = scylla_cql)]
pub struct Skip {
    pub a: i32,
    pub b: String,
    #[scylla(skip)]
    pub c: i64,
    pub d: bool,
}

/// `Ordered`: enforce_order. All four derives.
#[derive(
    SerializeValue, DeserializeValue, SerializeRow, DeserializeRow, Debug, PartialEq, Default, Clone,
)]
#[scylla(crate = scylla_cql, flavor = "enforce_order")]
pub struct Ordered {
    pub a: i32,
    pub b: String,
    pub c: i64,
    pub d: bool,
}

/// `OrderedSame`: enforce_order, all fields `i32`. All four derives.
#[derive(
    SerializeValue, DeserializeValue, SerializeRow, DeserializeRow, Debug, PartialEq, Default, Clone,
)]
#[scylla(crate = scylla_cql, flavor = "enforce_order")]
pub struct OrderedSame {
    pub a: i32,
    pub b: i32,
    pub c: i32,
    pub d: i32,
}

/// `OrderedNoNames`: enforce_order + skip_name_checks, all fields `i32`. All four derives.
#[derive(
    SerializeValue, DeserializeValue, SerializeRow, DeserializeRow, Debug, PartialEq, Default, Clone,
)]
#[scylla(crate = scylla_cql, flavor = "enforce_order", skip_name_checks)]
pub struct OrderedNoNames {
    pub a: i32,
    pub b: i32,
    pub c: i32,
    pub d: i32,
}

/// `Forbid`, UDT side: default flavor + forbid_excess_udt_fields.
#[derive(SerializeValue, DeserializeValue, Debug, PartialEq, Default, Clone)]
#[scylla(crate = scylla_cql, forbid_excess_udt_fields)]
pub struct ForbidUdt {
    pub a: i32,
    pub b: String,
    pub c: i64,
    pub d: bool,
}

/// `Forbid`, row side: the row derives do not know `forbid_excess_udt_fields`; attribute omitted.
#[derive(SerializeRow, DeserializeRow, Debug, PartialEq, Default, Clone)]
#[scylla(crate = scylla_cql)]
pub struct ForbidRow {
    pub a: i32,
    pub b: String,
    pub c: i64,
    pub d: bool,
}

/// `OrderedForbid`, UDT side: enforce_order + forbid_excess_udt_fields.
#[derive(SerializeValue, DeserializeValue, Debug, PartialEq, Default, Clone)]
#[scylla(crate = scylla_cql, flavor = "enforce_order", forbid_excess_udt_fields)]
pub struct OrderedForbidUdt {
    pub a: i32,
    pub b: String,
    pub c: i64,
    pub d: bool,
}

/// `OrderedForbid`, row side: enforce_order only.
#[derive(SerializeRow, DeserializeRow, Debug, PartialEq, Default, Clone)]
#[scylla(crate = scylla_cql, flavor = "enforce_order")]
pub struct OrderedForbidRow {
    pub a: i32,
    pub b: String,
    pub c: i64,
    pub d: bool,
}

/// `AllowMissing`, DeserializeValue only: `d` has `allow_missing`.
#[derive(DeserializeValue, Debug, PartialEq, Default, Clone)]
#[scylla(crate = scylla_cql)]
pub struct AllowMissingDe {
    pub a: i32,
    pub b: String,
    pub c: i64,
    #[scylla(allow_missing)]
    pub d: bool,
}

/// `AllowMissing`, the other three roles: plain (SerializeValue would accept `allow_missing`
/// but FORMAT.md asks for a plain serialize side; the row derives reject the attribute).
#[derive(SerializeValue, SerializeRow, DeserializeRow, Debug, PartialEq, Default, Clone)]
#[scylla(crate = scylla_cql)]
pub struct AllowMissingPlain {
    pub a: i32,
    pub b: String,
    pub c: i64,
    pub d: bool,
}

/// `DefaultNull`: `b` has `default_when_null`. The serialize derives accept and ignore the
/// attribute, so all four derives sit on one struct.
#[derive(
    SerializeValue, DeserializeValue, SerializeRow, DeserializeRow, Debug, PartialEq, Default, Clone,
)]
#[scylla(crate = scylla_cql)]
pub struct DefaultNull {
    pub a: i32,
    #[scylla(default_when_null)]
    pub b: String,
    pub c: i64,
    pub d: bool,
}

/// Inner part of `Flat`.
#[derive(SerializeRow, DeserializeRow, Debug, PartialEq, Default, Clone)]
#[scylla(crate = scylla_cql)]
pub struct Inner {
    pub b: String,
    pub c: i64,
}

/// `Flat` (row side only): SerializeRow only, `DeserializeRow` has no `flatten`.
#[derive(SerializeRow, Debug, PartialEq, Default, Clone)]
#[scylla(crate = scylla_cql)]
pub struct Flat {
    pub a: i32,
    #[scylla(flatten)]
    pub inner: Inner,
    pub d: bool,
}

/// `OrderedAM` (UDT side only): enforce_order with `allow_missing` on a, b and d.
#[derive(SerializeValue, DeserializeValue, Debug, PartialEq, Default, Clone)]
#[scylla(crate = scylla_cql, flavor = "enforce_order")]
pub struct OrderedAMUdt {
    #[scylla(allow_missing)]
    pub a: i32,
    #[scylla(allow_missing)]
    pub b: String,
    pub c: i64,
    #[scylla(allow_missing)]
    pub d: bool,
}

/// `OrderedAMDN` (UDT side only): enforce_order; a and d `allow_missing` + `default_when_null` (reading), b optional, c
/// `allow_missing`. The serializing twin has no `default_when_null` (that derive does not know the attribute).
#[derive(DeserializeValue, Debug, PartialEq, Default, Clone)]
#[scylla(crate = scylla_cql, flavor = "enforce_order")]
pub struct OrderedAMDNDe {
    #[scylla(allow_missing, default_when_null)]
    pub a: i32,
    pub b: Option<String>,
    #[scylla(allow_missing)]
    pub c: i64,
    #[scylla(allow_missing, default_when_null)]
    pub d: bool,
}

#[derive(SerializeValue, Debug, PartialEq, Default, Clone)]
#[scylla(crate = scylla_cql, flavor = "enforce_order")]
pub struct OrderedAMDNSer {
    #[scylla(allow_missing)]
    pub a: i32,
    pub b: Option<String>,
    #[scylla(allow_missing)]
    pub c: i64,
    #[scylla(allow_missing)]
    pub d: bool,
}

/// `NameAM` (UDT side only): match_by_name with `allow_missing` on b and d, both directions.
#[derive(SerializeValue, DeserializeValue, Debug, PartialEq, Default, Clone)]
#[scylla(crate = scylla_cql)]
pub struct NameAMUdt {
    pub a: i32,
    #[scylla(allow_missing)]
    pub b: String,
    pub c: i64,
    #[scylla(allow_missing)]
    pub d: bool,
}

/// `OrderedRenamedSkip`: enforce_order + rename + skip. All four derives.
#[derive(
    SerializeValue, DeserializeValue, SerializeRow, DeserializeRow, Debug, PartialEq, Default, Clone,
)]
#[scylla(crate = scylla_cql, flavor = "enforce_order")]
pub struct OrderedRenamedSkip {
    pub a: i32,
    #[scylla(rename = "bb")]
    pub b: String,
    #[scylla(skip)]
    pub c: i64,
    pub d: bool,
}

/// `Flat2` (row serialization only): two levels of `flatten`.
#[derive(SerializeRow, Debug, PartialEq, Default, Clone)]
#[scylla(crate = scylla_cql)]
pub struct Inn2 {
    pub c: i64,
}
#[derive(SerializeRow, Debug, PartialEq, Default, Clone)]
#[scylla(crate = scylla_cql)]
pub struct Mid2 {
    #[scylla(flatten)]
    pub inn: Inn2,
    pub b: String,
}
#[derive(SerializeRow, Debug, PartialEq, Default, Clone)]
#[scylla(crate = scylla_cql)]
pub struct Flat2 {
    #[scylla(flatten)]
    pub mid: Mid2,
    pub a: i32,
    pub d: bool,
}

impl Abs4 for Flat2 {
    fn build(vals: &Vals) -> Result<Self, String> {
        Ok(Flat2 {
            mid: Mid2 { inn: Inn2 { c: field(vals, "c")? }, b: field(vals, "b")? },
            a: field(vals, "a")?,
            d: field(vals, "d")?,
        })
    }
    fn report(&self) -> Value {
        json!({
            "a": self.a.to_v().to_json(),
            "b": self.mid.b.to_v().to_json(),
            "c": self.mid.inn.c.to_v().to_json(),
            "d": self.d.to_v().to_json(),
        })
    }
}

impl_abs4!(
    OrderedAMDNDe,
    OrderedAMDNSer,
    OrderedAMUdt,
    NameAMUdt,
    OrderedRenamedSkip,
    Plain,
    Same,
    Opt,
    Renamed,
    Skip,
    Ordered,
    OrderedSame,
    OrderedNoNames,
    ForbidUdt,
    ForbidRow,
    OrderedForbidUdt,
    OrderedForbidRow,
    AllowMissingDe,
    AllowMissingPlain,
    DefaultNull,
);

impl Abs4 for Flat {
    fn build(vals: &Vals) -> Result<Self, String> {
        Ok(Flat {
            a: field(vals, "a")?,
            inner: Inner { b: field(vals, "b")?, c: field(vals, "c")? },
            d: field(vals, "d")?,
        })
    }
    fn report(&self) -> Value {
        json!({
            "a": self.a.to_v().to_json(),
            "b": self.inner.b.to_v().to_json(),
            "c": self.inner.c.to_v().to_json(),
            "d": self.d.to_v().to_json(),
        })
    }
}
