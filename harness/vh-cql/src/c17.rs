//! `vh-cql c17-matrix` and `vh-cql c17-rollback`. See FORMAT.md.

use std::collections::{BTreeMap, BTreeSet, HashMap, HashSet};
use std::io::Write;
use std::net::{IpAddr, Ipv4Addr};
use std::panic::{AssertUnwindSafe, catch_unwind};
use std::sync::Arc;

use scylla_cql_core::deserialize::TypeCheckError;
use scylla_cql_core::deserialize::value::DeserializeValue;
use scylla_cql_core::frame::response::result::{ColumnType, NativeType};
use scylla_cql_core::frame::types::RawValue;
use scylla_cql_core::serialize::row::SerializedValues;
use scylla_cql_core::serialize::value::SerializeValue;
use scylla_cql_core::serialize::writers::WrittenCellProof;
use scylla_cql_core::serialize::{CellWriter, SerializationError};
use scylla_cql_core::value::{
    Counter, CqlDate, CqlDecimal, CqlDuration, CqlTime, CqlTimestamp, CqlTimeuuid, CqlValue,
    CqlVarint, MaybeEmpty, MaybeUnset,
};
use serde_json::{Value, json};
use uuid::Uuid;

use crate::abs::{self, T, V, bytes_to_json};
use crate::carriers::raw_buffer;
use crate::{json_lines, open_io, write_record};

// ===========================================================================
// c17-matrix
// ===========================================================================

type SerFn = Box<dyn Fn(&T, &ColumnType<'static>, &mut Vec<u8>) -> Result<(), SerializationError>>;
type TcFn = fn(&ColumnType<'_>) -> Result<(), TypeCheckError>;

struct Family {
    name: &'static str,
    ser: SerFn,
    tc: Option<TcFn>,
}

fn tc_of<X: for<'f, 'm> DeserializeValue<'f, 'm>>(ct: &ColumnType<'_>) -> Result<(), TypeCheckError> {
    <X as DeserializeValue<'_, '_>>::type_check(ct)
}

fn tc_ref_str(ct: &ColumnType<'_>) -> Result<(), TypeCheckError> {
    <&str as DeserializeValue<'_, '_>>::type_check(ct)
}

/// Family whose sample does not depend on the column type.
fn fam<X: SerializeValue + 'static>(name: &'static str, sample: X, tc: Option<TcFn>) -> Family {
    Family {
        name,
        ser: Box::new(move |_t, ct, buf| sample.serialize(ct, CellWriter::new(buf)).map(|_| ())),
        tc,
    }
}

/// Family whose sample is built per column type (sequence carriers get as many elements
/// as a vector type has dimensions, so that vector columns are not rejected merely for
/// the element count; for every other type they hold one element).
fn fam_dyn<X: SerializeValue + 'static>(
    name: &'static str,
    mk: fn(&T) -> X,
    tc: Option<TcFn>,
) -> Family {
    Family {
        name,
        ser: Box::new(move |t, ct, buf| mk(t).serialize(ct, CellWriter::new(buf)).map(|_| ())),
        tc,
    }
}

fn outer_dim(t: &T) -> usize {
    match t {
        T::Vector(_, d) => *d as usize,
        _ => 1,
    }
}
fn inner_dim(t: &T) -> usize {
    match t {
        T::Vector(e, _) | T::List(e) | T::Set(e) => outer_dim(e),
        _ => 1,
    }
}

fn families() -> Vec<Family> {
    let s = || "a".to_string();
    vec![
        fam("i8", 1i8, Some(tc_of::<i8>)),
        fam("i16", 1i16, Some(tc_of::<i16>)),
        fam("i32", 1i32, Some(tc_of::<i32>)),
        fam("i64", 1i64, Some(tc_of::<i64>)),
        fam("f32", 1.0f32, Some(tc_of::<f32>)),
        fam("f64", 1.0f64, Some(tc_of::<f64>)),
        fam("bool", true, Some(tc_of::<bool>)),
        fam("String", s(), Some(tc_of::<String>)),
        fam::<&'static str>("&str", "a", Some(tc_ref_str)),
        fam("Vec<u8>", vec![1u8], Some(tc_of::<Vec<u8>>)),
        fam("[u8;4]", [1u8, 2, 3, 4], None),
        fam("IpAddr", IpAddr::V4(Ipv4Addr::new(127, 0, 0, 1)), Some(tc_of::<IpAddr>)),
        fam("Uuid", Uuid::from_bytes([1; 16]), Some(tc_of::<Uuid>)),
        fam("CqlTimeuuid", CqlTimeuuid::from_bytes([1; 16]), Some(tc_of::<CqlTimeuuid>)),
        fam("CqlDate", CqlDate(1 << 31), Some(tc_of::<CqlDate>)),
        fam("CqlTime", CqlTime(1), Some(tc_of::<CqlTime>)),
        fam("CqlTimestamp", CqlTimestamp(1), Some(tc_of::<CqlTimestamp>)),
        fam(
            "CqlDuration",
            CqlDuration { months: 1, days: 1, nanoseconds: 1 },
            Some(tc_of::<CqlDuration>),
        ),
        fam("Counter", Counter(1), Some(tc_of::<Counter>)),
        fam("CqlVarint", CqlVarint::from_signed_bytes_be(vec![1]), Some(tc_of::<CqlVarint>)),
        fam("BigInt04", num_bigint_04::BigInt::from(1), Some(tc_of::<num_bigint_04::BigInt>)),
        fam(
            "CqlDecimal",
            CqlDecimal::from_signed_be_bytes_and_exponent(vec![1], 0),
            Some(tc_of::<CqlDecimal>),
        ),
        fam(
            "BigDecimal04",
            bigdecimal_04::BigDecimal::new(num_bigint_04::BigInt::from(1), 0),
            Some(tc_of::<bigdecimal_04::BigDecimal>),
        ),
        fam(
            "NaiveDate",
            chrono_04::NaiveDate::from_ymd_opt(1970, 1, 2).unwrap(),
            Some(tc_of::<chrono_04::NaiveDate>),
        ),
        fam(
            "NaiveTime",
            chrono_04::NaiveTime::from_hms_opt(0, 0, 1).unwrap(),
            Some(tc_of::<chrono_04::NaiveTime>),
        ),
        fam(
            "DateTimeUtc",
            chrono_04::DateTime::from_timestamp_millis(1).unwrap(),
            Some(tc_of::<chrono_04::DateTime<chrono_04::Utc>>),
        ),
        fam(
            "time::Date",
            time_03::Date::from_julian_day(2_440_589).unwrap(),
            Some(tc_of::<time_03::Date>),
        ),
        fam(
            "time::Time",
            time_03::Time::from_hms(0, 0, 1).unwrap(),
            Some(tc_of::<time_03::Time>),
        ),
        fam(
            "OffsetDateTime",
            time_03::OffsetDateTime::from_unix_timestamp_nanos(1_000_000).unwrap(),
            Some(tc_of::<time_03::OffsetDateTime>),
        ),
        fam("Option<i32>", Some(1i32), Some(tc_of::<Option<i32>>)),
        fam_dyn("Vec<i32>", |t| vec![1i32; outer_dim(t)], Some(tc_of::<Vec<i32>>)),
        fam_dyn("Vec<String>", |t| vec!["a".to_string(); outer_dim(t)], Some(tc_of::<Vec<String>>)),
        fam("HashSet<i32>", HashSet::from([1i32]), Some(tc_of::<HashSet<i32>>)),
        fam("BTreeSet<String>", BTreeSet::from([s()]), Some(tc_of::<BTreeSet<String>>)),
        fam("HashMap<String,i32>", HashMap::from([(s(), 1i32)]), Some(tc_of::<HashMap<String, i32>>)),
        // the same carriers holding no element
        fam("empty:HashSet<i32>", HashSet::<i32>::new(), Some(tc_of::<HashSet<i32>>)),
        fam("empty:BTreeSet<String>", BTreeSet::<String>::new(), Some(tc_of::<BTreeSet<String>>)),
        fam("empty:Vec<i32>", Vec::<i32>::new(), Some(tc_of::<Vec<i32>>)),
        fam("empty:HashMap<String,i32>", HashMap::<String, i32>::new(), Some(tc_of::<HashMap<String, i32>>)),
        fam("empty:BTreeMap<i32,String>", BTreeMap::<i32, String>::new(), Some(tc_of::<BTreeMap<i32, String>>)),
        fam("BTreeMap<i32,String>", BTreeMap::from([(1i32, s())]), Some(tc_of::<BTreeMap<i32, String>>)),
        fam("(i32,String)", (1i32, s()), Some(tc_of::<(i32, String)>)),
        fam("(i32,)", (1i32,), Some(tc_of::<(i32,)>)),
        fam_dyn(
            "Vec<Vec<i32>>",
            |t| vec![vec![1i32; inner_dim(t)]; outer_dim(t)],
            Some(tc_of::<Vec<Vec<i32>>>),
        ),
        fam_dyn(
            "Vec<(i32,String)>",
            |t| vec![(1i32, "a".to_string()); outer_dim(t)],
            Some(tc_of::<Vec<(i32, String)>>),
        ),
        fam(
            "HashMap<String,Vec<i32>>",
            HashMap::from([(s(), vec![1i32])]),
            Some(tc_of::<HashMap<String, Vec<i32>>>),
        ),
        fam("Box<i32>", Box::new(1i32), Some(tc_of::<Box<i32>>)),
        fam("Arc<String>", Arc::new(s()), Some(tc_of::<Arc<String>>)),
        fam("MaybeUnset<i32>", MaybeUnset::Set(1i32), None),
        fam("MaybeEmpty<i32>", MaybeEmpty::Value(1i32), Some(tc_of::<MaybeEmpty<i32>>)),
        fam("CqlValue::Int", CqlValue::Int(1), Some(tc_of::<CqlValue>)),
        fam("CqlValue::Text", CqlValue::Text(s()), Some(tc_of::<CqlValue>)),
        // dynamic UDT values with different field sets (a: int, b: text, x: int)
        fam("CqlValue::Udt{a,b}", udt_val(&["a", "b"]), Some(tc_of::<CqlValue>)),
        fam("CqlValue::Udt{b,a}", udt_val(&["b", "a"]), Some(tc_of::<CqlValue>)),
        fam("CqlValue::Udt{a}", udt_val(&["a"]), Some(tc_of::<CqlValue>)),
        fam("CqlValue::Udt{a,x}", udt_val(&["a", "x"]), Some(tc_of::<CqlValue>)),
        fam("CqlValue::Udt{a,b,x}", udt_val(&["a", "b", "x"]), Some(tc_of::<CqlValue>)),
        fam("Vec<CqlValue::Udt{a,x}>", vec![udt_val(&["a", "x"])], Some(tc_of::<Vec<CqlValue>>)),
    ]
}

/// A dynamic UDT value ks.u with the given fields: a = 1 (int), b = "a" (text), anything else = 7 (int).
fn udt_val(names: &[&str]) -> CqlValue {
    CqlValue::UserDefinedType {
        keyspace: abs::UDT_KEYSPACE.to_string(),
        name: abs::UDT_NAME.to_string(),
        fields: names
            .iter()
            .map(|n| {
                let v = match *n {
                    "a" => CqlValue::Int(1),
                    "b" => CqlValue::Text("a".to_string()),
                    _ => CqlValue::Int(7),
                };
                (n.to_string(), Some(v))
            })
            .collect(),
    }
}

const PREFILL: &[u8] = &[0xAB, 0xAB, 0xAB, 0xAB, 0xAB];

pub fn cmd_matrix(args: &[String]) -> i32 {
    let (input, mut output) = match open_io("c17-matrix", args) {
        Ok(x) => x,
        Err(rc) => return rc,
    };
    let fams = families();
    let mut bad = 0u64;
    let mut bad_json = 0u64;
    let (mut types, mut records, mut ser_panics, mut tc_panics) = (0u64, 0u64, 0u64, 0u64);
    let mut io_failed = false;

    'lines: for (lineno, j) in json_lines(input, &mut bad_json) {
        let t = match j.get("t").ok_or_else(|| "missing t".to_string()).and_then(T::from_json) {
            Ok(t) => t,
            Err(e) => {
                eprintln!("line {}: {e}", lineno + 1);
                bad += 1;
                continue;
            }
        };
        types += 1;
        let ct = t.to_column_type();
        for f in &fams {
            let mut buf = PREFILL.to_vec();
            let res = catch_unwind(AssertUnwindSafe(|| (f.ser)(&t, &ct, &mut buf)));
            let (ser_ok, ser_panic) = match &res {
                Ok(Ok(())) => (1, 0),
                Ok(Err(_)) => (0, 0),
                Err(_) => (0, 1),
            };
            ser_panics += ser_panic as u64;
            let ser_left: i64 = if ser_ok == 1 { 0 } else { buf.len() as i64 - PREFILL.len() as i64 };
            let tc_ok: i64 = match f.tc {
                None => -1,
                Some(tc) => match catch_unwind(AssertUnwindSafe(|| tc(&ct))) {
                    Ok(Ok(())) => 1,
                    Ok(Err(_)) => 0,
                    Err(_) => {
                        tc_panics += 1;
                        eprintln!("type_check of {} PANICKED on {}: {}", f.name, j["t"], crate::last_panic());
                        0
                    }
                },
            };
            let rec = json!({
                "t": j["t"],
                "carrier": f.name,
                "ser_ok": ser_ok,
                "ser_left": ser_left,
                "tc_ok": tc_ok,
                "ser_panic": ser_panic,
            });
            records += 1;
            if let Err(e) = write_record(&mut output, &rec) {
                eprintln!("write error: {e}");
                io_failed = true;
                break 'lines;
            }
        }
    }
    if let Err(e) = output.flush() {
        eprintln!("flush error: {e}");
        io_failed = true;
    }
    bad += bad_json;
    println!(
        "{}",
        json!({
            "cmd": "c17-matrix",
            "types": types,
            "bad_lines": bad,
            "families": fams.len(),
            "records": records,
            "ser_panics": ser_panics,
            "tc_panics": tc_panics,
        })
    );
    if io_failed || bad > 0 { 1 } else { 0 }
}

// ===========================================================================
// c17-rollback
// ===========================================================================

#[derive(Debug)]
struct FailAfterThreeBytes;
impl std::fmt::Display for FailAfterThreeBytes {
    fn fmt(&self, f: &mut std::fmt::Formatter<'_>) -> std::fmt::Result {
        f.write_str("vh-cql: simulated failure after writing 3 bytes")
    }
}
impl std::error::Error for FailAfterThreeBytes {}

/// A value whose serialization writes a (poisoned) length prefix plus 3 body bytes and then fails.
struct WritesThenFails;
impl SerializeValue for WritesThenFails {
    fn serialize<'b>(
        &self,
        _typ: &ColumnType,
        writer: CellWriter<'b>,
    ) -> Result<WrittenCellProof<'b>, SerializationError> {
        let mut builder = writer.into_value_builder();
        builder.append_bytes(&[1, 2, 3]);
        Err(SerializationError::new(FailAfterThreeBytes))
    }
}

/// Upper bound on add_value calls for `toomany` (u16::MAX would be reached long before).
const TOOMANY_CAP: u32 = 70_000;

fn encode_raw(rv: &RawValue<'_>) -> Vec<u8> {
    match rv {
        RawValue::Null => vec![255, 255, 255, 255],
        RawValue::Unset => vec![255, 255, 255, 254],
        RawValue::Value(b) => {
            let mut n = b.len() as u64;
            let mut out = vec![0u8; 4];
            for i in (0..4).rev() {
                out[i] = (n % 256) as u8;
                n /= 256;
            }
            out.extend_from_slice(b);
            out
        }
    }
}

struct OpOutcome {
    ok: i64,
    accepted: Option<u64>,
}

fn run_op(sv: &mut SerializedValues, op: &Value) -> Result<OpOutcome, String> {
    let kind = op.get("op").and_then(Value::as_str).ok_or("op without \"op\"")?;
    let t_of = || -> Result<T, String> { T::from_json(op.get("t").ok_or("op without t")?) };
    let done = |r: Result<(), SerializationError>| OpOutcome { ok: r.is_ok() as i64, accepted: None };
    match kind {
        "add" => {
            let t = t_of()?;
            let v = V::from_json(op.get("v").ok_or("add without v")?)?;
            let ct = t.to_column_type();
            Ok(match &v {
                V::Null => done(sv.add_value(&None::<CqlValue>, &ct)),
                V::Unset => done(sv.add_value(&MaybeUnset::<CqlValue>::Unset, &ct)),
                _ => {
                    let c = abs::to_cql(&t, &v)
                        .ok_or_else(|| format!("add: CqlValue cannot represent {} / {}", op["t"], op["v"]))?;
                    done(sv.add_value(&c, &ct))
                }
            })
        }
        "mismatch" => {
            let t = t_of()?;
            let ct = t.to_column_type();
            Ok(if matches!(ct, ColumnType::Native(NativeType::Int)) {
                done(sv.add_value(&"x".to_string(), &ct))
            } else {
                done(sv.add_value(&1i32, &ct))
            })
        }
        "nested_fail" => {
            let t = t_of()?;
            let e = match &t {
                T::List(e) | T::Set(e) => e,
                _ => return Err(format!("nested_fail needs a list type, got {}", op["t"])),
            };
            let wrong = if e.native() == Some("int") {
                CqlValue::Text("x".to_string())
            } else {
                CqlValue::Int(1)
            };
            let val: Vec<CqlValue> = vec![abs::sample_cql(e), wrong, abs::sample_cql(e)];
            Ok(done(sv.add_value(&val, &t.to_column_type())))
        }
        // a value whose refusal comes late: a dynamic UDT value {a, x} bound to a UDT column (a int, b text) is found to
        // have an unknown field only after the cell for `a` (and the null for `b`) were written
        "late_typeck" => {
            let t = T::Udt(vec![("a".to_string(), T::Native("int".to_string())), ("b".to_string(), T::Native("text".to_string()))]);
            Ok(done(sv.add_value(&udt_val(&["a", "x"]), &t.to_column_type())))
        }
        "toolarge" => Ok(done(sv.add_value(&WritesThenFails, &ColumnType::Native(NativeType::Blob)))),
        "fill" => {
            let n = op.get("n").and_then(Value::as_u64).ok_or("fill without n")?;
            let ct = ColumnType::Native(NativeType::Int);
            let mut accepted = 0u64;
            let mut ok = 1;
            for i in 0..n {
                if sv.add_value(&((i % 1000) as i32), &ct).is_err() {
                    ok = 0;
                    break;
                }
                accepted += 1;
            }
            Ok(OpOutcome { ok, accepted: Some(accepted) })
        }
        "toomany" => {
            let ct = ColumnType::Native(NativeType::Int);
            let mut accepted = 0u64;
            let mut ok = 1;
            for _ in 0..TOOMANY_CAP {
                if sv.add_value(&7i32, &ct).is_err() {
                    ok = 0; // the last add_value returned Err
                    break;
                }
                accepted += 1;
            }
            Ok(OpOutcome { ok, accepted: Some(accepted) })
        }
        other => Err(format!("unknown op {other:?}")),
    }
}

pub fn cmd_rollback(args: &[String]) -> i32 {
    let (input, mut output) = match open_io("c17-rollback", args) {
        Ok(x) => x,
        Err(rc) => return rc,
    };
    let mut bad = 0u64;
    let mut bad_json = 0u64;
    let (mut histories, mut records, mut panics, mut harness_errors) = (0u64, 0u64, 0u64, 0u64);
    let mut io_failed = false;

    'lines: for (lineno, j) in json_lines(input, &mut bad_json) {
        let Some(ops) = j.get("ops").and_then(Value::as_array) else {
            eprintln!("line {}: missing ops", lineno + 1);
            bad += 1;
            continue;
        };
        let h = histories;
        histories += 1;
        let mut sv = SerializedValues::new();
        for (i, op) in ops.iter().enumerate() {
            let op_name = op.get("op").and_then(Value::as_str).unwrap_or("?").to_string();
            // ok: 1/0 = what the real code returned; -1 = the harness could not perform the op;
            // -2 = the real code panicked.
            let (ok, accepted) = match catch_unwind(AssertUnwindSafe(|| run_op(&mut sv, op))) {
                Ok(Ok(o)) => (o.ok, o.accepted),
                Ok(Err(e)) => {
                    eprintln!("line {} op {i}: {e}", lineno + 1);
                    harness_errors += 1;
                    (-1, None)
                }
                Err(_) => {
                    eprintln!("line {} op {i}: PANIC: {}", lineno + 1, crate::last_panic());
                    panics += 1;
                    (-2, None)
                }
            };
            let count = sv.element_count();
            let raw = raw_buffer(&sv);
            let iterated: Option<Vec<Vec<u8>>> =
                catch_unwind(AssertUnwindSafe(|| sv.iter().map(|rv| encode_raw(&rv)).collect())).ok();
            let iter_count: i64 = match &iterated {
                Some(cells) => cells.len() as i64,
                None => {
                    panics += 1;
                    -1
                }
            };
            let mut rec = json!({
                "h": h,
                "i": i,
                "op": op_name,
                "ok": ok,
                "count": count,
                "iter_count": iter_count,
                "buf": bytes_to_json(&raw[..raw.len().min(64)]),
                "buf_len": raw.len(),
            });
            if count <= 8 {
                rec["cells"] = match &iterated {
                    Some(cells) => Value::Array(cells.iter().map(|c| bytes_to_json(c)).collect()),
                    None => Value::Null,
                };
            }
            if let Some(a) = accepted {
                rec["accepted"] = json!(a);
            }
            if op_name == "add" {
                rec["t"] = op.get("t").cloned().unwrap_or(Value::Null);
                rec["v"] = op.get("v").cloned().unwrap_or(Value::Null);
            }
            records += 1;
            if let Err(e) = write_record(&mut output, &rec) {
                eprintln!("write error: {e}");
                io_failed = true;
                break 'lines;
            }
        }
    }
    if let Err(e) = output.flush() {
        eprintln!("flush error: {e}");
        io_failed = true;
    }
    bad += bad_json;
    println!(
        "{}",
        json!({
            "cmd": "c17-rollback",
            "histories": histories,
            "bad_lines": bad,
            "records": records,
            "panics": panics,
            "harness_errors": harness_errors,
        })
    );
    if io_failed || bad > 0 || harness_errors > 0 { 1 } else { 0 }
}

// ===========================================================================
// c17-whole: whole-row binds at the value-count limit, vectors with a wrong number of elements, row tuples whose
// arity differs from the number of columns. `vh-cql c17-whole <ignored-in> <out.ndjson>`: a fixed case list.
// ===========================================================================

pub fn cmd_whole(args: &[String]) -> i32 {
    use scylla_cql_core::deserialize::row::DeserializeRow;
    use scylla_cql_core::frame::response::result::{ColumnSpec, TableSpec};
    use scylla_cql_core::serialize::row::RowSerializationContext;
    let Some(outp) = args.get(1) else {
        eprintln!("usage: vh-cql c17-whole <in (unused)> <out.ndjson>");
        return 2;
    };
    let mut out = match std::fs::File::create(outp) {
        Ok(f) => std::io::BufWriter::new(f),
        Err(e) => {
            eprintln!("create {outp}: {e}");
            return 2;
        }
    };
    let int = ColumnType::Native(NativeType::Int);
    let specs_of = |n: usize, ct: &ColumnType<'static>| -> Vec<ColumnSpec<'static>> {
        (0..n).map(|_| ColumnSpec::borrowed("c", ct.clone(), TableSpec::borrowed("ks", "t"))).collect()
    };
    let mut recs: Vec<Value> = Vec::new();
    // (a) a whole row bound at once (what sessions do with the caller's values)
    for n in [0usize, 1, 2, 65534, 65535, 65536, 65537, 70000, 131072] {
        let specs = specs_of(n, &int);
        let row: Vec<i32> = vec![7; n];
        let r = catch_unwind(AssertUnwindSafe(|| SerializedValues::from_serializable(&RowSerializationContext::from_specs(&specs), &row)));
        recs.push(match r {
            Ok(Ok(sv)) => json!({"kind":"row","n":n,"ok":1,"count":sv.element_count(),"cells":sv.iter().count(),"panic":0}),
            Ok(Err(_)) => json!({"kind":"row","n":n,"ok":0,"count":0,"cells":0,"panic":0}),
            Err(_) => json!({"kind":"row","n":n,"ok":0,"count":0,"cells":0,"panic":1}),
        });
    }
    // (b) a sequence bound to a vector column: only the declared number of elements fits
    for (elem, ect) in [("float", ColumnType::Native(NativeType::Float)), ("text", ColumnType::Native(NativeType::Text))] {
        for d in [1u16, 2, 3] {
            for len in [0usize, d as usize - 1, d as usize, d as usize + 1, d as usize + 65536, d as usize + 131072, 65536] {
                let ct = ColumnType::Vector { typ: Box::new(ect.clone()), dimensions: d };
                let mut sv = SerializedValues::new();
                let _ = sv.add_value(&1i32, &int);
                let before = (sv.element_count(), raw_buffer(&sv).len());
                let r = catch_unwind(AssertUnwindSafe(|| {
                    if elem == "float" {
                        sv.add_value(&vec![1.5f32; len], &ct).is_ok()
                    } else {
                        sv.add_value(&vec!["ab".to_string(); len], &ct).is_ok()
                    }
                }));
                let after = (sv.element_count(), raw_buffer(&sv).len());
                recs.push(json!({"kind":"vec","elem":elem,"d":d,"len":len,"ok":matches!(r, Ok(true)) as u8,"panic":r.is_err() as u8,
                                 "count_before":before.0,"buf_before":before.1,"count_after":after.0,"buf_after":after.1}));
            }
        }
    }
    // (c) a row read into a tuple: the arity must be the number of columns
    macro_rules! arity {
        ($a:expr, $t:ty) => {
            for k in 0usize..=5 {
                let specs = specs_of(k, &int);
                let r = catch_unwind(AssertUnwindSafe(|| <$t as DeserializeRow>::type_check(&specs).is_ok()));
                recs.push(json!({"kind":"rowtc","arity":$a,"cols":k,"ok":matches!(r, Ok(true)) as u8,"panic":r.is_err() as u8}));
            }
        };
    }
    arity!(0, ());
    arity!(1, (i32,));
    arity!(2, (i32, i32));
    arity!(3, (i32, i32, i32));
    arity!(4, (i32, i32, i32, i32));
    recs.extend(writer_sequences());
    for r in &recs {
        if writeln!(out, "{r}").is_err() {
            return 2;
        }
    }
    if out.flush().is_err() {
        return 2;
    }
    println!("{}", json!({"cmd":"c17-whole","records":recs.len()}));
    0
}

/// (d) of c17-whole: sequences on ONE RowWriter of cells written directly and already serialised rows appended: the count the
/// writer reports is the number of cells it holds. Records {"kind":"writer","steps":[k...] (0 = one cell, n > 0 = append a
/// row of n-1 values),"count":reported,"cells":expected number,"bytes_ok":0|1}
pub fn writer_sequences() -> Vec<Value> {
    use scylla_cql_core::serialize::writers::RowWriter;
    let int = ColumnType::Native(NativeType::Int);
    let mut out = Vec::new();
    let alphabet = [0usize, 1, 2, 3]; // 0: cell; k: append a row of k-1 values
    let mut seqs: Vec<Vec<usize>> = vec![vec![]];
    for _ in 0..3 {
        let mut next = Vec::new();
        for s in &seqs {
            for a in alphabet {
                let mut t = s.clone();
                t.push(a);
                next.push(t);
            }
        }
        out.extend(next.iter().cloned());
        seqs = next;
    }
    let all: Vec<Vec<usize>> = out.drain(..).collect();
    let mut recs = Vec::new();
    for steps in all {
        let r = catch_unwind(AssertUnwindSafe(|| {
            let mut buf = Vec::new();
            let mut expect_bytes: Vec<u8> = Vec::new();
            let mut cells = 0usize;
            let mut w = RowWriter::new(&mut buf);
            for st in &steps {
                if *st == 0 {
                    let _ = SerializeValue::serialize(&9i32, &int, w.make_cell_writer());
                    expect_bytes.extend_from_slice(&[0, 0, 0, 4, 0, 0, 0, 9]);
                    cells += 1;
                } else {
                    let mut sv = SerializedValues::new();
                    for k in 0..(*st - 1) {
                        let _ = sv.add_value(&(k as i32), &int);
                        expect_bytes.extend_from_slice(&[0, 0, 0, 4]);
                        expect_bytes.extend_from_slice(&(k as i32).to_be_bytes());
                    }
                    cells += *st - 1;
                    w.append_serialize_row(&sv);
                }
            }
            let count = w.value_count();
            (count, cells, buf == expect_bytes)
        }));
        recs.push(match r {
            Ok((count, cells, ok)) => json!({"kind":"writer","steps":steps,"count":count,"cells":cells,"bytes_ok":ok as u8,"panic":0}),
            Err(_) => json!({"kind":"writer","steps":steps,"count":0,"cells":0,"bytes_ok":0,"panic":1}),
        });
    }
    recs
}
