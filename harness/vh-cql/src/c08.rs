//! `vh-cql c08`, `vh-cql c08-worker`, `vh-cql c08-selftest`. See C08.md.
//!
//! Frame bytes go through the driver's response-decoding pipeline in a child process.
//! Nothing is judged and nothing is fixed up: bytes go in exactly as given and what the
//! driver returned is reported.
//!
//! Worker layout (one process):
//! * a "harness" thread with a 256 MiB stack reads input lines, converts driver results to
//!   JSON and writes the output (its recursion over deep types must never be what overflows);
//! * per input, a fresh "decode" thread with a **2 MiB** stack runs the whole pipeline once
//!   with nothing but driver calls in it (pass 1): this is where `peak` is measured, where
//!   the typed row targets are run, and where a stack overflow / allocation failure kills the
//!   process;
//! * the harness thread then runs the pipeline a second time (pass 2, not measured) and
//!   converts every stage's result to the abstract form.

use std::collections::{BTreeMap, BTreeSet, HashMap};
use std::fs::File;
use std::future::Future;
use std::io::{BufRead, BufReader, BufWriter, Read, Write};
use std::net::IpAddr;
use std::os::unix::process::ExitStatusExt;
use std::panic::{AssertUnwindSafe, catch_unwind};
use std::process::{Child, ChildStdin, Command, Stdio};
use std::sync::atomic::{AtomicBool, Ordering::Relaxed};
use std::sync::mpsc::{self, Receiver, RecvTimeoutError};
use std::sync::{Arc, Mutex};
use std::task::{Context, Poll, Waker};
use std::thread;
use std::time::{Duration, Instant};

use scylla_cql::deserialize::row::DeserializeRow;
use scylla_cql::frame::protocol_features::ProtocolFeatures;
use scylla_cql::frame::request::query::PagingStateResponse;
use scylla_cql::frame::response::error::{DbError, OperationType};
use scylla_cql::frame::response::event::{
    EventV2, SchemaChangeEvent, SchemaChangeType, StatusChangeEvent, TopologyChangeEvent,
};
use scylla_cql::frame::response::result::{
    CollectionType, ColumnSpec, ColumnType, DeserializedMetadataAndRawRows, NativeType, Prepared,
    ResultMetadata, ResultWithDeserializedMetadata, TableSpec, UserDefinedType,
};
use scylla_cql::frame::response::{ResponseOpcode, ResponseV2, ResponseWithDeserializedMetadataV2};
use scylla_cql::frame::{
    Compression, FrameParams, ResponseBodyWithExtensions, parse_response_body_extensions,
    read_response_frame,
};
use scylla_cql::value::{CqlDecimal, CqlDuration, CqlTimestamp, CqlVarint, Row};
use serde::Deserialize;
use serde_json::{Map, Value, json};

use crate::abs::{self, bytes_from_json_array, bytes_to_json};

const DECODE_STACK: usize = 2 << 20;
const HARNESS_STACK: usize = 256 << 20;
/// Per-input answer timeout; `VH_C08_TIMEOUT_SECS` overrides the default of 10 s (used to re-run inputs that timed out).
fn answer_timeout() -> Duration {
    Duration::from_secs(std::env::var("VH_C08_TIMEOUT_SECS").ok().and_then(|s| s.parse().ok()).unwrap_or(10))
}
const ERR_MAX_CHARS: usize = 200;
/// Rows beyond this many are still deserialized and counted but not written out.
const MAX_REPORTED_ROWS: usize = 100_000;
const STDERR_TAIL: usize = 16384;

// ===========================================================================
// small helpers
// ===========================================================================

fn trunc(s: &str) -> String {
    s.chars().take(ERR_MAX_CHARS).collect()
}

fn err_text(e: &dyn std::fmt::Display) -> String {
    trunc(&e.to_string())
}

/// STR: the UTF-8 bytes of a decoded string as an array of numbers.
fn jstr(s: &str) -> Value {
    bytes_to_json(s.as_bytes())
}

fn jstr_list(v: &[String]) -> Value {
    Value::Array(v.iter().map(|s| jstr(s)).collect())
}

fn b01(b: bool) -> Value {
    Value::from(if b { 1 } else { 0 })
}

fn bytes_or(b: Option<&[u8]>, absent: &str) -> Value {
    match b {
        Some(b) => bytes_to_json(b),
        None => Value::from(absent),
    }
}

/// Drives a future that can never be Pending for long (all I/O is on an in-memory slice).
fn block_on<F: Future>(f: F) -> F::Output {
    let mut f = std::pin::pin!(f);
    let waker = Waker::noop();
    let mut cx = Context::from_waker(waker);
    let mut polls = 0u64;
    loop {
        if let Poll::Ready(v) = f.as_mut().poll(&mut cx) {
            return v;
        }
        polls += 1;
        if polls > 1_000_000 {
            panic!("HARNESS: read_response_frame stayed Pending on an in-memory reader");
        }
    }
}

/// Runs `f`, turning a panic into `Err("PANIC: ...")` and remembering the first one.
fn guard<T>(first_panic: &mut Option<String>, f: impl FnOnce() -> T) -> Result<T, String> {
    match catch_unwind(AssertUnwindSafe(f)) {
        Ok(v) => Ok(v),
        Err(_) => {
            let msg = crate::last_panic();
            if first_panic.is_none() {
                *first_panic = Some(msg.clone());
            }
            Err(trunc(&format!("PANIC: {msg}")))
        }
    }
}

/// Set in a worker started with `VH_C08_TRACE=1` (the parent does that to find out in which
/// stage a crashed input dies): every stage of pass 1 then announces itself on fd 2 first.
static TRACE: AtomicBool = AtomicBool::new(false);

#[inline]
fn stage(name: &str) {
    if TRACE.load(Relaxed) {
        crate::alloc::raw_stderr(b"STAGE ");
        crate::alloc::raw_stderr(name.as_bytes());
        crate::alloc::raw_stderr(b"\n");
    }
}

// ===========================================================================
// input
// ===========================================================================

#[derive(Deserialize, Default)]
struct Feat {
    #[serde(default)]
    rate_limit_error: Option<i32>,
    #[serde(default)]
    lwt_mask: Option<u32>,
    #[serde(default)]
    tablets: u8,
    #[serde(default)]
    metadata_id: u8,
}

#[derive(Deserialize)]
struct Input {
    id: Value,
    frame: Vec<u8>,
    #[serde(default)]
    comp: Option<String>,
    #[serde(default)]
    feat: Feat,
    #[serde(default)]
    cached: Option<Vec<Value>>,
}

/// Only what the parent needs to describe an input whose child died.
#[derive(Deserialize)]
struct IdLen {
    id: Value,
    frame: Vec<u8>,
}

fn str_from_json(j: Option<&Value>, what: &str) -> Result<String, String> {
    let arr = j
        .and_then(Value::as_array)
        .ok_or_else(|| format!("{what}: STR (array of bytes) expected"))?;
    String::from_utf8(bytes_from_json_array(arr)?).map_err(|_| format!("{what}: not UTF-8"))
}

fn native_from_name(n: &str) -> Option<NativeType> {
    Some(match n {
        "ascii" => NativeType::Ascii,
        "bigint" => NativeType::BigInt,
        "blob" => NativeType::Blob,
        "boolean" => NativeType::Boolean,
        "counter" => NativeType::Counter,
        "date" => NativeType::Date,
        "decimal" => NativeType::Decimal,
        "double" => NativeType::Double,
        "duration" => NativeType::Duration,
        "float" => NativeType::Float,
        "inet" => NativeType::Inet,
        "int" => NativeType::Int,
        "smallint" => NativeType::SmallInt,
        "text" => NativeType::Text,
        "time" => NativeType::Time,
        "timestamp" => NativeType::Timestamp,
        "timeuuid" => NativeType::Timeuuid,
        "tinyint" => NativeType::TinyInt,
        "uuid" => NativeType::Uuid,
        "varint" => NativeType::Varint,
        _ => return None,
    })
}

fn native_name(n: &NativeType) -> Option<&'static str> {
    Some(match n {
        NativeType::Ascii => "ascii",
        NativeType::BigInt => "bigint",
        NativeType::Blob => "blob",
        NativeType::Boolean => "boolean",
        NativeType::Counter => "counter",
        NativeType::Date => "date",
        NativeType::Decimal => "decimal",
        NativeType::Double => "double",
        NativeType::Duration => "duration",
        NativeType::Float => "float",
        NativeType::Inet => "inet",
        NativeType::Int => "int",
        NativeType::SmallInt => "smallint",
        NativeType::Text => "text",
        NativeType::Time => "time",
        NativeType::Timestamp => "timestamp",
        NativeType::Timeuuid => "timeuuid",
        NativeType::TinyInt => "tinyint",
        NativeType::Uuid => "uuid",
        NativeType::Varint => "varint",
        // NativeType is #[non_exhaustive]
        _ => return None,
    })
}

/// T8 (input side, for `cached`) -> ColumnType.
fn t8_parse(j: &Value) -> Result<ColumnType<'static>, String> {
    let k = j.get("k").and_then(Value::as_str).ok_or_else(|| format!("T8: no k: {j}"))?;
    let sub = |name: &str| -> Result<Box<ColumnType<'static>>, String> {
        Ok(Box::new(t8_parse(j.get(name).ok_or_else(|| format!("T8: missing {name}"))?)?))
    };
    Ok(match k {
        "native" => {
            let n = j.get("n").and_then(Value::as_str).ok_or("T8: native without n")?;
            ColumnType::Native(native_from_name(n).ok_or_else(|| format!("T8: unknown native {n}"))?)
        }
        "list" => ColumnType::Collection { frozen: false, typ: CollectionType::List(sub("e")?) },
        "set" => ColumnType::Collection { frozen: false, typ: CollectionType::Set(sub("e")?) },
        "map" => ColumnType::Collection {
            frozen: false,
            typ: CollectionType::Map(sub("a")?, sub("b")?),
        },
        "tuple" => {
            let ts = j.get("ts").and_then(Value::as_array).ok_or("T8: tuple without ts")?;
            ColumnType::Tuple(ts.iter().map(t8_parse).collect::<Result<_, _>>()?)
        }
        "vector" => {
            let d = j.get("d").and_then(Value::as_u64).ok_or("T8: vector without d")?;
            ColumnType::Vector {
                typ: sub("e")?,
                dimensions: u16::try_from(d).map_err(|_| "T8: d out of range")?,
            }
        }
        "udt" => {
            let fs = j.get("fs").and_then(Value::as_array).ok_or("T8: udt without fs")?;
            let mut field_types = Vec::new();
            for f in fs {
                let n = str_from_json(f.get("n"), "T8 udt field n")?;
                let t = t8_parse(f.get("t").ok_or("T8: udt field without t")?)?;
                field_types.push((n.into(), t));
            }
            ColumnType::UserDefinedType {
                frozen: false,
                definition: Arc::new(UserDefinedType {
                    name: str_from_json(j.get("name"), "T8 udt name")?.into(),
                    keyspace: str_from_json(j.get("ks"), "T8 udt ks")?.into(),
                    field_types,
                }),
            }
        }
        other => return Err(format!("T8: unknown kind {other}")),
    })
}

fn col_parse(j: &Value) -> Result<ColumnSpec<'static>, String> {
    Ok(ColumnSpec::owned(
        str_from_json(j.get("name"), "COL name")?,
        t8_parse(j.get("t").ok_or("COL without t")?)?,
        TableSpec::owned(
            str_from_json(j.get("ks"), "COL ks")?,
            str_from_json(j.get("table"), "COL table")?,
        ),
    ))
}

/// Everything the pipeline needs, built once per input on the harness thread.
struct Prepared8 {
    frame: Vec<u8>,
    compression: Option<Compression>,
    features: ProtocolFeatures,
    cached: Option<Arc<ResultMetadata<'static>>>,
}

fn prepare(inp: Input) -> Result<(Value, Prepared8), String> {
    let compression = match inp.comp.as_deref() {
        None | Some("none") => None,
        Some("lz4") => Some(Compression::Lz4),
        Some("snappy") => Some(Compression::Snappy),
        Some(other) => return Err(format!("unknown comp {other:?}")),
    };
    // ProtocolFeatures is #[non_exhaustive]: start from Default and assign.
    let mut features = ProtocolFeatures::default();
    features.rate_limit_error = inp.feat.rate_limit_error;
    features.lwt_optimization_meta_bit_mask = inp.feat.lwt_mask;
    features.tablets_v1_supported = inp.feat.tablets != 0;
    features.scylla_metadata_id_supported = inp.feat.metadata_id != 0;
    let cached = match &inp.cached {
        None => None,
        Some(cols) => {
            let specs: Vec<ColumnSpec<'static>> =
                cols.iter().map(col_parse).collect::<Result<_, _>>()?;
            Some(Arc::new(ResultMetadata::new_for_test(specs.len(), specs)))
        }
    };
    Ok((inp.id, Prepared8 { frame: inp.frame, compression, features, cached }))
}

// ===========================================================================
// typed row targets
// ===========================================================================

/// `None` when `type_check(col_specs)` rejects the target; otherwise rows read and whether
/// the iteration reached the end without an error.
fn typed_run<'a, R: DeserializeRow<'a, 'a>>(
    rows: &'a DeserializedMetadataAndRawRows,
) -> Option<(usize, bool)> {
    let it = rows.rows_iter::<R>().ok()?;
    let mut n = 0usize;
    for r in it {
        match r {
            Ok(_) => n += 1,
            Err(_) => return Some((n, false)),
        }
    }
    Some((n, true))
}

macro_rules! typed_targets {
    ($( $name:literal => $ty:ty ),* $(,)?) => {
        const TARGET_NAMES: &[&str] = &[$($name),*];

        /// Runs every target on the calling thread; `out` gets (target index, rows read, ok).
        /// `out` must have capacity for all targets so that nothing is allocated here.
        fn run_typed_targets<'a>(
            rows: &'a DeserializedMetadataAndRawRows,
            out: &mut Vec<(usize, usize, bool)>,
            first_panic: &mut Option<String>,
        ) {
            let mut idx = 0usize;
            $(
                stage(concat!("typed:", $name));
                match catch_unwind(AssertUnwindSafe(|| typed_run::<$ty>(rows))) {
                    Ok(Some((n, ok))) => out.push((idx, n, ok)),
                    Ok(None) => {}
                    Err(_) => {
                        out.push((idx, 0, false));
                        if first_panic.is_none() {
                            *first_panic = Some(crate::last_panic());
                        }
                    }
                }
                idx += 1;
            )*
            let _ = idx;
        }
    };
}

typed_targets! {
    "(i32,)" => (i32,),
    "(i64,)" => (i64,),
    "(String,)" => (String,),
    "(Vec<u8>,)" => (Vec<u8>,),
    "(bool,)" => (bool,),
    "(Option<i32>,)" => (Option<i32>,),
    "(Vec<i32>,)" => (Vec<i32>,),
    "(Vec<String>,)" => (Vec<String>,),
    "(std::collections::HashMap<String,i32>,)" => (HashMap<String, i32>,),
    "(std::collections::BTreeSet<i32>,)" => (BTreeSet<i32>,),
    "((i32,String),)" => ((i32, String),),
    "(i32,String)" => (i32, String),
    "(Option<i32>,Option<String>,Option<i64>)" => (Option<i32>, Option<String>, Option<i64>),
    "(CqlDuration,)" => (CqlDuration,),
    "(CqlDecimal,)" => (CqlDecimal,),
    "(CqlVarint,)" => (CqlVarint,),
    "(uuid::Uuid,)" => (uuid::Uuid,),
    "(std::net::IpAddr,)" => (IpAddr,),
    "(CqlTimestamp,)" => (CqlTimestamp,),
    "(f64,)" => (f64,),
    "(&str,)" => (&'a str,),
    "(&[u8],)" => (&'a [u8],),
}

// ===========================================================================
// pass 1: driver calls only, on the 2 MiB thread, measured
// ===========================================================================

struct Measured {
    /// whole pass (stages 1-4 including the typed targets and the final drop)
    peak: isize,
    /// stages 1-3 plus the dynamic-value row iteration only
    peak_core: isize,
    panic: Option<String>,
    typed: Vec<(usize, usize, bool)>,
}

type Decoded = (Option<uuid::Uuid>, Vec<String>, Option<HashMap<String, bytes::Bytes>>, ResponseWithDeserializedMetadataV2);

/// Stages 1-3; every value a real connection would still hold is kept alive in the result.
fn lean_decode(p: &Prepared8) -> Option<Decoded> {
    stage("read_frame");
    let mut rd = &p.frame[..];
    let (params, opcode, body) = block_on(read_response_frame(&mut rd)).ok()?;
    stage("extensions");
    let ResponseBodyWithExtensions { trace_id, warnings, custom_payload, body } =
        parse_response_body_extensions(params.flags, p.compression, body).ok()?;
    stage("deserialize");
    let resp = ResponseV2::deserialize(&p.features, opcode, body, p.cached.as_ref()).ok()?;
    stage("metadata");
    let resp = resp.deserialize_metadata().ok()?;
    Some((trace_id, warnings, custom_payload, resp))
}

fn rows_of(resp: &ResponseWithDeserializedMetadataV2) -> Option<&DeserializedMetadataAndRawRows> {
    match resp {
        ResponseWithDeserializedMetadataV2::Result(ResultWithDeserializedMetadata::Rows((rows, _))) => {
            Some(rows)
        }
        _ => None,
    }
}

/// Body of the decode thread.
fn measured_pass(
    p: &Prepared8,
    typed: &mut Vec<(usize, usize, bool)>,
) -> (isize, isize, Option<String>) {
    let mut first_panic: Option<String> = None;
    let base = crate::alloc::begin();
    let mut peak_core = 0;
    match catch_unwind(AssertUnwindSafe(|| lean_decode(p))) {
        Err(_) => first_panic = Some(crate::last_panic()),
        Ok(None) => peak_core = crate::alloc::peak() - base,
        Ok(Some(decoded)) => {
            peak_core = crate::alloc::peak() - base;
            if let Some(rows) = rows_of(&decoded.3) {
                stage("rows");
                let dynamic = catch_unwind(AssertUnwindSafe(|| {
                    if let Ok(it) = rows.rows_iter::<Row>() {
                        for r in it {
                            if r.is_err() {
                                break;
                            }
                        }
                    }
                }));
                if dynamic.is_err() && first_panic.is_none() {
                    first_panic = Some(crate::last_panic());
                }
                peak_core = crate::alloc::peak() - base;
                run_typed_targets(rows, typed, &mut first_panic);
            }
            // `decoded` is dropped here, on the small stack, like the driver would drop it.
            stage("drop");
            if catch_unwind(AssertUnwindSafe(move || drop(decoded))).is_err() && first_panic.is_none() {
                first_panic = Some(crate::last_panic());
            }
        }
    }
    stage("done");
    (crate::alloc::peak() - base, peak_core, first_panic)
}

fn pass1(p: &Prepared8) -> Measured {
    let mut typed = Vec::with_capacity(TARGET_NAMES.len());
    let joined = thread::scope(|s| {
        thread::Builder::new()
            .name("decode".into())
            .stack_size(DECODE_STACK)
            .spawn_scoped(s, || measured_pass(p, &mut typed))
            .expect("HARNESS: cannot spawn the decode thread")
            .join()
    });
    match joined {
        Ok((peak, peak_core, panic)) => Measured { peak, peak_core, panic, typed },
        Err(_) => Measured { peak: 0, peak_core: 0, panic: Some(crate::last_panic()), typed },
    }
}

// ===========================================================================
// conversion of driver results to the abstract forms of C08.md
// ===========================================================================

fn t8(ct: &ColumnType<'_>) -> Value {
    match ct {
        ColumnType::Native(n) => match native_name(n) {
            Some(name) => json!({"k":"native","n":name}),
            None => json!({"k":"other","debug":trunc(&format!("{n:?}"))}),
        },
        ColumnType::Collection { typ: CollectionType::List(e), .. } => json!({"k":"list","e":t8(e)}),
        ColumnType::Collection { typ: CollectionType::Set(e), .. } => json!({"k":"set","e":t8(e)}),
        ColumnType::Collection { typ: CollectionType::Map(a, b), .. } => {
            json!({"k":"map","a":t8(a),"b":t8(b)})
        }
        ColumnType::Vector { typ, dimensions } => json!({"k":"vector","e":t8(typ),"d":*dimensions}),
        ColumnType::UserDefinedType { definition, .. } => json!({
            "k":"udt",
            "ks":jstr(&definition.keyspace),
            "name":jstr(&definition.name),
            "fs":definition.field_types.iter().map(|(n, t)| json!({"n":jstr(n),"t":t8(t)})).collect::<Vec<_>>(),
        }),
        ColumnType::Tuple(ts) => json!({"k":"tuple","ts":ts.iter().map(t8).collect::<Vec<_>>()}),
        // ColumnType / CollectionType are #[non_exhaustive]
        other => json!({"k":"other","debug":trunc(&format!("{other:?}"))}),
    }
}

fn col(spec: &ColumnSpec<'_>) -> Value {
    json!({
        "ks":jstr(spec.table_spec().ks_name()),
        "table":jstr(spec.table_spec().table_name()),
        "name":jstr(spec.name()),
        "t":t8(spec.typ()),
    })
}

fn cols(specs: &[ColumnSpec<'_>]) -> Value {
    Value::Array(specs.iter().map(col).collect())
}

fn ip_bytes(ip: &IpAddr) -> Value {
    match ip {
        IpAddr::V4(a) => bytes_to_json(&a.octets()),
        IpAddr::V6(a) => bytes_to_json(&a.octets()),
    }
}

fn change_name(c: &SchemaChangeType) -> &'static str {
    match c {
        SchemaChangeType::Created => "CREATED",
        SchemaChangeType::Updated => "UPDATED",
        SchemaChangeType::Dropped => "DROPPED",
        // The driver maps every other string to this placeholder.
        SchemaChangeType::Invalid => "INVALID",
    }
}

fn schema_change(ev: &SchemaChangeEvent) -> Value {
    let (change, target, ks, name, args): (_, _, _, Option<&str>, Option<&[String]>) = match ev {
        SchemaChangeEvent::KeyspaceChange { change_type, keyspace_name } => {
            (change_type, "KEYSPACE", keyspace_name, None, None)
        }
        SchemaChangeEvent::TableChange { change_type, keyspace_name, object_name } => {
            (change_type, "TABLE", keyspace_name, Some(object_name.as_str()), None)
        }
        SchemaChangeEvent::TypeChange { change_type, keyspace_name, type_name } => {
            (change_type, "TYPE", keyspace_name, Some(type_name.as_str()), None)
        }
        SchemaChangeEvent::FunctionChange { change_type, keyspace_name, function_name, arguments } => (
            change_type,
            "FUNCTION",
            keyspace_name,
            Some(function_name.as_str()),
            Some(arguments.as_slice()),
        ),
        SchemaChangeEvent::AggregateChange { change_type, keyspace_name, aggregate_name, arguments } => (
            change_type,
            "AGGREGATE",
            keyspace_name,
            Some(aggregate_name.as_str()),
            Some(arguments.as_slice()),
        ),
    };
    json!({
        "k":"schema",
        "change":change_name(change),
        "target":target,
        "ks":jstr(ks),
        "name":match name { Some(n) => jstr(n), None => Value::from("none") },
        "args":match args { Some(a) => jstr_list(a), None => Value::from("none") },
    })
}

fn event(ev: &EventV2) -> Value {
    match ev {
        EventV2::TopologyChange(t) => {
            let (change, addr) = match t {
                TopologyChangeEvent::NewNode(a) => ("NEW_NODE", a),
                TopologyChangeEvent::RemovedNode(a) => ("REMOVED_NODE", a),
            };
            json!({"k":"topology","change":change,"ip":ip_bytes(&addr.ip()),"port":addr.port()})
        }
        EventV2::StatusChange(s) => {
            let (change, addr) = match s {
                StatusChangeEvent::Up(a) => ("UP", a),
                StatusChangeEvent::Down(a) => ("DOWN", a),
            };
            json!({"k":"status","change":change,"ip":ip_bytes(&addr.ip()),"port":addr.port()})
        }
        EventV2::SchemaChange(sc) => schema_change(sc),
        // ClientRoutesChange and whatever #[non_exhaustive] brings
        other => json!({"k":"other","debug":trunc(&format!("{other:?}"))}),
    }
}

fn db_error_x(e: &DbError) -> Value {
    // Consistency is #[repr(u16)] with the protocol codes as discriminants.
    match e {
        DbError::Unavailable { consistency, required, alive } => {
            json!({"cl":*consistency as u16,"required":required,"alive":alive})
        }
        DbError::WriteTimeout { consistency, received, required, write_type } => json!({
            "cl":*consistency as u16,"received":received,"required":required,
            "write_type":jstr(write_type.as_str()),
        }),
        DbError::ReadTimeout { consistency, received, required, data_present } => json!({
            "cl":*consistency as u16,"received":received,"required":required,
            "data_present":b01(*data_present),
        }),
        DbError::ReadFailure { consistency, received, required, numfailures, data_present } => json!({
            "cl":*consistency as u16,"received":received,"required":required,
            "numfailures":numfailures,"data_present":b01(*data_present),
        }),
        DbError::FunctionFailure { keyspace, function, arg_types } => json!({
            "keyspace":jstr(keyspace),"function":jstr(function),"arg_types":jstr_list(arg_types),
        }),
        DbError::WriteFailure { consistency, received, required, numfailures, write_type } => json!({
            "cl":*consistency as u16,"received":received,"required":required,
            "numfailures":numfailures,"write_type":jstr(write_type.as_str()),
        }),
        DbError::AlreadyExists { keyspace, table } => {
            json!({"keyspace":jstr(keyspace),"table":jstr(table)})
        }
        DbError::Unprepared { statement_id } => json!({"id":bytes_to_json(statement_id)}),
        DbError::RateLimitReached { op_type, rejected_by_coordinator } => json!({
            "op_type":match op_type {
                OperationType::Read => 0u8,
                OperationType::Write => 1u8,
                OperationType::Other(x) => *x,
            },
            "rejected":b01(*rejected_by_coordinator),
        }),
        _ => json!({}),
    }
}

fn prepared(p: &Prepared, features: &ProtocolFeatures) -> Value {
    let pm = &p.prepared_metadata;
    // The driver keeps the pk indexes sorted by `index` and remembers the wire position in
    // `sequence`; "pk" is the list in `sequence` order, "pk_driver" is what is stored.
    let mut by_seq: Vec<_> = pm.pk_indexes.iter().collect();
    by_seq.sort_by_key(|pki| pki.sequence);
    json!({
        "k":"prepared",
        "id":bytes_to_json(&p.id),
        "result_metadata_id":bytes_or(p.result_metadata.id(), "none"),
        // same expression as scylla/src/network/connection.rs
        "is_lwt":b01(features.prepared_flags_contain_lwt_mark(pm.flags as u32)),
        "pk":by_seq.iter().map(|pki| pki.index).collect::<Vec<_>>(),
        "pk_driver":pm.pk_indexes.iter().map(|pki| json!([pki.index, pki.sequence])).collect::<Vec<_>>(),
        "flags":pm.flags,
        "bind_col_count":pm.col_count,
        "bind":cols(&pm.col_specs),
        "result":cols(p.result_metadata.col_specs()),
        "result_col_count":p.result_metadata.col_count(),
    })
}

fn rows_r(rows: &DeserializedMetadataAndRawRows, paging: &PagingStateResponse) -> Value {
    let md = rows.metadata();
    let paging = match paging {
        PagingStateResponse::HasMorePages { state } => {
            bytes_or(state.as_bytes_slice().map(|a| &a[..]), "none")
        }
        PagingStateResponse::NoMorePages => Value::from("none"),
    };
    json!({
        "k":"rows",
        "col_count":md.col_count(),
        "cols":cols(md.col_specs()),
        "paging":paging,
        "new_metadata_id":bytes_or(md.id(), "none"),
        "rows_count":rows.rows_count(),
    })
}

fn response_r(resp: &ResponseWithDeserializedMetadataV2, features: &ProtocolFeatures) -> Value {
    use ResponseWithDeserializedMetadataV2 as R;
    match resp {
        R::Error(e) => json!({
            "k":"error",
            "code":e.error.code(features),
            "reason":jstr(&e.reason),
            "x":db_error_x(&e.error),
        }),
        R::Ready => json!({"k":"ready"}),
        R::Authenticate(a) => json!({"k":"authenticate","name":jstr(&a.authenticator_name)}),
        R::AuthChallenge(a) => {
            json!({"k":"auth_challenge","token":bytes_or(a.authenticate_message.as_deref(), "null")})
        }
        R::AuthSuccess(a) => {
            json!({"k":"auth_success","token":bytes_or(a.success_message.as_deref(), "null")})
        }
        R::Supported(s) => {
            let sorted: BTreeMap<&String, &Vec<String>> = s.options.iter().collect();
            json!({
                "k":"supported",
                "opts":sorted.iter().map(|(k, v)| json!([jstr(k), jstr_list(v)])).collect::<Vec<_>>(),
            })
        }
        R::Result(ResultWithDeserializedMetadata::Void) => json!({"k":"void"}),
        R::Result(ResultWithDeserializedMetadata::SetKeyspace(sk)) => {
            json!({"k":"set_keyspace","ks":jstr(&sk.keyspace_name)})
        }
        R::Result(ResultWithDeserializedMetadata::SchemaChange(sc)) => {
            json!({"k":"schema_change","ev":schema_change(&sc.event)})
        }
        R::Result(ResultWithDeserializedMetadata::Prepared(p)) => prepared(p, features),
        R::Result(ResultWithDeserializedMetadata::Rows((rows, paging))) => rows_r(rows, paging),
        R::Event(ev) => json!({"k":"event","ev":event(ev)}),
        // #[non_exhaustive]
        other => json!({"k":"other","debug":trunc(&format!("{other:?}"))}),
    }
}

fn hdr_json(params: &FrameParams, opcode: ResponseOpcode, body_len: usize, rest: usize) -> Value {
    json!({
        "ok":1,
        "version":params.version,
        "flags":params.flags,
        "stream":params.stream,
        "opcode":opcode as u8,
        "body_len":body_len,
        "rest":rest,
    })
}

fn ext_json(ext: &ResponseBodyWithExtensions) -> Value {
    let payload = match &ext.custom_payload {
        None => Value::from("none"),
        Some(m) => {
            let sorted: BTreeMap<&String, &bytes::Bytes> = m.iter().collect();
            Value::Array(
                sorted.iter().map(|(k, v)| json!([jstr(k), bytes_to_json(v)])).collect(),
            )
        }
    };
    json!({
        "ok":1,
        "tracing":match &ext.trace_id { Some(u) => bytes_to_json(u.as_bytes()), None => json!([]) },
        "warnings":jstr_list(&ext.warnings),
        "payload":payload,
    })
}

fn fail(err: String) -> Value {
    json!({"ok":0,"err":err})
}

// ===========================================================================
// pass 2: same pipeline, results converted (harness thread, not measured)
// ===========================================================================

struct Staged {
    hdr: Value,
    ext: Value,
    resp: Value,
    rows: Value,
    drain: Value,
}

const DRAIN_CAP: usize = 200_000;

/// A consumer that goes on after a row failed to decode: the iterator still ends, after at most as many items (rows or
/// errors) as the frame announced rows. Counted up to DRAIN_CAP items ("capped" = undecided: more were announced than that).
fn drain_stage(rows: &DeserializedMetadataAndRawRows, first_panic: &mut Option<String>) -> Value {
    let announced = rows.rows_count();
    if announced > DRAIN_CAP {
        return json!({"capped":1,"items":0,"announced":0,"ended":1,"vec_over":0});
    }
    let r = guard(first_panic, || -> Option<(usize, bool)> {
        let it = rows.rows_iter::<Row>().ok()?;
        let mut n = 0usize;
        for _ in it {
            n += 1;
            if n > announced + 8 {
                return Some((n, false));
            }
        }
        Some((n, true))
    });
    let vec_over = vector_probe(rows, first_panic);
    match r {
        Ok(Some((n, ended))) => json!({"capped":0,"items":n,"announced":announced,"ended":ended as u8,"vec_over":vec_over}),
        _ => json!({"capped":1,"items":0,"announced":0,"ended":1,"vec_over":vec_over}),
    }
}

/// A single vector column read through the driver's own `VectorIterator` by a consumer that skips: after `nth(k)` for every
/// k up to one past the dimension, the iterator holds no more items than the dimension allows and `len()` says how many.
/// Returns the number of probes for which that is not so (0 when the frame is not a single vector column).
fn vector_probe(rows: &DeserializedMetadataAndRawRows, first_panic: &mut Option<String>) -> usize {
    use scylla_cql::deserialize::value::VectorIterator;
    use scylla_cql::value::CqlValue;
    let specs = rows.metadata().col_specs();
    let dims = match specs {
        [one] => match one.typ() {
            ColumnType::Vector { dimensions, .. } => *dimensions as usize,
            _ => return 0,
        },
        _ => return 0,
    };
    let r = guard(first_panic, || -> usize {
        let Ok(it) = rows.rows_iter::<(VectorIterator<CqlValue>,)>() else { return 0 };
        let mut over = 0usize;
        for row in it.take(8) {
            let Ok((v,)) = row else { continue };
            // every k for small vectors; the interesting ones for big ones (the probe must not be quadratic in the dimension)
            let ks: Vec<usize> = if dims <= 16 { (0..=dims + 1).collect() } else { vec![0, 1, 2, dims / 2, dims - 1, dims, dims + 1] };
            for k in ks {
                let mut c = v.clone();
                let _ = c.nth(k);
                let claimed = c.len();
                let rest = c.take(70_000).count();
                if rest > dims || claimed != rest {
                    over += 1;
                }
            }
        }
        over
    });
    r.unwrap_or(0)
}

fn rows_stage(rows: &DeserializedMetadataAndRawRows, first_panic: &mut Option<String>) -> Value {
    let mut out: Vec<Value> = Vec::new();
    let mut got = 0usize;
    let result = guard(first_panic, || -> Result<(), String> {
        let it = rows.rows_iter::<Row>().map_err(|e| err_text(&e))?;
        for r in it {
            let row = r.map_err(|e| err_text(&e))?;
            if got < MAX_REPORTED_ROWS {
                out.push(Value::Array(
                    row.columns.iter().map(|c| abs::opt_cql_to_v(c).to_json()).collect(),
                ));
            }
            got += 1;
        }
        Ok(())
    });
    match result {
        Ok(Ok(())) => {
            let mut o = Map::new();
            o.insert("ok".into(), Value::from(1));
            o.insert("n".into(), Value::from(got));
            if got > out.len() {
                o.insert("more".into(), Value::from(1));
            }
            o.insert("rows".into(), Value::Array(out));
            Value::Object(o)
        }
        Ok(Err(e)) | Err(e) => json!({"ok":0,"got":got,"err":e}),
    }
}

fn staged_pass(p: &Prepared8, first_panic: &mut Option<String>) -> Staged {
    let mut st = Staged {
        hdr: Value::from("skipped"),
        ext: Value::from("skipped"),
        resp: Value::from("skipped"),
        rows: Value::from("none"),
        drain: json!({"capped":1,"items":0,"announced":0,"ended":1,"vec_over":0}),
    };

    // 1. frame header + body
    let read = guard(first_panic, || {
        let mut rd = &p.frame[..];
        let r = block_on(read_response_frame(&mut rd));
        (r, rd.len())
    });
    let (params, opcode, body) = match read {
        Err(panic) => {
            st.hdr = fail(panic);
            return st;
        }
        Ok((Err(e), _)) => {
            st.hdr = fail(err_text(&e));
            return st;
        }
        Ok((Ok((params, opcode, body)), rest)) => {
            st.hdr = hdr_json(&params, opcode, body.len(), rest);
            (params, opcode, body)
        }
    };

    // 2. compression + tracing / warnings / custom payload
    let ext = match guard(first_panic, || {
        parse_response_body_extensions(params.flags, p.compression, body)
    }) {
        Err(panic) => {
            st.ext = fail(panic);
            return st;
        }
        Ok(Err(e)) => {
            st.ext = fail(err_text(&e));
            return st;
        }
        Ok(Ok(ext)) => {
            st.ext = ext_json(&ext);
            ext
        }
    };

    // 3. response, then its metadata
    let raw = match guard(first_panic, || {
        ResponseV2::deserialize(&p.features, opcode, ext.body.clone(), p.cached.as_ref())
    }) {
        Err(panic) => {
            st.resp = json!({"ok":0,"stage":"deserialize","err":panic});
            return st;
        }
        Ok(Err(e)) => {
            st.resp = json!({"ok":0,"stage":"deserialize","err":err_text(&e)});
            return st;
        }
        Ok(Ok(r)) => r,
    };
    let resp = match guard(first_panic, || raw.deserialize_metadata()) {
        Err(panic) => {
            st.resp = json!({"ok":0,"stage":"metadata","err":panic});
            return st;
        }
        Ok(Err(e)) => {
            st.resp = json!({"ok":0,"stage":"metadata","err":err_text(&e)});
            return st;
        }
        Ok(Ok(r)) => r,
    };
    st.resp = match guard(first_panic, || response_r(&resp, &p.features)) {
        Ok(v) => json!({"ok":1,"v":v}),
        // a panic in code() / Debug while describing the value: not one of the driver's stages
        Err(panic) => json!({"ok":0,"stage":"describe","err":panic}),
    };

    // 4. rows as dynamic values
    if let Some(rows) = rows_of(&resp) {
        st.rows = rows_stage(rows, first_panic);
        st.drain = drain_stage(rows, first_panic);
    }
    st
}

// ===========================================================================
// worker
// ===========================================================================

fn process_line(line: &str) -> Value {
    let inp: Input = match serde_json::from_str(line) {
        Ok(i) => i,
        Err(e) => {
            let id = serde_json::from_str::<Value>(line)
                .ok()
                .and_then(|v| v.get("id").cloned())
                .filter(|v| !v.is_null())
                .unwrap_or(Value::from(-1));
            return json!({"id":id,"harness_error":trunc(&format!("bad input line: {e}"))});
        }
    };
    if inp.id.is_null() {
        return json!({"id":-1,"harness_error":"input line without id"});
    }
    let (id, p) = match prepare(inp) {
        Ok(x) => x,
        Err(e) => return json!({"id":-1,"harness_error":trunc(&format!("bad input line: {e}"))}),
    };

    let measured = pass1(&p);
    let mut first_panic = measured.panic;
    let st = staged_pass(&p, &mut first_panic);

    let mut o = Map::new();
    o.insert("id".into(), id);
    o.insert("len".into(), Value::from(p.frame.len()));
    o.insert("crash".into(), Value::Null);
    if let Some(msg) = first_panic {
        o.insert("panic".into(), Value::from(trunc(&msg)));
    }
    o.insert("peak".into(), Value::from(measured.peak.max(0) as u64));
    o.insert("peak_core".into(), Value::from(measured.peak_core.max(0) as u64));
    o.insert("hdr".into(), st.hdr);
    o.insert("ext".into(), st.ext);
    o.insert("resp".into(), st.resp);
    o.insert("rows".into(), st.rows);
    o.insert("drain".into(), st.drain);
    o.insert(
        "typed".into(),
        Value::Array(
            measured
                .typed
                .iter()
                .map(|(i, n, ok)| json!({"target":TARGET_NAMES[*i],"n":n,"ok":b01(*ok)}))
                .collect(),
        ),
    );
    Value::Object(o)
}

fn worker_loop() -> i32 {
    let stdin = std::io::stdin();
    let mut stdin = stdin.lock();
    let stdout = std::io::stdout();
    let mut out = BufWriter::with_capacity(1 << 16, stdout.lock());
    let mut line = String::new();
    loop {
        line.clear();
        match stdin.read_line(&mut line) {
            Ok(0) => return 0,
            Ok(_) => {}
            Err(_) => return 1,
        }
        if line.trim().is_empty() {
            continue;
        }
        let rec = process_line(&line);
        if serde_json::to_writer(&mut out, &rec).is_err()
            || out.write_all(b"\n").is_err()
            || out.flush().is_err()
        {
            return 1;
        }
    }
}

pub fn cmd_worker(_args: &[String]) -> i32 {
    if std::env::var_os("VH_C08_TRACE").is_some() {
        TRACE.store(true, Relaxed);
    }
    let h = thread::Builder::new()
        .name("harness".into())
        .stack_size(HARNESS_STACK)
        .spawn(worker_loop)
        .expect("cannot spawn the harness thread");
    h.join().unwrap_or(1)
}

// ===========================================================================
// parent
// ===========================================================================

struct Kid {
    proc: Child,
    stdin: Option<ChildStdin>,
    answers: Receiver<String>,
    stderr_tail: Arc<Mutex<Vec<u8>>>,
    readers: Vec<thread::JoinHandle<()>>,
}

impl Kid {
    fn spawn(exe: &std::path::Path, trace: bool) -> std::io::Result<Kid> {
        let mut cmd = Command::new(exe);
        cmd.arg("c08-worker");
        // Ordinary workers die fast; the one-off tracing worker also prints the backtrace of
        // a failed allocation (std's OOM hook honours RUST_BACKTRACE), which costs ~60 ms.
        if trace {
            cmd.env("VH_C08_TRACE", "1").env("RUST_BACKTRACE", "1");
        } else {
            cmd.env_remove("VH_C08_TRACE").env("RUST_BACKTRACE", "0");
        }
        let mut proc = cmd
            .stdin(Stdio::piped())
            .stdout(Stdio::piped())
            .stderr(Stdio::piped())
            .spawn()?;
        let stdin = proc.stdin.take();
        let stdout = proc.stdout.take().expect("piped stdout");
        let mut stderr = proc.stderr.take().expect("piped stderr");
        let (tx, answers) = mpsc::channel::<String>();
        let out_reader = thread::spawn(move || {
            let mut rd = BufReader::with_capacity(1 << 16, stdout);
            loop {
                let mut line = String::new();
                match rd.read_line(&mut line) {
                    Ok(0) | Err(_) => return,
                    Ok(_) => {
                        // an answer is only complete with its newline
                        if !line.ends_with('\n') {
                            return;
                        }
                        line.pop();
                        if tx.send(line).is_err() {
                            return;
                        }
                    }
                }
            }
        });
        let stderr_tail = Arc::new(Mutex::new(Vec::new()));
        let tail = Arc::clone(&stderr_tail);
        let err_reader = thread::spawn(move || {
            let mut buf = [0u8; 1024];
            loop {
                match stderr.read(&mut buf) {
                    Ok(0) | Err(_) => return,
                    Ok(n) => {
                        let mut t = tail.lock().unwrap();
                        t.extend_from_slice(&buf[..n]);
                        if t.len() > STDERR_TAIL {
                            let cut = t.len() - STDERR_TAIL;
                            t.drain(..cut);
                        }
                    }
                }
            }
        });
        Ok(Kid { proc, stdin, answers, stderr_tail, readers: vec![out_reader, err_reader] })
    }

    /// Kills (if still alive) and reaps the child; returns its exit status text and stderr tail.
    fn bury(mut self, kill: bool) -> (String, Vec<u8>) {
        if kill {
            let _ = self.proc.kill();
        }
        drop(self.stdin.take());
        let status = match self.proc.wait() {
            Ok(st) => match (st.signal(), st.code()) {
                (Some(sig), _) => format!("signal {sig}"),
                (None, Some(code)) => format!("exit {code}"),
                (None, None) => "exit -1".to_string(),
            },
            Err(_) => "exit -1".to_string(),
        };
        for r in self.readers.drain(..) {
            let _ = r.join();
        }
        let tail = self.stderr_tail.lock().map(|t| t.clone()).unwrap_or_default();
        (status, tail)
    }
}

fn note_from(tail: &[u8]) -> Option<String> {
    let text = String::from_utf8_lossy(tail);
    if let Some(l) = text.lines().rev().find(|l| l.starts_with("ALLOC ")) {
        return Some(l.trim().to_string());
    }
    if let Some(l) = text.lines().find(|l| l.contains("overflowed its stack")) {
        // "thread 'decode' (12345) has overflowed its stack": drop the thread id
        let name = l.split('\'').nth(1).unwrap_or("?");
        return Some(format!("thread '{name}' has overflowed its stack"));
    }
    text.lines().rev().find(|l| !l.trim().is_empty()).map(|l| trunc(l.trim()))
}

#[derive(Clone, Copy, PartialEq)]
enum Outcome {
    Answered { error: bool, value: bool },
    Crash,
    Timeout,
    Bad,
}

/// Runs a crashed input once more in a one-off tracing worker. Returns the last stage it
/// announced before dying ("not reproduced" if it answers this time) and, when the runtime
/// printed a backtrace (allocation failure), the innermost driver function in it.
fn crash_stage(exe: &std::path::Path, line: &str) -> (Option<String>, Option<String>) {
    let Ok(mut k) = Kid::spawn(exe, true) else {
        return (None, None);
    };
    let sent = match k.stdin.as_mut() {
        Some(si) => {
            si.write_all(line.as_bytes()).and_then(|_| si.write_all(b"\n")).and_then(|_| si.flush())
        }
        None => return (None, None),
    };
    if sent.is_err() {
        let _ = k.bury(true);
        return (None, None);
    }
    let answered = k.answers.recv_timeout(answer_timeout()).is_ok();
    let (_, tail) = k.bury(true);
    if answered {
        return (Some("not reproduced".to_string()), None);
    }
    let text = String::from_utf8_lossy(&tail);
    let stage = text.lines().rev().find_map(|l| l.strip_prefix("STAGE ")).map(|s| trunc(s.trim()));
    // backtrace lines look like "   4: scylla_cql::frame::response::result::deser_col_specs_generic"
    let in_driver = text.lines().find_map(|l| {
        let (num, sym) = l.trim().split_once(": ")?;
        (num.chars().all(|c| c.is_ascii_digit()) && sym.starts_with("scylla")).then(|| trunc(sym))
    });
    (stage, in_driver)
}

fn crash_record(
    line: &str,
    crash: &str,
    note: Option<String>,
    (stage, in_driver): (Option<String>, Option<String>),
) -> (String, Outcome) {
    let (id, len) = match serde_json::from_str::<IdLen>(line) {
        Ok(x) if !x.id.is_null() => (x.id, x.frame.len()),
        _ => (Value::from(-1), 0),
    };
    let mut o = Map::new();
    o.insert("id".into(), id);
    o.insert("len".into(), Value::from(len));
    o.insert("crash".into(), Value::from(crash));
    if let Some(n) = note {
        o.insert("note".into(), Value::from(n));
    }
    if let Some(st) = stage {
        o.insert("stage".into(), Value::from(st));
    }
    if let Some(w) = in_driver {
        o.insert("where".into(), Value::from(w));
    }
    let outcome = if crash == "timeout" { Outcome::Timeout } else { Outcome::Crash };
    (Value::Object(o).to_string(), outcome)
}

/// Classifies a worker's answer for the summary without building a JSON tree (answers can
/// nest deeper than serde_json's parser allows): a byte scan that tracks string/bracket
/// state and looks at the top-level keys and at the `ok` key of the four stage objects.
fn classify(answer: &str) -> Outcome {
    let b = answer.as_bytes();
    if b.first() != Some(&b'{') || b.last() != Some(&b'}') {
        return Outcome::Bad;
    }
    let (mut depth, mut i) = (0usize, 0usize);
    let mut top: &[u8] = b"";
    let (mut error, mut value, mut bad) = (false, false, false);
    while i < b.len() {
        match b[i] {
            b'"' => {
                let start = i + 1;
                let mut j = start;
                while j < b.len() && b[j] != b'"' {
                    if b[j] == b'\\' {
                        j += 1;
                    }
                    j += 1;
                }
                let end = j.min(b.len());
                let is_key = b.get(end + 1) == Some(&b':');
                if is_key && depth == 1 {
                    top = &b[start..end];
                    error |= top == b"panic";
                    bad |= top == b"harness_error";
                } else if is_key && depth == 2 && &b[start..end] == b"ok" {
                    let ok = b.get(end + 2).copied();
                    if matches!(top, b"hdr" | b"ext" | b"resp" | b"rows") && ok == Some(b'0') {
                        error = true;
                    }
                    if top == b"resp" && ok == Some(b'1') {
                        value = true;
                    }
                }
                i = end + 1;
            }
            b'{' | b'[' => {
                depth += 1;
                i += 1;
            }
            b'}' | b']' => {
                if depth == 0 {
                    return Outcome::Bad;
                }
                depth -= 1;
                i += 1;
            }
            _ => i += 1,
        }
    }
    if bad || depth != 0 {
        return Outcome::Bad;
    }
    Outcome::Answered { error, value }
}

type Jobs = Mutex<(std::io::Lines<BufReader<File>>, usize)>;

/// Next non-empty input line with its output position.
fn next_job(jobs: &Jobs) -> Option<(usize, Result<String, String>)> {
    let mut g = jobs.lock().unwrap();
    loop {
        match g.0.next()? {
            Ok(l) if l.trim().is_empty() => continue,
            Ok(l) => {
                let idx = g.1;
                g.1 += 1;
                return Some((idx, Ok(l)));
            }
            Err(e) => {
                let idx = g.1;
                g.1 += 1;
                return Some((idx, Err(e.to_string())));
            }
        }
    }
}

/// One parent-side thread: owns one child at a time and feeds it jobs.
fn feeder(
    exe: std::path::PathBuf,
    jobs: Arc<Jobs>,
    results: mpsc::Sender<(usize, String, Outcome)>,
) {
    let mut kid: Option<Kid> = None;
    while let Some((idx, line)) = next_job(&jobs) {
        let line = match line {
            Ok(l) => l,
            Err(e) => {
                let rec = json!({"id":-1,"harness_error":trunc(&format!("unreadable input line: {e}"))});
                let _ = results.send((idx, rec.to_string(), Outcome::Bad));
                continue;
            }
        };
        let mut attempts = 0;
        let (text, outcome) = loop {
            attempts += 1;
            if kid.is_none() {
                match Kid::spawn(&exe, false) {
                    Ok(k) => kid = Some(k),
                    Err(e) => {
                        let rec = json!({"id":-1,"harness_error":format!("cannot start a worker: {e}")});
                        break (rec.to_string(), Outcome::Bad);
                    }
                }
            }
            let k = kid.as_mut().unwrap();
            let sent = {
                let si = k.stdin.as_mut().expect("child stdin");
                si.write_all(line.as_bytes())
                    .and_then(|_| si.write_all(b"\n"))
                    .and_then(|_| si.flush())
            };
            if sent.is_err() {
                // The child was gone before it had the whole line: not this input's doing.
                let (status, tail) = kid.take().unwrap().bury(true);
                if attempts < 2 {
                    continue;
                }
                let rec = json!({"id":-1,"harness_error":format!(
                    "worker does not accept input ({status}): {}",
                    note_from(&tail).unwrap_or_default())});
                break (rec.to_string(), Outcome::Bad);
            }
            match k.answers.recv_timeout(answer_timeout()) {
                Ok(answer) => {
                    let outcome = classify(&answer);
                    break (answer, outcome);
                }
                Err(RecvTimeoutError::Timeout) => {
                    let (_, tail) = kid.take().unwrap().bury(true);
                    break crash_record(&line, "timeout", note_from(&tail), (None, None));
                }
                Err(RecvTimeoutError::Disconnected) => {
                    let (status, tail) = kid.take().unwrap().bury(false);
                    let stage = crash_stage(&exe, &line);
                    break crash_record(&line, &status, note_from(&tail), stage);
                }
            }
        };
        if results.send((idx, text, outcome)).is_err() {
            break;
        }
    }
    if let Some(k) = kid.take() {
        // closing stdin makes the worker exit 0
        let mut k = k;
        drop(k.stdin.take());
        let _ = k.bury(false);
    }
}

pub fn cmd_parent(args: &[String]) -> i32 {
    let mut files: Vec<&String> = Vec::new();
    let mut workers = 8usize;
    let mut i = 0;
    while i < args.len() {
        if args[i] == "--workers" {
            match args.get(i + 1).and_then(|s| s.parse::<usize>().ok()) {
                Some(n) if n >= 1 => workers = n,
                _ => {
                    eprintln!("--workers needs a positive number");
                    return 2;
                }
            }
            i += 2;
        } else {
            files.push(&args[i]);
            i += 1;
        }
    }
    if files.len() != 2 {
        eprintln!("usage: vh-cql c08 <in.ndjson> <out.ndjson> [--workers N]");
        return 2;
    }
    let input = match File::open(files[0]) {
        Ok(f) => BufReader::with_capacity(1 << 20, f),
        Err(e) => {
            eprintln!("cannot open {}: {e}", files[0]);
            return 1;
        }
    };
    let mut output = match File::create(files[1]) {
        Ok(f) => BufWriter::with_capacity(1 << 20, f),
        Err(e) => {
            eprintln!("cannot create {}: {e}", files[1]);
            return 1;
        }
    };
    let exe = match std::env::current_exe() {
        Ok(e) => e,
        Err(e) => {
            eprintln!("cannot find my own executable: {e}");
            return 1;
        }
    };

    let started = Instant::now();
    let jobs: Arc<Jobs> = Arc::new(Mutex::new((input.lines(), 0)));
    let (tx, rx) = mpsc::channel::<(usize, String, Outcome)>();
    let mut feeders = Vec::new();
    for _ in 0..workers {
        let (exe, jobs, tx) = (exe.clone(), Arc::clone(&jobs), tx.clone());
        feeders.push(thread::spawn(move || feeder(exe, jobs, tx)));
    }
    drop(tx);

    // Collector: restores input order.
    let (mut lines, mut crashes, mut timeouts, mut errors, mut values, mut bad) =
        (0u64, 0u64, 0u64, 0u64, 0u64, 0u64);
    let mut pending: BTreeMap<usize, String> = BTreeMap::new();
    let mut next = 0usize;
    let mut io_failed = false;
    for (idx, text, outcome) in rx {
        lines += 1;
        match outcome {
            Outcome::Answered { error, value } => {
                errors += error as u64;
                values += value as u64;
            }
            Outcome::Crash => crashes += 1,
            Outcome::Timeout => timeouts += 1,
            Outcome::Bad => bad += 1,
        }
        pending.insert(idx, text);
        while let Some(text) = pending.remove(&next) {
            if output.write_all(text.as_bytes()).and_then(|_| output.write_all(b"\n")).is_err() {
                io_failed = true;
            }
            next += 1;
        }
    }
    for f in feeders {
        if f.join().is_err() {
            io_failed = true;
        }
    }
    if !pending.is_empty() {
        // cannot happen unless a feeder died
        io_failed = true;
        for (_, text) in pending {
            let _ = output.write_all(text.as_bytes()).and_then(|_| output.write_all(b"\n"));
        }
    }
    if output.flush().is_err() {
        io_failed = true;
    }
    let ms = started.elapsed().as_millis() as u64;
    println!(
        "{}",
        json!({"cmd":"c08","lines":lines,"crashes":crashes,"timeouts":timeouts,"errors":errors,
               "values":values,"bad_lines":bad,"workers":workers,"ms":ms})
    );
    if io_failed || bad > 0 { 1 } else { 0 }
}

// ===========================================================================
// selftest
// ===========================================================================

fn frame(flags: u8, stream: i16, opcode: u8, body: &[u8]) -> Vec<u8> {
    let mut f = vec![0x84, flags];
    f.extend_from_slice(&stream.to_be_bytes());
    f.push(opcode);
    f.extend_from_slice(&(body.len() as u32).to_be_bytes());
    f.extend_from_slice(body);
    f
}

fn put_string(b: &mut Vec<u8>, s: &str) {
    b.extend_from_slice(&(s.len() as u16).to_be_bytes());
    b.extend_from_slice(s.as_bytes());
}

fn put_int(b: &mut Vec<u8>, v: i32) {
    b.extend_from_slice(&v.to_be_bytes());
}

/// RESULT/Rows body up to and including the column name: kind, flags (global table spec),
/// one column "ks"."t"."c"; the caller appends the column type, rows count and rows.
fn rows_prefix() -> Vec<u8> {
    let mut b = Vec::new();
    put_int(&mut b, 0x0002);
    put_int(&mut b, 0x0001);
    put_int(&mut b, 1);
    put_string(&mut b, "ks");
    put_string(&mut b, "t");
    put_string(&mut b, "c");
    b
}

fn selftest_inputs() -> Vec<(&'static str, Vec<u8>)> {
    let ready = frame(0, 1, 0x02, &[]);

    let mut unavailable = Vec::new();
    put_int(&mut unavailable, 0x1000);
    put_string(&mut unavailable, "unavailable");
    unavailable.extend_from_slice(&0x0004u16.to_be_bytes());
    put_int(&mut unavailable, 3);
    put_int(&mut unavailable, 1);
    let unavailable = frame(0, 2, 0x00, &unavailable);

    let mut rows = rows_prefix();
    rows.extend_from_slice(&0x0009u16.to_be_bytes());
    put_int(&mut rows, 2);
    put_int(&mut rows, 4);
    put_int(&mut rows, 1);
    put_int(&mut rows, 4);
    put_int(&mut rows, -2);
    let rows_frame = frame(0, 3, 0x08, &rows);

    // the same frame cut 3 bytes short: header still announces the full body
    let cut_frame = rows_frame[..rows_frame.len() - 3].to_vec();
    // the same body cut 3 bytes short with a consistent header length
    let cut_body = frame(0, 4, 0x08, &rows[..rows.len() - 3]);

    let mut prep = Vec::new();
    put_int(&mut prep, 0x0004);
    prep.extend_from_slice(&[0, 2, 0xAB, 0xCD]);
    put_int(&mut prep, 0);
    put_int(&mut prep, 0x7fff_ffff);
    put_int(&mut prep, 0);
    let prep = frame(0, 5, 0x08, &prep);

    let mut deep = rows_prefix();
    for _ in 0..200_000 {
        deep.extend_from_slice(&0x0020u16.to_be_bytes());
    }
    deep.extend_from_slice(&0x0009u16.to_be_bytes());
    put_int(&mut deep, 0);
    let deep = frame(0, 6, 0x08, &deep);

    vec![
        ("READY", ready.clone()),
        ("ERROR unavailable", unavailable),
        ("RESULT/Rows, one int column, two rows", rows_frame),
        ("the same, last 3 bytes of the frame missing", cut_frame),
        ("the same, body 3 bytes shorter (header length consistent)", cut_body),
        ("RESULT/Prepared, bind column count 0x7fffffff", prep),
        ("RESULT/Rows, column type list<list<...<int>>> nested 200000 deep", deep),
        ("READY again (the workers must have survived)", ready),
    ]
}

pub fn cmd_selftest(_args: &[String]) -> i32 {
    let dir = std::env::temp_dir();
    let pid = std::process::id();
    let inp = dir.join(format!("vh-cql-c08-selftest-{pid}.in.ndjson"));
    let outp = dir.join(format!("vh-cql-c08-selftest-{pid}.out.ndjson"));
    let inputs = selftest_inputs();
    {
        let mut f = BufWriter::new(File::create(&inp).expect("create selftest input"));
        for (i, (_, fr)) in inputs.iter().enumerate() {
            let rec = json!({
                "id":i, "frame":bytes_to_json(fr), "comp":"none",
                "feat":{"rate_limit_error":null,"lwt_mask":null,"tablets":0,"metadata_id":0},
                "cached":null,
            });
            serde_json::to_writer(&mut f, &rec).expect("write selftest input");
            f.write_all(b"\n").expect("write selftest input");
        }
        f.flush().expect("write selftest input");
    }
    let rc = cmd_parent(&[
        inp.to_string_lossy().into_owned(),
        outp.to_string_lossy().into_owned(),
        "--workers".into(),
        "2".into(),
    ]);
    let out = std::fs::read_to_string(&outp).unwrap_or_default();
    let mut ok = rc == 0;
    let mut n = 0;
    for (i, line) in out.lines().enumerate() {
        n += 1;
        let what = inputs.get(i).map(|x| x.0).unwrap_or("?");
        println!("# {i}: {what}");
        if line.chars().count() > 3000 {
            let head: String = line.chars().take(3000).collect();
            println!("{head}... ({} bytes)", line.len());
        } else {
            println!("{line}");
        }
        // order check
        let id = serde_json::from_str::<Value>(line).ok().and_then(|v| v.get("id").and_then(Value::as_u64));
        if id != Some(i as u64) {
            println!("# SELFTEST: line {i} carries id {id:?}");
            ok = false;
        }
        if line.contains("null") && !line.contains("\"crash\":null") {
            println!("# SELFTEST: line {i} contains a null outside crash");
            ok = false;
        }
    }
    if n != inputs.len() {
        println!("# SELFTEST: {n} output lines for {} inputs", inputs.len());
        ok = false;
    }
    let _ = std::fs::remove_file(&inp);
    let _ = std::fs::remove_file(&outp);
    if ok { 0 } else { 1 }
}

// ===========================================================================
// c08-stream: several response frames back to back in ONE reader (what a connection's read half sees). For every
// frame read: header fields, body length, first / last body byte and the number of body bytes that are not what the
// generator put there. `vh-cql c08-stream <in.ndjson> <out.ndjson>`; input line {"id":N,"lens":[body length per frame]}.
// Byte j of the body of frame i (0-based) is (i * 31 + j) % 251; stream id = i; opcode READY (0x02) .. irrelevant to the reader.
// ===========================================================================

pub fn stream_body_byte(i: usize, j: usize) -> u8 {
    ((i * 31 + j) % 251) as u8
}

pub fn cmd_stream(args: &[String]) -> i32 {
    use std::io::{BufRead, Write};
    if args.len() != 2 {
        eprintln!("usage: vh-cql c08-stream <in.ndjson> <out.ndjson>");
        return 2;
    }
    let inp = match std::fs::File::open(&args[0]) {
        Ok(f) => std::io::BufReader::new(f),
        Err(e) => {
            eprintln!("open {}: {e}", args[0]);
            return 2;
        }
    };
    let mut out = match std::fs::File::create(&args[1]) {
        Ok(f) => std::io::BufWriter::new(f),
        Err(e) => {
            eprintln!("create {}: {e}", args[1]);
            return 2;
        }
    };
    let mut n = 0u64;
    for line in inp.lines() {
        let Ok(line) = line else { return 2 };
        if line.trim().is_empty() {
            continue;
        }
        let Ok(j) = serde_json::from_str::<Value>(&line) else {
            eprintln!("bad line");
            return 2;
        };
        let lens: Vec<usize> = j["lens"].as_array().map(|a| a.iter().filter_map(|x| x.as_u64()).map(|x| x as usize).collect()).unwrap_or_default();
        let mut bytes: Vec<u8> = Vec::new();
        for (i, len) in lens.iter().enumerate() {
            bytes.extend_from_slice(&[0x84, 0x00]);
            bytes.extend_from_slice(&(i as i16).to_be_bytes());
            bytes.push(0x02);
            bytes.extend_from_slice(&(*len as u32).to_be_bytes());
            bytes.extend((0..*len).map(|k| stream_body_byte(i, k)));
        }
        let mut frames: Vec<Value> = Vec::new();
        let mut first_panic = None;
        let mut rd = &bytes[..];
        for i in 0..lens.len() {
            let r = guard(&mut first_panic, || block_on(read_response_frame(&mut rd)));
            match r {
                Err(p) => {
                    frames.push(json!({"ok":0,"err":p}));
                    break;
                }
                Ok(Err(e)) => {
                    frames.push(json!({"ok":0,"err":err_text(&e)}));
                    break;
                }
                Ok(Ok((params, opcode, body))) => {
                    let wrong = body.iter().enumerate().filter(|(k, b)| **b != stream_body_byte(i, *k)).count();
                    frames.push(json!({"ok":1,"stream":params.stream,"opcode":opcode as u8,"flags":params.flags,"body_len":body.len(),
                        "first": body.first().copied().map(|b| b as i64).unwrap_or(-1), "last": body.last().copied().map(|b| b as i64).unwrap_or(-1), "wrong":wrong}));
                }
            }
        }
        let o = json!({"id": j["id"], "lens": lens, "frames": frames, "rest": rd.len()});
        if writeln!(out, "{o}").is_err() {
            return 2;
        }
        n += 1;
    }
    if out.flush().is_err() {
        return 2;
    }
    println!("{}", json!({"cmd":"c08-stream","lines":n}));
    0
}
