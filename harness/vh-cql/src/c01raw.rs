//! `vh-cql c01-raw <samples.ndjson> <out.ndjson>`: the raw-byte representations of `varint` and `decimal`
//! (CqlVarint, CqlVarintBorrowed, CqlValue::Varint, CqlDecimal, CqlDecimalBorrowed, CqlValue::Decimal). Their value IS a byte
//! string (two's complement, possibly with redundant leading bytes, possibly zero-length): "bytes provided by the user via
//! constructor are passed to DB as is", and decoding hands the bytes back as they came.
//! Input: {"b":[..bytes..]}   Output per (sample, carrier): {"b":..,"carrier":..,"ok":0|1,"cell":[..],"back":[..],"back_ok":0|1,"panic":0|1}
//! Carriers ending in "[]" bind a two-element list of the value; decimal carriers use the fixed scale -3.
use std::io::{BufRead, Write};
use std::panic::{AssertUnwindSafe, catch_unwind};

use scylla_cql_core::deserialize::FrameSlice;
use scylla_cql_core::deserialize::value::DeserializeValue;
use scylla_cql_core::frame::response::result::{CollectionType, ColumnType, NativeType};
use scylla_cql_core::serialize::value::SerializeValue;
use scylla_cql_core::serialize::writers::CellWriter;
use scylla_cql_core::value::{CqlDecimal, CqlDecimalBorrowed, CqlValue, CqlVarint, CqlVarintBorrowed};
use serde_json::{Value, json};

const SCALE: i32 = -3;

fn ser<T: SerializeValue>(v: &T, ct: &ColumnType<'static>) -> Result<Vec<u8>, String> {
    let mut buf = Vec::new();
    match v.serialize(ct, CellWriter::new(&mut buf)) {
        Ok(_) => Ok(buf),
        Err(e) => Err(e.to_string()),
    }
}

/// Decodes a cell `[int length][content]` produced by `ser` into `$ty` (the body handed over is exactly the bytes after the
/// prefix) and maps the decoded value with `$f` to the bytes it holds.
macro_rules! back {
    ($cell:expr, $ct:expr, $ty:ty, $f:expr) => {{
        match &$cell {
            Err(e) => Err::<Vec<u8>, String>(e.clone()),
            Ok(cell) => {
                if cell.len() < 4 || i32::from_be_bytes([cell[0], cell[1], cell[2], cell[3]]) < 0 || cell.len() != 4 + i32::from_be_bytes([cell[0], cell[1], cell[2], cell[3]]) as usize {
                    Err(format!("cell {:?} is not [int n][n bytes]", cell))
                } else {
                    let body = bytes::Bytes::copy_from_slice(&cell[4..]);
                    match <$ty as DeserializeValue<'_, '_>>::type_check($ct) {
                        Err(e) => Err(e.to_string()),
                        Ok(()) => match <$ty as DeserializeValue<'_, '_>>::deserialize($ct, Some(FrameSlice::new(&body))) {
                            Err(e) => Err(e.to_string()),
                            Ok(x) => $f(x),
                        },
                    }
                }
            }
        }
    }};
}

pub fn cmd(args: &[String]) -> i32 {
    let (Some(inp), Some(outp)) = (args.first(), args.get(1)) else {
        eprintln!("usage: vh-cql c01-raw <samples.ndjson> <out.ndjson>");
        return 2;
    };
    let Ok(f) = std::fs::File::open(inp) else { return 2 };
    let Ok(o) = std::fs::File::create(outp) else { return 2 };
    let mut out = std::io::BufWriter::new(o);
    let vt = ColumnType::Native(NativeType::Varint);
    let dt = ColumnType::Native(NativeType::Decimal);
    let vlist = ColumnType::Collection { frozen: false, typ: CollectionType::List(Box::new(vt.clone())) };
    let mut n = 0u64;
    for line in std::io::BufReader::new(f).lines() {
        let Ok(line) = line else { return 2 };
        if line.trim().is_empty() {
            continue;
        }
        let j: Value = match serde_json::from_str(&line) {
            Ok(v) => v,
            Err(_) => return 2,
        };
        let b: Vec<u8> = j["b"].as_array().map(|a| a.iter().filter_map(|x| x.as_u64()).map(|x| x as u8).collect()).unwrap_or_default();
        type Run = Box<dyn Fn(&[u8]) -> (Result<Vec<u8>, String>, Result<Vec<u8>, String>)>;
        let (vt1, vt2, vt3, dt1, dt2, dt3, vl) = (vt.clone(), vt.clone(), vt.clone(), dt.clone(), dt.clone(), dt.clone(), vlist.clone());
        let carriers: Vec<(&str, Run)> = vec![
            ("CqlVarint", Box::new(move |b| {
                let cell = ser(&CqlVarint::from_signed_bytes_be_slice(b), &vt1);
                let back = back!(cell, &vt1, CqlVarint, |x: CqlVarint| Ok(x.as_signed_bytes_be_slice().to_vec()));
                (cell, back)
            })),
            ("CqlVarintBorrowed", Box::new(move |b| {
                let cell = ser(&CqlVarintBorrowed::from_signed_bytes_be_slice(b), &vt2);
                let back = back!(cell, &vt2, CqlVarintBorrowed<'_>, |x: CqlVarintBorrowed<'_>| Ok(x.as_signed_bytes_be_slice().to_vec()));
                (cell, back)
            })),
            ("CqlValue::Varint", Box::new(move |b| {
                let cell = ser(&CqlValue::Varint(CqlVarint::from_signed_bytes_be_slice(b)), &vt3);
                let back = back!(cell, &vt3, CqlValue, |x: CqlValue| match x {
                    CqlValue::Varint(v) => Ok(v.as_signed_bytes_be_slice().to_vec()),
                    CqlValue::Empty => Ok(Vec::new()), // the dynamic type reads a zero-length cell as the 'empty' value
                    other => Err(format!("decoded as {other:?}")),
                });
                (cell, back)
            })),
            ("CqlDecimal", Box::new(move |b| {
                let cell = ser(&CqlDecimal::from_signed_be_bytes_slice_and_exponent(b, SCALE), &dt1);
                let back = back!(cell, &dt1, CqlDecimal, |x: CqlDecimal| {
                    let (bytes, scale) = x.as_signed_be_bytes_slice_and_exponent();
                    if scale == SCALE { Ok(bytes.to_vec()) } else { Err(format!("scale {scale}")) }
                });
                (cell, back)
            })),
            ("CqlDecimalBorrowed", Box::new(move |b| {
                let cell = ser(&CqlDecimalBorrowed::from_signed_be_bytes_slice_and_exponent(b, SCALE), &dt2);
                let back = back!(cell, &dt2, CqlDecimalBorrowed<'_>, |x: CqlDecimalBorrowed<'_>| {
                    let (bytes, scale) = x.as_signed_be_bytes_slice_and_exponent();
                    if scale == SCALE { Ok(bytes.to_vec()) } else { Err(format!("scale {scale}")) }
                });
                (cell, back)
            })),
            ("CqlValue::Decimal", Box::new(move |b| {
                let cell = ser(&CqlValue::Decimal(CqlDecimal::from_signed_be_bytes_slice_and_exponent(b, SCALE)), &dt3);
                let back = back!(cell, &dt3, CqlValue, |x: CqlValue| match x {
                    CqlValue::Decimal(d) => Ok(d.as_signed_be_bytes_slice_and_exponent().0.to_vec()),
                    other => Err(format!("decoded as {other:?}")),
                });
                (cell, back)
            })),
            ("CqlVarint[]", Box::new(move |b| {
                let v = vec![CqlVarint::from_signed_bytes_be_slice(b), CqlVarint::from_signed_bytes_be_slice(b)];
                let cell = ser(&v, &vl);
                // both elements must come back as they went; reported: the first if equal to the second, else an error
                let back = back!(cell, &vl, Vec<CqlVarint>, |x: Vec<CqlVarint>| {
                    let bs: Vec<Vec<u8>> = x.iter().map(|e| e.as_signed_bytes_be_slice().to_vec()).collect();
                    if bs.len() == 2 && bs[0] == bs[1] { Ok(bs[0].clone()) } else { Err(format!("elements {bs:?}")) }
                });
                (cell, back)
            })),
        ];
        for (name, run) in &carriers {
            let r = catch_unwind(AssertUnwindSafe(|| run(&b)));
            let rec = match r {
                Ok((cell, back)) => json!({"b": b, "carrier": name, "ok": cell.is_ok() as u8, "cell": cell.clone().unwrap_or_default(),
                                           "err": cell.err().unwrap_or_default(), "back_ok": back.is_ok() as u8, "back": back.clone().unwrap_or_default(),
                                           "back_err": back.err().unwrap_or_default(), "panic": 0}),
                Err(_) => json!({"b": b, "carrier": name, "ok": 0, "cell": [], "err": crate::last_panic(), "back_ok": 0, "back": [], "back_err": "", "panic": 1}),
            };
            if writeln!(out, "{rec}").is_err() {
                return 2;
            }
            n += 1;
        }
    }
    let _ = out.flush();
    println!("{}", json!({"cmd": "c01-raw", "records": n}));
    0
}

/// `vh-cql c01-short <cases.ndjson> <out.ndjson>`: tuple values carrying fewer elements than their type, decoded into typed
/// Rust tuples of Options (directly, and as the two elements of a list). Input: {"n":2|3,"k":..,"wire":[..],"want":[..]}.
pub fn cmd_short(args: &[String]) -> i32 {
    let (Some(inp), Some(outp)) = (args.first(), args.get(1)) else {
        eprintln!("usage: vh-cql c01-short <cases.ndjson> <out.ndjson>");
        return 2;
    };
    let Ok(f) = std::fs::File::open(inp) else { return 2 };
    let Ok(o) = std::fs::File::create(outp) else { return 2 };
    let mut out = std::io::BufWriter::new(o);
    type T2 = (Option<i32>, Option<String>);
    type T3 = (Option<i32>, Option<String>, Option<i64>);
    let flag = |some: bool, right: bool| -> u8 { if !some { 0 } else if right { 1 } else { 2 } };
    let f2 = move |t: &T2| vec![flag(t.0.is_some(), t.0 == Some(7)), flag(t.1.is_some(), t.1.as_deref() == Some("ab"))];
    let f3 = move |t: &T3| vec![flag(t.0.is_some(), t.0 == Some(7)), flag(t.1.is_some(), t.1.as_deref() == Some("ab")), flag(t.2.is_some(), t.2 == Some(9))];
    let ty = |n: usize| {
        let all = [ColumnType::Native(NativeType::Int), ColumnType::Native(NativeType::Text), ColumnType::Native(NativeType::BigInt)];
        ColumnType::Tuple(all[..n].to_vec())
    };
    let mut recs = 0u64;
    for line in std::io::BufReader::new(f).lines() {
        let Ok(line) = line else { return 2 };
        if line.trim().is_empty() {
            continue;
        }
        let Ok(j) = serde_json::from_str::<Value>(&line) else { return 2 };
        let n = j["n"].as_u64().unwrap_or(2) as usize;
        let wire: Vec<u8> = j["wire"].as_array().map(|a| a.iter().filter_map(|x| x.as_u64()).map(|x| x as u8).collect()).unwrap_or_default();
        let tt = ty(n);
        let lt = ColumnType::Collection { frozen: false, typ: CollectionType::List(Box::new(tt.clone())) };
        // directly
        let direct = catch_unwind(AssertUnwindSafe(|| -> Result<Vec<u8>, String> {
            let body = bytes::Bytes::from(wire.clone());
            if n == 2 {
                <T2 as DeserializeValue<'_, '_>>::type_check(&tt).map_err(|e| e.to_string())?;
                <T2 as DeserializeValue<'_, '_>>::deserialize(&tt, Some(FrameSlice::new(&body))).map(|t| f2(&t)).map_err(|e| e.to_string())
            } else {
                <T3 as DeserializeValue<'_, '_>>::type_check(&tt).map_err(|e| e.to_string())?;
                <T3 as DeserializeValue<'_, '_>>::deserialize(&tt, Some(FrameSlice::new(&body))).map(|t| f3(&t)).map_err(|e| e.to_string())
            }
        }));
        // as the two elements of a list: [int 2][int len][tuple][int len][tuple]
        let mut lb = 2i32.to_be_bytes().to_vec();
        for _ in 0..2 {
            lb.extend_from_slice(&(wire.len() as i32).to_be_bytes());
            lb.extend_from_slice(&wire);
        }
        let listed = catch_unwind(AssertUnwindSafe(|| -> Result<(Vec<u8>, Vec<u8>), String> {
            let body = bytes::Bytes::from(lb.clone());
            if n == 2 {
                <Vec<T2> as DeserializeValue<'_, '_>>::type_check(&lt).map_err(|e| e.to_string())?;
                let v = <Vec<T2> as DeserializeValue<'_, '_>>::deserialize(&lt, Some(FrameSlice::new(&body))).map_err(|e| e.to_string())?;
                if v.len() == 2 { Ok((f2(&v[0]), f2(&v[1]))) } else { Err(format!("{} elements", v.len())) }
            } else {
                <Vec<T3> as DeserializeValue<'_, '_>>::type_check(&lt).map_err(|e| e.to_string())?;
                let v = <Vec<T3> as DeserializeValue<'_, '_>>::deserialize(&lt, Some(FrameSlice::new(&body))).map_err(|e| e.to_string())?;
                if v.len() == 2 { Ok((f3(&v[0]), f3(&v[1]))) } else { Err(format!("{} elements", v.len())) }
            }
        }));
        let base = json!({"n": n, "k": j["k"], "wire": wire, "want": j["want"]});
        let mut r1 = base.clone();
        r1["shape"] = json!("tuple");
        match direct {
            Ok(Ok(g)) => { r1["ok"] = json!(1); r1["got"] = json!(g); r1["got2"] = json!([]); r1["err"] = json!(""); r1["panic"] = json!(0); }
            Ok(Err(e)) => { r1["ok"] = json!(0); r1["got"] = json!([]); r1["got2"] = json!([]); r1["err"] = json!(e); r1["panic"] = json!(0); }
            Err(_) => { r1["ok"] = json!(0); r1["got"] = json!([]); r1["got2"] = json!([]); r1["err"] = json!(crate::last_panic()); r1["panic"] = json!(1); }
        }
        let mut r2 = base.clone();
        r2["shape"] = json!("list");
        match listed {
            Ok(Ok((a, b))) => { r2["ok"] = json!(1); r2["got"] = json!(a); r2["got2"] = json!(b); r2["err"] = json!(""); r2["panic"] = json!(0); }
            Ok(Err(e)) => { r2["ok"] = json!(0); r2["got"] = json!([]); r2["got2"] = json!([]); r2["err"] = json!(e); r2["panic"] = json!(0); }
            Err(_) => { r2["ok"] = json!(0); r2["got"] = json!([]); r2["got2"] = json!([]); r2["err"] = json!(crate::last_panic()); r2["panic"] = json!(1); }
        }
        for r in [r1, r2] {
            if writeln!(out, "{r}").is_err() {
                return 2;
            }
            recs += 1;
        }
    }
    let _ = out.flush();
    println!("{}", json!({"cmd": "c01-short", "records": recs}));
    0
}
