//! `vh-cql c01 <vectors.ndjson> <out.ndjson>`: serialize / deserialize round trips of
//! `(T, V)` vectors through every carrier that can hold them. See FORMAT.md.

use std::io::Write;

use serde_json::json;

use crate::abs::{T, V};
use crate::carriers::{Ctx, Out, Stats, registry};
use crate::{json_lines, open_io, write_record};

pub fn cmd(args: &[String]) -> i32 {
    let (input, mut output) = match open_io("c01", args) {
        Ok(x) => x,
        Err(rc) => return rc,
    };
    let runners = registry();
    let mut bad = 0u64;
    let mut lines = 0u64;
    let mut uncarried = 0u64;
    let mut out = Out { records: Vec::new(), stats: Stats::default() };
    let mut io_failed = false;

    let mut bad_json = 0u64;
    for (lineno, j) in json_lines(input, &mut bad_json) {
        let parsed = (|| -> Result<(T, V), String> {
            let t = T::from_json(j.get("t").ok_or("missing t")?)?;
            let v = V::from_json(j.get("v").ok_or("missing v")?)?;
            Ok((t, v))
        })();
        let (t, v) = match parsed {
            Ok(x) => x,
            Err(e) => {
                eprintln!("line {}: {e}", lineno + 1);
                bad += 1;
                continue;
            }
        };
        lines += 1;
        let ct = t.to_column_type();
        let t_json = &j["t"];
        let ctx = Ctx { t: &t, v: &v, ct: &ct, t_json };
        for run in &runners {
            run(&ctx, &mut out);
        }
        if out.records.is_empty() {
            uncarried += 1;
        }
        for rec in out.records.drain(..) {
            if let Err(e) = write_record(&mut output, &rec) {
                eprintln!("write error: {e}");
                io_failed = true;
                break;
            }
        }
        if io_failed {
            break;
        }
    }
    if let Err(e) = output.flush() {
        eprintln!("flush error: {e}");
        io_failed = true;
    }
    bad += bad_json;
    println!(
        "{}",
        json!({
            "cmd": "c01",
            "lines": lines,
            "bad_lines": bad,
            "records": out.stats.records,
            "lines_without_carrier": uncarried,
            "ser_errors": out.stats.ser_errors,
            "de_errors": out.stats.de_errors,
            "panics": out.stats.panics,
            "add_value_vs_serialize_splits": out.stats.split_records,
            "carriers_registered": runners.len(),
        })
    );
    if io_failed || bad > 0 { 1 } else { 0 }
}
