fn main(){}
