//! vh-cql: harness for the CQL (de)serialization properties. See FORMAT.md.
//!
//! The harness never judges: it builds Rust values from abstract descriptions, calls the
//! real driver code and records what happened.
mod abs;
mod alloc;
mod c01;
mod c01raw;
mod c08;
mod c16;
mod c16_structs;
mod c17;
mod carriers;

use std::fs::File;
use std::io::{BufRead, BufReader, BufWriter, Write};

/// Counting allocator shared by every command (see alloc.rs and C08.md).
#[global_allocator]
static GLOBAL: alloc::Counting = alloc::Counting;

static LAST_PANIC: std::sync::Mutex<String> = std::sync::Mutex::new(String::new());

/// Message of the most recent panic caught in code under test (set by the panic hook).
pub fn last_panic() -> String {
    LAST_PANIC.lock().map(|s| s.clone()).unwrap_or_default()
}

/// Command table: add new commands here.
const COMMANDS: &[(&str, &str, fn(&[String]) -> i32)] = &[
    ("c01", "<vectors.ndjson> <out.ndjson>", c01::cmd),
    ("c01-raw", "<samples.ndjson> <out.ndjson>", c01raw::cmd),
    ("c01-short", "<cases.ndjson> <out.ndjson>", c01raw::cmd_short),
    ("c17-matrix", "<types.ndjson> <out.ndjson>", c17::cmd_matrix),
    ("c17-rollback", "<histories.ndjson> <out.ndjson>", c17::cmd_rollback),
    ("c17-whole", "<unused> <out.ndjson>", c17::cmd_whole),
    ("c16", "<cases.ndjson> <out.ndjson>", c16::cmd),
    ("c08", "<in.ndjson> <out.ndjson> [--workers N]", c08::cmd_parent),
    ("c08-worker", "(child of c08: input lines on stdin, output lines on stdout)", c08::cmd_worker),
    ("c08-selftest", "", c08::cmd_selftest),
    ("c08-stream", "<in.ndjson> <out.ndjson>", c08::cmd_stream),
];

fn usage() {
    eprintln!("usage:");
    for (name, args, _) in COMMANDS {
        eprintln!("  vh-cql {name} {args}");
    }
}

fn main() {
    std::panic::set_hook(Box::new(|info| {
        let loc = info
            .location()
            .map(|l| format!("{}:{}", l.file(), l.line()))
            .unwrap_or_default();
        let msg = if let Some(s) = info.payload().downcast_ref::<&str>() {
            s.to_string()
        } else if let Some(s) = info.payload().downcast_ref::<String>() {
            s.clone()
        } else {
            "panic".to_string()
        };
        if let Ok(mut g) = LAST_PANIC.lock() {
            *g = format!("{msg} at {loc}");
        }
    }));
    let args: Vec<String> = std::env::args().skip(1).collect();
    let Some(cmd) = args.first() else {
        usage();
        std::process::exit(2);
    };
    let rc = match COMMANDS.iter().find(|(name, _, _)| name == cmd) {
        Some((_, _, f)) => f(&args[1..]),
        None => {
            eprintln!("unknown command {cmd:?}");
            usage();
            2
        }
    };
    std::process::exit(rc);
}

// ---------------------------------------------------------------------------
// shared I/O helpers
// ---------------------------------------------------------------------------

/// Parses `<in> <out>` arguments and opens both files.
pub fn open_io(cmd: &str, args: &[String]) -> Result<(BufReader<File>, BufWriter<File>), i32> {
    if args.len() != 2 {
        eprintln!("usage: vh-cql {cmd} <in.ndjson> <out.ndjson>");
        return Err(2);
    }
    let input = File::open(&args[0]).map_err(|e| {
        eprintln!("cannot open {}: {e}", args[0]);
        1
    })?;
    let output = File::create(&args[1]).map_err(|e| {
        eprintln!("cannot create {}: {e}", args[1]);
        1
    })?;
    Ok((BufReader::new(input), BufWriter::with_capacity(1 << 20, output)))
}

/// Iterates over the non-empty lines of an NDJSON file as parsed JSON; parse failures are
/// reported on stderr and counted in `bad`.
pub fn json_lines<'a>(
    input: BufReader<File>,
    bad: &'a mut u64,
) -> impl Iterator<Item = (usize, serde_json::Value)> + 'a {
    input.lines().enumerate().filter_map(move |(i, line)| {
        let line = match line {
            Ok(l) => l,
            Err(e) => {
                eprintln!("line {}: read error: {e}", i + 1);
                *bad += 1;
                return None;
            }
        };
        if line.trim().is_empty() {
            return None;
        }
        match serde_json::from_str(&line) {
            Ok(v) => Some((i, v)),
            Err(e) => {
                eprintln!("line {}: bad JSON: {e}", i + 1);
                *bad += 1;
                None
            }
        }
    })
}

pub fn write_record(out: &mut BufWriter<File>, rec: &serde_json::Value) -> std::io::Result<()> {
    serde_json::to_writer(&mut *out, rec)?;
    out.write_all(b"\n")
}
