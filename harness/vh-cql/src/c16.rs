//! `vh-cql c16 <cases.ndjson> <out.ndjson>`: derive macros (SerializeValue / DeserializeValue /
//! SerializeRow / DeserializeRow) against arbitrary database-side definitions. See FORMAT.md.
//!
//! Nothing is judged here: the real generated code is called and what it returned is recorded.

use std::io::Write;
use std::panic::{AssertUnwindSafe, catch_unwind};

use bytes::Bytes;
use scylla_cql_core::deserialize::FrameSlice;
use scylla_cql_core::deserialize::row::{ColumnIterator, DeserializeRow};
use scylla_cql_core::deserialize::value::DeserializeValue;
use scylla_cql_core::frame::response::result::{ColumnSpec, ColumnType, TableSpec};
use scylla_cql_core::serialize::row::{RowSerializationContext, SerializeRow};
use scylla_cql_core::serialize::value::SerializeValue;
use scylla_cql_core::serialize::{CellWriter, RowWriter};
use serde_json::{Value, json};

use crate::abs::{T, V, bytes_from_json_array, bytes_to_json};
use crate::c16_structs::*;
use crate::{json_lines, last_panic, open_io, write_record};

pub const ROW_KEYSPACE: &str = "ks";
pub const ROW_TABLE: &str = "t";

/// One parsed input line.
struct Case {
    /// Database-side definition in DATABASE order.
    db: Vec<(String, T)>,
    vals: Option<Vals>,
    wire: Option<Vec<u8>>,
}

impl Case {
    fn udt_type(&self) -> ColumnType<'static> {
        T::Udt(self.db.clone()).to_column_type()
    }

    fn column_specs(&self) -> Vec<ColumnSpec<'static>> {
        self.db
            .iter()
            .map(|(n, t)| {
                ColumnSpec::owned(
                    n.clone(),
                    t.to_column_type(),
                    TableSpec::owned(ROW_KEYSPACE.to_string(), ROW_TABLE.to_string()),
                )
            })
            .collect()
    }
}

#[derive(Default)]
struct Stats {
    ser_ok: u64,
    ser_err: u64,
    tc_err: u64,
    de_ok: u64,
    de_err: u64,
    panics: u64,
    unbuildable: u64,
    not_available: u64,
}

fn panic_text() -> String {
    format!("PANIC: {}", last_panic())
}

fn harness_err(st: &mut Stats, what: String) -> Value {
    st.unbuildable += 1;
    json!({"ok": 0, "err": format!("HARNESS: {what}"), "harness": 1})
}

// ---------------------------------------------------------------------------
// the four roles, generic over the struct
// ---------------------------------------------------------------------------

type RoleFn = fn(&Case, &mut Stats) -> Value;

fn ser_result(st: &mut Stats, r: std::thread::Result<Result<Value, String>>) -> Value {
    match r {
        Ok(Ok(v)) => {
            st.ser_ok += 1;
            v
        }
        Ok(Err(e)) => {
            st.ser_err += 1;
            json!({"ok": 0, "err": e})
        }
        Err(_) => {
            st.panics += 1;
            json!({"ok": 0, "err": panic_text()})
        }
    }
}

fn udt_ser<S: Abs4 + SerializeValue>(case: &Case, st: &mut Stats) -> Value {
    let Some(vals) = &case.vals else { return Value::Null };
    let s = match S::build(vals) {
        Ok(s) => s,
        Err(e) => return harness_err(st, e),
    };
    let typ = case.udt_type();
    let r = catch_unwind(AssertUnwindSafe(|| {
        let mut buf = Vec::new();
        match SerializeValue::serialize(&s, &typ, CellWriter::new(&mut buf)) {
            Ok(_proof) => Ok(json!({"ok": 1, "bytes": bytes_to_json(&buf)})),
            Err(e) => Err(e.to_string()),
        }
    }));
    ser_result(st, r)
}

fn row_ser<S: Abs4 + SerializeRow>(case: &Case, st: &mut Stats) -> Value {
    let Some(vals) = &case.vals else { return Value::Null };
    let s = match S::build(vals) {
        Ok(s) => s,
        Err(e) => return harness_err(st, e),
    };
    let specs = case.column_specs();
    let r = catch_unwind(AssertUnwindSafe(|| {
        let ctx = RowSerializationContext::from_specs(&specs);
        let mut buf = Vec::new();
        let mut writer = RowWriter::new(&mut buf);
        match SerializeRow::serialize(&s, &ctx, &mut writer) {
            Ok(()) => {
                let count = writer.value_count();
                Ok(json!({"ok": 1, "bytes": bytes_to_json(&buf), "count": count}))
            }
            Err(e) => Err(e.to_string()),
        }
    }));
    ser_result(st, r)
}

/// Shared tail of the two deserialization roles: `tc` runs type_check, `de` runs deserialize.
fn de_result<S: Abs4>(
    st: &mut Stats,
    tc: impl FnOnce() -> Result<(), String>,
    de: impl FnOnce() -> Result<S, String>,
) -> Value {
    match catch_unwind(AssertUnwindSafe(tc)) {
        Ok(Ok(())) => {}
        Ok(Err(e)) => {
            st.tc_err += 1;
            return json!({"tc_ok": 0, "err": e});
        }
        Err(_) => {
            st.panics += 1;
            return json!({"tc_ok": 0, "err": panic_text()});
        }
    }
    match catch_unwind(AssertUnwindSafe(|| de().map(|s| s.report()))) {
        Ok(Ok(val)) => {
            st.de_ok += 1;
            json!({"tc_ok": 1, "ok": 1, "val": val})
        }
        Ok(Err(e)) => {
            st.de_err += 1;
            json!({"tc_ok": 1, "ok": 0, "err": e})
        }
        Err(_) => {
            st.panics += 1;
            json!({"tc_ok": 1, "ok": 0, "err": panic_text()})
        }
    }
}

fn udt_de<S>(case: &Case, st: &mut Stats) -> Value
where
    S: Abs4 + for<'f, 'm> DeserializeValue<'f, 'm>,
{
    let Some(wire) = &case.wire else { return Value::Null };
    let typ = case.udt_type();
    let frame = Bytes::from(wire.clone());
    de_result::<S>(
        st,
        || <S as DeserializeValue<'_, '_>>::type_check(&typ).map_err(|e| e.to_string()),
        || {
            <S as DeserializeValue<'_, '_>>::deserialize(&typ, Some(FrameSlice::new(&frame)))
                .map_err(|e| e.to_string())
        },
    )
}

fn row_de<S>(case: &Case, st: &mut Stats) -> Value
where
    S: Abs4 + for<'f, 'm> DeserializeRow<'f, 'm>,
{
    let Some(wire) = &case.wire else { return Value::Null };
    let specs = case.column_specs();
    let frame = Bytes::from(wire.clone());
    de_result::<S>(
        st,
        || <S as DeserializeRow<'_, '_>>::type_check(&specs).map_err(|e| e.to_string()),
        || {
            <S as DeserializeRow<'_, '_>>::deserialize(ColumnIterator::new(
                &specs,
                FrameSlice::new(&frame),
            ))
            .map_err(|e| e.to_string())
        },
    )
}

// ---------------------------------------------------------------------------
// the family: name -> struct per role
// ---------------------------------------------------------------------------

/// Which Rust struct plays which role for one external name; `None` = that derive does not
/// exist for this family member (the macro rejects the attribute, see c16_structs.rs).
struct Roles {
    udt_ser: Option<RoleFn>,
    udt_de: Option<RoleFn>,
    row_ser: Option<RoleFn>,
    row_de: Option<RoleFn>,
}

macro_rules! role {
    ($f:ident, -) => {
        None
    };
    ($f:ident, $t:ty) => {
        Some($f::<$t> as RoleFn)
    };
}

/// `roles!(UdtSer, UdtDe, RowSer, RowDe)`; `-` where the derive is not available.
macro_rules! roles {
    ($us:tt, $ud:tt, $rs:tt, $rd:tt) => {
        Roles {
            udt_ser: role!(udt_ser, $us),
            udt_de: role!(udt_de, $ud),
            row_ser: role!(row_ser, $rs),
            row_de: role!(row_de, $rd),
        }
    };
    ($all:tt) => {
        roles!($all, $all, $all, $all)
    };
}

fn roles_of(name: &str) -> Option<Roles> {
    Some(match name {
        "Plain" => roles!(Plain),
        "Same" => roles!(Same),
        "Opt" => roles!(Opt),
        "Renamed" => roles!(Renamed),
        "Skip" => roles!(Skip),
        "Ordered" => roles!(Ordered),
        "OrderedSame" => roles!(OrderedSame),
        "OrderedNoNames" => roles!(OrderedNoNames),
        "Forbid" => roles!(ForbidUdt, ForbidUdt, ForbidRow, ForbidRow),
        "OrderedForbid" => {
            roles!(OrderedForbidUdt, OrderedForbidUdt, OrderedForbidRow, OrderedForbidRow)
        }
        "AllowMissing" => {
            roles!(AllowMissingPlain, AllowMissingDe, AllowMissingPlain, AllowMissingPlain)
        }
        "DefaultNull" => roles!(DefaultNull),
        "Flat" => roles!(-, -, Flat, -),
        "Flat2" => roles!(-, -, Flat2, -),
        "OrderedAM" => roles!(OrderedAMUdt, OrderedAMUdt, -, -),
        "NameAM" => roles!(NameAMUdt, NameAMUdt, -, -),
        "OrderedAMDN" => roles!(OrderedAMDNSer, OrderedAMDNDe, -, -),
        "OrderedRenamedSkip" => roles!(OrderedRenamedSkip),
        _ => return None,
    })
}

pub const STRUCT_NAMES: &[&str] = &[
    "Plain",
    "Same",
    "Opt",
    "Renamed",
    "Skip",
    "Ordered",
    "OrderedSame",
    "OrderedNoNames",
    "Forbid",
    "OrderedForbid",
    "AllowMissing",
    "DefaultNull",
    "Flat",
    "Flat2",
    "OrderedAM",
    "NameAM",
    "OrderedAMDN",
    "OrderedRenamedSkip",
];

fn not_available(st: &mut Stats, s: &str, what: &str) -> Value {
    st.not_available += 1;
    json!({"na": 1, "why": format!("struct {s} has no {what} derive")})
}

// ---------------------------------------------------------------------------
// command
// ---------------------------------------------------------------------------

fn parse_case(j: &Value) -> Result<(String, bool, Case), String> {
    let s = j.get("s").and_then(Value::as_str).ok_or("missing s")?.to_string();
    let is_udt = match j.get("mode").and_then(Value::as_str) {
        Some("udt") => true,
        Some("row") => false,
        other => return Err(format!("bad mode {other:?}")),
    };
    let db_json = j.get("db").and_then(Value::as_array).ok_or("missing db")?;
    let mut db = Vec::new();
    for f in db_json {
        let n = f.get("n").and_then(Value::as_str).ok_or_else(|| format!("db entry without n: {f}"))?;
        let t = T::from_json(f.get("t").ok_or_else(|| format!("db entry without t: {f}"))?)?;
        db.push((n.to_string(), t));
    }
    let vals = match j.get("vals") {
        None | Some(Value::Null) => None,
        Some(v) => {
            let o = v.as_object().ok_or("vals is not an object")?;
            let mut m = Vals::new();
            for (k, x) in o {
                m.insert(k.clone(), V::from_json(x)?);
            }
            Some(m)
        }
    };
    let wire = match j.get("wire") {
        None | Some(Value::Null) => None,
        Some(w) => Some(bytes_from_json_array(w.as_array().ok_or("wire is not an array")?)?),
    };
    Ok((s, is_udt, Case { db, vals, wire }))
}

pub fn cmd(args: &[String]) -> i32 {
    let (input, mut output) = match open_io("c16", args) {
        Ok(x) => x,
        Err(rc) => return rc,
    };
    let mut st = Stats::default();
    let (mut lines, mut bad, mut bad_json, mut records, mut unknown) = (0u64, 0u64, 0u64, 0u64, 0u64);
    let mut io_failed = false;

    for (lineno, j) in json_lines(input, &mut bad_json) {
        let (s, is_udt, case) = match parse_case(&j) {
            Ok(x) => x,
            Err(e) => {
                eprintln!("line {}: {e}", lineno + 1);
                bad += 1;
                continue;
            }
        };
        lines += 1;
        let (ser, de) = match roles_of(&s) {
            None => {
                eprintln!("line {}: unknown struct {s:?} (known: {STRUCT_NAMES:?})", lineno + 1);
                unknown += 1;
                let na = json!({"na": 1, "why": format!("unknown struct {s}")});
                (na.clone(), na)
            }
            Some(roles) => {
                let (ser_fn, ser_name, de_fn, de_name) = if is_udt {
                    (roles.udt_ser, "SerializeValue", roles.udt_de, "DeserializeValue")
                } else {
                    (roles.row_ser, "SerializeRow", roles.row_de, "DeserializeRow")
                };
                let ser = match ser_fn {
                    Some(f) => f(&case, &mut st),
                    None => not_available(&mut st, &s, ser_name),
                };
                let de = match de_fn {
                    Some(f) => f(&case, &mut st),
                    None => not_available(&mut st, &s, de_name),
                };
                (ser, de)
            }
        };
        let rec = json!({
            "s": j["s"], "mode": j["mode"], "db": j["db"],
            "vals": j.get("vals").cloned().unwrap_or(Value::Null),
            "wire": j.get("wire").cloned().unwrap_or(Value::Null),
            "ser": ser, "de": de,
        });
        if let Err(e) = write_record(&mut output, &rec) {
            eprintln!("write error: {e}");
            io_failed = true;
            break;
        }
        records += 1;
    }
    if let Err(e) = output.flush() {
        eprintln!("flush error: {e}");
        io_failed = true;
    }
    bad += bad_json;
    println!(
        "{}",
        json!({
            "cmd": "c16",
            "lines": lines,
            "bad_lines": bad,
            "unknown_struct": unknown,
            "records": records,
            "ser_ok": st.ser_ok,
            "ser_err": st.ser_err,
            "tc_err": st.tc_err,
            "de_ok": st.de_ok,
            "de_err": st.de_err,
            "panics": st.panics,
            "unbuildable_vals": st.unbuildable,
            "role_not_available": st.not_available,
        })
    );
    if io_failed || bad > 0 || unknown > 0 { 1 } else { 0 }
}
