//! Counting global allocator shared by all vh-cql commands (see C08.md, "Memory accounting").
//!
//! Wraps `std::alloc::System`, keeps the number of live heap bytes (`CURRENT`) and its
//! high-water mark (`PEAK`) in two relaxed atomics and refuses any single request larger
//! than 1 GiB after writing `ALLOC <size>\n` to fd 2 with a raw `write(2)` (no allocation,
//! no locks, no formatting machinery).
//!
//! Cost per allocation: one `fetch_add` + one `fetch_max`; per deallocation: one `fetch_sub`.

use std::alloc::{GlobalAlloc, Layout, System};
use std::sync::atomic::{AtomicIsize, Ordering::Relaxed};

/// Largest single request that is still forwarded to the system allocator.
pub const LIMIT: usize = 1 << 30;

static CURRENT: AtomicIsize = AtomicIsize::new(0);
static PEAK: AtomicIsize = AtomicIsize::new(0);

pub struct Counting;

unsafe extern "C" {
    fn write(fd: i32, buf: *const u8, count: usize) -> isize;
}

/// Writes `ALLOC <size>\n` to fd 2 without allocating.
fn report_refusal(size: usize) {
    let mut buf = [0u8; 32];
    let prefix = b"ALLOC ";
    buf[..prefix.len()].copy_from_slice(prefix);
    let mut digits = [0u8; 20];
    let mut n = size;
    let mut d = 0;
    loop {
        digits[d] = b'0' + (n % 10) as u8;
        d += 1;
        n /= 10;
        if n == 0 {
            break;
        }
    }
    let mut len = prefix.len();
    while d > 0 {
        d -= 1;
        buf[len] = digits[d];
        len += 1;
    }
    buf[len] = b'\n';
    len += 1;
    // SAFETY: buf is valid for len bytes; the result is deliberately ignored.
    unsafe {
        let _ = write(2, buf.as_ptr(), len);
    }
}

/// Raw, non-allocating write to fd 2 (used for the stage trace of `c08-worker`).
pub fn raw_stderr(bytes: &[u8]) {
    // SAFETY: the slice is valid for its length; the result is deliberately ignored.
    unsafe {
        let _ = write(2, bytes.as_ptr(), bytes.len());
    }
}

#[inline]
fn add(n: usize) {
    let cur = CURRENT.fetch_add(n as isize, Relaxed) + n as isize;
    PEAK.fetch_max(cur, Relaxed);
}

#[inline]
fn sub(n: usize) {
    CURRENT.fetch_sub(n as isize, Relaxed);
}

// SAFETY: every call is forwarded unchanged to `System` (or refused by returning null, which
// the GlobalAlloc contract allows); the counters never influence the returned pointers.
unsafe impl GlobalAlloc for Counting {
    unsafe fn alloc(&self, layout: Layout) -> *mut u8 {
        if layout.size() > LIMIT {
            report_refusal(layout.size());
            return std::ptr::null_mut();
        }
        let p = unsafe { System.alloc(layout) };
        if !p.is_null() {
            add(layout.size());
        }
        p
    }

    unsafe fn alloc_zeroed(&self, layout: Layout) -> *mut u8 {
        if layout.size() > LIMIT {
            report_refusal(layout.size());
            return std::ptr::null_mut();
        }
        let p = unsafe { System.alloc_zeroed(layout) };
        if !p.is_null() {
            add(layout.size());
        }
        p
    }

    unsafe fn dealloc(&self, ptr: *mut u8, layout: Layout) {
        unsafe { System.dealloc(ptr, layout) };
        sub(layout.size());
    }

    unsafe fn realloc(&self, ptr: *mut u8, layout: Layout, new_size: usize) -> *mut u8 {
        if new_size > LIMIT {
            report_refusal(new_size);
            return std::ptr::null_mut();
        }
        let p = unsafe { System.realloc(ptr, layout, new_size) };
        if !p.is_null() {
            if new_size >= layout.size() {
                add(new_size - layout.size());
            } else {
                sub(layout.size() - new_size);
            }
        }
        p
    }
}

/// Starts a measurement: sets `peak = current` and returns that baseline.
pub fn begin() -> isize {
    let cur = CURRENT.load(Relaxed);
    PEAK.store(cur, Relaxed);
    cur
}

/// High-water mark of live heap bytes since the last `begin()`.
pub fn peak() -> isize {
    PEAK.load(Relaxed)
}
