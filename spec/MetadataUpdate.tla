--------------------------- MODULE MetadataUpdate ---------------------------
(***************************************************************************)
(* C19, user-visible half — what travels through the merge channel: the    *)
(* value the metadata worker merges its discoveries into while the cluster *)
(* worker has not taken it yet (cluster/metadata/update.rs).  Property:    *)
(* whatever the interleaving of merges and takes, the values the consumer  *)
(* receives carry                                                          *)
(*   - the peer list of the LATEST topology knowledge merged since the     *)
(*     previous take (a full fetch or a partial topology fetch, whichever  *)
(*     came last), so that the published state reflects the latest fetched *)
(*     topology;                                                           *)
(*   - one response channel for every explicit refresh request merged      *)
(*     (a requested refresh is eventually answered);                       *)
(*   - for every node the latest status hint.                              *)
(* Ops: [op "full", peers, refresh] | [op "topo", peers] | [op "up"/"down",*)
(* n] | [op "take"].  Expected(ops) = the sequence of taken values (a last *)
(* drain included), each [kind, has_peers, peers, refresh, hints].         *)
(***************************************************************************)
EXTENDS Naturals, Sequences, FiniteSets
Empty == [kind |-> "none", has_peers |-> 0, peers |-> << >>, refresh |-> 0, hints |-> << >>]
\* hints: sequence of <<node, up>> sorted by node, one per node
RECURSIVE SortHints(_)
SortHints(S) == IF S = {} THEN << >> ELSE LET m == CHOOSE x \in S : \A y \in S : x[1] <= y[1] IN <<m>> \o SortHints(S \ {m})
SetHint(hs, n, up) == SortHints({hs[i] : i \in {j \in 1..Len(hs) : hs[j][1] # n}} \cup {<<n, up>>})
Merge(s, o) ==
  CASE o.op = "full" ->
         \* the newest full fetch replaces whatever metadata was pending; refresh channels accumulate
         [s EXCEPT !.kind = "full", !.has_peers = 1, !.peers = o.peers,
                   !.refresh = (IF s.kind = "full" THEN s.refresh ELSE 0) + o.refresh]
    [] o.op = "topo" ->
         \* a partial topology fetch is newer than anything pending: its peer list wins, the rest stays
         [s EXCEPT !.kind = IF s.kind = "full" THEN "full" ELSE "partial", !.has_peers = 1, !.peers = o.peers]
    [] o.op = "up" -> [s EXCEPT !.kind = IF s.kind = "none" THEN "hints" ELSE s.kind, !.hints = SetHint(s.hints, o.n, 1)]
    [] o.op = "down" -> [s EXCEPT !.kind = IF s.kind = "none" THEN "hints" ELSE s.kind, !.hints = SetHint(s.hints, o.n, 0)]
RECURSIVE Run(_, _, _)
Run(ops, i, s) == IF i > Len(ops) THEN <<s>>
                  ELSE IF ops[i].op = "take" THEN <<s>> \o Run(ops, i + 1, Empty)
                  ELSE Run(ops, i + 1, Merge(s, ops[i]))
Expected(ops) == Run(ops, 1, Empty)
\* the property, stated on the expectation itself (checked by TLC on every generated sequence):
\* the peers a take carries are those of the last full / topo op since the previous take
LastTopology(ops, from, to) == LET idx == {i \in from..to : ops[i].op \in {"full", "topo"}} IN
                               IF idx = {} THEN << >> ELSE ops[CHOOSE i \in idx : \A j \in idx : j <= i].peers
=============================================================================
