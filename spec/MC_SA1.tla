---------------------------- MODULE MC_SA1 ----------------------------
(* All scripts of 2 nodes x up to 3 scripted rounds over {A, B, T, R, F, U} for SchemaAgreement. *)
EXTENDS SchemaAgreement
Alpha == {"A", "B", "T", "R", "F", "U"}
SeqsUpTo3 == {<<a>> : a \in Alpha} \cup {<<a, b>> : a \in Alpha, b \in Alpha} \cup {<<a, b, d>> : a \in Alpha, b \in Alpha, d \in Alpha}
ScriptsC == [{1, 2} -> SeqsUpTo3]
=======================================================================
