SPECIFICATION Spec
CONSTANTS R = 3
  MaxLen = 7
  Faults = {}
INVARIANTS Emit
CHECK_DEADLOCK FALSE
