------------------------ MODULE Trace_MergeChannelProp ------------------------
EXTENDS MergeChannelProp, Json, IOUtils, TLC
Rec == ndJsonDeserialize(IOEnv.TRACE)
VARIABLES l, silent
tvars == <<pvars, l, silent>>

TraceInit == PropInit /\ l = 1 /\ silent = 0 /\ TLCSet(1, 1)

IsEvent(e) == l <= Len(Rec) /\ Rec[l].ev = e /\ l' = l + 1 /\ silent' = 0

TrModCall == IsEvent("ModCall") /\ ModCall(Rec[l].kind, Rec[l].x)
TrModRet  == IsEvent("ModRet") /\ ModRet(Rec[l].ok)
TrSDropCall == IsEvent("SDropCall") /\ SDropCall
TrSDropRet  == IsEvent("SDropRet") /\ SDropRet
TrRecvCall == IsEvent("RecvCall") /\ RecvCall
TrRecvRet  == IsEvent("RecvRet") /\ RecvRet(Rec[l].some, Rec[l].val)
TrCancel   == IsEvent("Cancel") /\ Cancel
TrTry      == IsEvent("TryRecv") /\ TryRecv(Rec[l].val)
TrRDrop    == IsEvent("RDrop") /\ RDrop
TrParked   == IsEvent("ParkedQuiescent") /\ ParkedQuiescent
TrReset    == IsEvent("Reset") /\ aslot' = << >> /\ asd' = FALSE /\ ard' = FALSE /\ pcall' = NoCall /\ ccall' = NoCall

\* linearization points are not observable: at most 3 between two observed events
Silent == silent < 3 /\ silent' = silent + 1 /\ l' = l /\ l <= Len(Rec) /\ Lin

TraceNext == TrModCall \/ TrModRet \/ TrSDropCall \/ TrSDropRet \/ TrRecvCall \/ TrRecvRet
             \/ TrCancel \/ TrTry \/ TrRDrop \/ TrParked \/ TrReset \/ Silent

TraceSpec == TraceInit /\ [][TraceNext]_tvars

Progress == TLCSet(1, IF l > TLCGet(1) THEN l ELSE TLCGet(1))

TraceAccepted ==
  IF TLCGet(1) = Len(Rec) + 1 THEN TRUE
  ELSE PrintT(<<"REJECTED at line", TLCGet(1), Rec[TLCGet(1)]>>) /\ FALSE
=============================================================================
