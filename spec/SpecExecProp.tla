---------------------------- MODULE SpecExecProp ----------------------------
(* Property-level judge of one speculative-execution call (C13); see SpecExec.tla *)
(* for the record format.  Pure operators only.                                   *)
EXTENDS Naturals, Sequences, FiniteSets

(******************************* the property ******************************)
Idx(evs, kind) == {n \in 1..Len(evs) : evs[n].k = kind}
Final(o) == o \in {"Ok", "Def"}

PropOK(M, evs) ==
  LET S == Idx(evs, "S")  E == Idx(evs, "E")  R == Idx(evs, "R")
      last == Len(evs)
  IN
  /\ Idx(evs, "H") = {}                                   \* it always returns
  /\ R = {last}                                           \* exactly once, at the end
  /\ Cardinality(S) <= 1 + M                              \* bounded number of executions
  /\ S # {}
  /\ \A n \in S : evs[n].i = Cardinality({m \in S : m < n})       \* fibers numbered in start order
  /\ \A n \in S : evs[n].spec = (IF evs[n].i = 0 THEN 0 ELSE 1)   \* only the first is the original
  /\ \A n \in S : evs[n].i = 0 => (n = 1 /\ evs[n].t = 0)         \* the original starts at call time
  /\ \A n \in E : \E m \in S : m < n /\ evs[m].i = evs[n].i       \* only started fibers end
  /\ \A n, m \in E : n # m => evs[n].i # evs[m].i
  /\ LET r == evs[last]
         finals == {n \in E : Final(evs[n].o)}
     IN IF finals # {}
        THEN \* the first success / definitive error is returned, at once
             LET f == CHOOSE n \in finals : \A m \in finals : n <= m IN
             /\ r.r = evs[f].o /\ r.i = evs[f].i /\ r.t = evs[f].t
             /\ f = last - 1
        ELSE \* otherwise: only when everything started has finished and nothing may still start
             /\ \A n \in S : \E m \in E : evs[m].i = evs[n].i
             /\ (Cardinality(S) = 1 + M \/ \E n \in E : evs[n].o = "Exh")
             /\ E # {} /\ \A n \in E : evs[n].t <= r.t
             /\ \E n \in E : evs[n].t = r.t                 \* returned when the last one finished
             /\ LET ign == {n \in E : evs[n].o = "Ign"} IN
                IF ign = {} THEN r.r = "Empty"
                ELSE /\ r.r = "Ign"
                     /\ \E n \in ign : evs[n].i = r.i /\ \A m \in ign : evs[m].t <= evs[n].t   \* a last error

=============================================================================
