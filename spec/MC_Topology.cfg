SPECIFICATION Spec
CONSTANTS MaxOps = 2
INVARIANTS Emit
CHECK_DEADLOCK FALSE
