------------------------ MODULE Trace_CqlRequestE2E ------------------------
(***************************************************************************)
(* C09, session level: the frames a real Session put on the wire for one   *)
(* request (records of `vh-driver c09 e2e`, completed by checks/c09.py     *)
(* with the statement ids and texts) must be byte for byte the encoding of *)
(* what the caller asked for (CqlRequest.ReqBody), with the header flags   *)
(* and opcode of that request.  Default page size of the driver: 5000.     *)
(***************************************************************************)
EXTENDS CqlRequest, Json, IOUtils, TLC
Rec == ndJsonDeserialize(IOEnv.TRACE)
VARIABLE l
I64(n) == [neg |-> 0, mag |-> <<n % 256, (n \div 256) % 256, (n \div 65536) % 256, (n \div 16777216) % 256>>]
Paged(k) == k \in {"query_iter", "execute_iter", "query_page", "execute_page"}
PageOf(r) == IF Paged(r.kind) THEN <<1, IF r.page[1] = 1 THEN r.page[2] ELSE 5000>> ELSE <<0, 0>>
ParamsOf(r, vals) == [cl |-> r.cl, values |-> vals, skip |-> 0, page |-> PageOf(r), ps |-> r.ps, serial |-> r.serial, ts |-> <<r.ts[1], I64(r.ts[2])>>]
Desc(r) ==
  CASE r.kind \in {"query", "query_iter", "query_page"} -> [op |-> "query", text |-> r.text0, params |-> ParamsOf(r, << >>), tracing |-> r.tracing]
    [] r.kind \in {"execute", "execute_iter", "execute_page"} -> [op |-> "execute", id |-> r.ids.insert, meta_id |-> <<0, << >>>>, params |-> ParamsOf(r, r.values), tracing |-> r.tracing]
    [] r.kind = "batch" -> [op |-> "batch", type |-> r.btype, cl |-> r.cl, serial |-> r.serial, ts |-> <<r.ts[1], I64(r.ts[2])>>, tracing |-> r.tracing,
                            stmts |-> <<[kind |-> 1, id |-> r.ids.insert, values |-> r.values], IF r.bunprep = 1 /\ Len(r.values) > 0 THEN [kind |-> 1, id |-> r.ids.insert, values |-> r.values] ELSE [kind |-> 0, text |-> r.text0, values |-> << >>],
                                        [kind |-> 1, id |-> r.ids.insert, values |-> r.values]>>]
SessionFrameOK(r) ==
  LET d == Desc(r) IN
  /\ r.ok = 1
  /\ Len(r.frames) = 1 + r.evict                           \* one request, one frame (single page, no retry) - sent again, unchanged, after UNPREPARED
  /\ \A i \in 1..Len(r.frames) :
       /\ r.frames[i].opcode = Opcode(d)
       /\ r.frames[i].flags = (IF r.tracing = 1 THEN 2 ELSE 0)     \* in particular never "compressed": no compression was negotiated
       /\ r.frames[i].body = ReqBody(d)
TraceInit == l = 1 /\ TLCSet(1, 1)
TraceNext == l <= Len(Rec) /\ (IF SessionFrameOK(Rec[l]) THEN TRUE ELSE PrintT(<<"BAD", l>>)) /\ l' = l + 1
TraceSpec == TraceInit /\ [][TraceNext]_l
Progress == TLCSet(1, IF l > TLCGet(1) THEN l ELSE TLCGet(1))
TraceAccepted == IF TLCGet(1) = Len(Rec) + 1 THEN TRUE ELSE PrintT(<<"REJECTED at line", TLCGet(1)>>) /\ FALSE
=============================================================================
