-------------------------- MODULE Trace_CqlResponse --------------------------
(***************************************************************************)
(* Judge of `vh-cql c08` records (harness/vh-cql/C08.md), one per frame    *)
(* that was pushed through the real decoding pipeline in a sandboxed child:*)
(*   Robust  — for EVERY input: no crash, no panic, memory in proportion;  *)
(*   Faithful — for well-formed frames: header, extensions, response and   *)
(*              rows are exactly the description the frame was encoded     *)
(*              from (CqlResponse.tla), values per CqlValue.tla.           *)
(* Optional fields arrive wrapped by checks/c08.py as [some |-> 0] /       *)
(* [some |-> 1, v |-> ..] (TLC cannot compare a string with a sequence).   *)
(***************************************************************************)
EXTENDS CqlResponse, Ascii, Json, IOUtils, TLC
Rec == ndJsonDeserialize(IOEnv.TRACE)
VARIABLE l

\* "in proportion": a fixed budget that no 16-bit count can exceed (65535 entries of the largest per-entry size) plus 64 bytes per input byte
MemBound(len) == 16777216 + 64 * len
Robust(r) == /\ r.crash = "none"
             /\ r.panic = ""
             /\ r.peak_core <= MemBound(r.len)
             /\ r.peak <= 4 * MemBound(r.len)          \* typed targets add formatted type-check errors
             \* a consumer that goes on after a row failed to decode still reaches the end, after at most the announced number of items
             /\ (r.drain.capped = 1 \/ (r.drain.ended = 1 /\ r.drain.items <= r.drain.announced))
             /\ r.drain.vec_over = 0        \* a vector cell read by a skipping consumer: never more items than the dimension, len() truthful

RECURSIVE StripT(_)
StripT(T) ==
  CASE T.k = "native" -> T
    [] T.k \in {"list", "set"} -> [k |-> T.k, e |-> StripT(T.e)]
    [] T.k = "map" -> [k |-> "map", a |-> StripT(T.a), b |-> StripT(T.b)]
    [] T.k = "tuple" -> [k |-> "tuple", ts |-> [i \in 1..Len(T.ts) |-> StripT(T.ts[i])]]
    [] T.k = "udt" -> [k |-> "udt", ks |-> T.ks, name |-> T.name, fs |-> [i \in 1..Len(T.fs) |-> [n |-> T.fs[i].n, t |-> StripT(T.fs[i].t)]]]
    [] T.k = "vector" -> [k |-> "vector", e |-> StripT(T.e), d |-> T.d]
ExpCols(cols) == [i \in 1..Len(cols) |-> [ks |-> cols[i].ks, table |-> cols[i].table, name |-> cols[i].name, t |-> StripT(cols[i].t)]]
NameOf(b, S) == CHOOSE s \in S : A(s) = b
ExpSC(e) == [k |-> "schema", change |-> NameOf(e.change, {"CREATED", "UPDATED", "DROPPED"}),
             target |-> NameOf(e.target, {"KEYSPACE", "TABLE", "TYPE", "FUNCTION", "AGGREGATE"}), ks |-> e.ks, name |-> e.name, args |-> e.args]

\* what decoding the frame of description d must give (the fields the harness reports)
RespOK(d, cached, v) ==
  CASE d.k = "error" -> v.k = "error" /\ v.code = d.code /\ v.reason = d.reason /\ v.x = d.x
    [] d.k \in {"ready", "void"} -> v.k = d.k
    [] d.k = "authenticate" -> v.k = d.k /\ v.name = d.name
    [] d.k \in {"auth_challenge", "auth_success"} -> v.k = d.k /\ v.token = d.token
    [] d.k = "supported" -> v.k = d.k /\ v.opts = d.opts
    [] d.k = "set_keyspace" -> v.k = d.k /\ v.ks = d.ks
    [] d.k = "schema_change" -> v.k = d.k /\ v.ev = ExpSC(d.ev)
    [] d.k = "event" -> v.k = "event" /\
         (IF d.ev.k = "schema" THEN v.ev = ExpSC(d.ev)
          ELSE v.ev = [k |-> d.ev.k, change |-> NameOf(d.ev.change, {"NEW_NODE", "REMOVED_NODE", "UP", "DOWN"}), ip |-> d.ev.ip, port |-> d.ev.port])
    [] d.k = "prepared" ->
         /\ v.k = "prepared" /\ v.id = d.id /\ v.result_metadata_id = d.result_metadata_id
         /\ v.is_lwt = (IF d.bind.lwt > 0 THEN 1 ELSE 0)
         /\ v.pk = d.bind.pk /\ v.bind = ExpCols(d.bind.cols)
         /\ v.result = ExpCols(d.result.cols) /\ v.result_col_count = d.result.col_count
    [] d.k = "rows" ->
         /\ v.k = "rows" /\ v.rows_count = Len(d.rows) /\ v.paging = d.meta.paging
         /\ IF d.meta.no_metadata THEN v.cols = ExpCols(cached) /\ v.col_count = Len(cached) /\ v.new_metadata_id = None
            ELSE v.cols = ExpCols(d.meta.cols) /\ v.col_count = d.meta.col_count /\ v.new_metadata_id = d.meta.new_id

ExpRows(d) == [i \in 1..Len(d.rows) |-> [j \in 1..Len(d.rows[i]) |-> Pad(d.types[j], d.rows[i][j])]]

Faithful(r) ==
  /\ r.hdr.ok = 1 /\ r.hdr.version = 132 /\ r.hdr.stream = r.x.stream /\ r.hdr.opcode = Opcode(r.d) /\ r.hdr.rest = 0
  /\ r.hdr.flags = FlagsOf(r.x) + (IF r.comp = "none" THEN 0 ELSE 1)
  /\ r.ext.ok = 1 /\ r.ext.tracing = r.x.tracing /\ r.ext.warnings = r.x.warnings /\ r.ext.payload = r.x.payload
  /\ r.resp.ok = 1 /\ RespOK(r.d, r.cached, r.resp.v)
  /\ r.d.k = "rows" => /\ r.rows.ok = 1 /\ r.rows.rows = ExpRows(r.d)
                       /\ \A i \in 1..Len(r.typed) : r.typed[i].n <= Len(r.d.rows)     \* (a typed target may legitimately refuse a null)

CaseOK(r) == Robust(r) /\ (r.kind = "wf" => Faithful(r))

TraceInit == l = 1 /\ TLCSet(1, 1)
\* every record is judged; the bad ones are printed (one pass over the whole population, no stop at the first)
TraceNext == l <= Len(Rec) /\ (IF CaseOK(Rec[l]) THEN TRUE ELSE PrintT(<<"BAD", l>>)) /\ l' = l + 1
TraceSpec == TraceInit /\ [][TraceNext]_l
Progress == TLCSet(1, IF l > TLCGet(1) THEN l ELSE TLCGet(1))
TraceAccepted == IF TLCGet(1) = Len(Rec) + 1 THEN TRUE
                 ELSE PrintT(<<"REJECTED at line", TLCGet(1)>>) /\ FALSE
=============================================================================
