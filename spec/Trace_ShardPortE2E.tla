------------------------- MODULE Trace_ShardPortE2E -------------------------
(***************************************************************************)
(* C11, connection level: what a node's shard-aware port sees when the     *)
(* application confines the driver's source ports to [lo, hi] and some of  *)
(* those ports are held by somebody else.  A record = one scenario of      *)
(* `vh-driver c11 e2e`: accepts = <<source port, shard the node assigned>> *)
(* for every connection accepted on the shard-aware port; covered = shards *)
(* having a connection at the end.                                         *)
(*  * every such connection comes from a port inside the range, free, and  *)
(*    congruent to the shard it reached.                                   *)
(* (How soon every shard is covered depends on timing and is not judged.)  *)
(* The node may be reached over IPv4 or IPv6 (v6).                         *)
(* kind "msb": the node is restarted with other sharding parameters; after *)
(* each restart, once its pool has a connection to every shard again, the  *)
(* sharder the session publishes for the node maps tokens to the shards    *)
(* ScyllaDB assigns under the node's CURRENT parameters.                   *)
(***************************************************************************)
EXTENDS Sharding, Json, IOUtils, TLC
Rec == ndJsonDeserialize(IOEnv.TRACE)
VARIABLE l
SeqSet(s) == {s[i] : i \in 1..Len(s)}
MsbOK(r) ==
  \A k \in 1..Len(r.steps) :
    LET st == r.steps[k]  nr == st.node[1]  msb == st.node[2] IN
    st.covered >= nr =>
      /\ st.published = st.node
      /\ Len(st.shards) > 0
      /\ \A i \in 1..Len(st.shards) : st.shards[i][2] = ShardOf(st.shards[i][1], nr, msb) /\ st.shards[i][2] < nr
OK(r) ==
  IF r.kind = "msb" THEN MsbOK(r) ELSE
  /\ r.start_err = ""
  /\ \A i \in 1..Len(r.accepts) :
       LET p == r.accepts[i][1]  s == r.accepts[i][2] IN
       /\ r.lo <= p /\ p <= r.hi                      \* inside the allowed range, whatever else was tried first
       /\ p \notin SeqSet(r.occupied)
       /\ p % r.nr = s
TraceInit == l = 1 /\ TLCSet(1, 1)
TraceNext == l <= Len(Rec) /\ (IF OK(Rec[l]) THEN TRUE ELSE PrintT(<<"BAD", l>>)) /\ l' = l + 1
TraceSpec == TraceInit /\ [][TraceNext]_l
Progress == TLCSet(1, IF l > TLCGet(1) THEN l ELSE TLCGet(1))
TraceAccepted == IF TLCGet(1) = Len(Rec) + 1 THEN TRUE ELSE PrintT(<<"REJECTED at line", TLCGet(1)>>) /\ FALSE
=============================================================================
