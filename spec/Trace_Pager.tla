----------------------------- MODULE Trace_Pager -----------------------------
(***************************************************************************)
(* Judge of `vh-driver c07 run` records: a real Session paging through the *)
(* mock cluster's scripted pages and faults.  The expectations are the     *)
(* summary functions of Pager.tla (ExpReqs, ExpItems, FirstFail), which    *)
(* TLC proved equal to what the pager machine does (SummaryAgrees).        *)
(***************************************************************************)
EXTENDS PagerProp, Json, IOUtils, TLC
Rec == ndJsonDeserialize(IOEnv.TRACE)
VARIABLE l
Min(a, b) == IF a < b THEN a ELSE b
\* requests needed until the page holding the n-th row has been served (0 rows: the first page, which query_iter awaits)
RECURSIVE ReqsFor(_, _, _)
ReqsFor(s, j, n) == IF j > LastFetched(s) THEN 0
                    ELSE Outcome(s, j).nreq + (IF n <= Len(s.pages[j]) THEN 0 ELSE ReqsFor(s, j + 1, n - Len(s.pages[j])))
PagerOK(r) ==
  LET s == [pages |-> r.pages, faults |-> r.faults, consumer |-> r.consumer]
      fp == [i \in 1..Len(r.frames) |-> r.frames[i].page + 1]
      exp == ExpItems(s)
      full == r.consumer.mode \in {"all", "slow"} \/ r.consumer.n > Len(exp)
  IN
  \* every request carries a paging state the server issued: none first, then the one returned with the page before
  /\ \A i \in 1..Len(r.frames) : r.frames[i].page >= 0
  /\ Len(fp) > 0 /\ fp[1] = 1
  /\ (r.kind = "unprepared" => r.prepares = 0) /\ (r.kind = "prepared" => r.prepares >= 1)
  /\ IF FirstFail(s) = 1
     THEN \* the first page cannot be fetched: the error surfaces (from query_iter itself or as the stream's first item)
          /\ r.items = << >> /\ (r.start_err # "" \/ r.end = "error" \/ (~full /\ r.end = "dropped"))
          /\ fp = ExpReqs(s)
     ELSE /\ r.start_err = ""
          /\ IF full
             THEN /\ fp = ExpReqs(s) /\ r.items = exp
                  /\ r.end = (IF FirstFail(s) = 0 THEN "done" ELSE "error")
             ELSE /\ r.end = "dropped" /\ r.items = SubSeq(exp, 1, r.consumer.n)
                  /\ IsPrefix(fp, ExpReqs(s)) /\ Len(fp) >= ReqsFor(s, 1, r.consumer.n)
TraceInit == l = 1 /\ TLCSet(1, 1)
TraceNext == l <= Len(Rec) /\ (IF PagerOK(Rec[l]) THEN TRUE ELSE PrintT(<<"BAD", l>>)) /\ l' = l + 1
TraceSpec == TraceInit /\ [][TraceNext]_l
Progress == TLCSet(1, IF l > TLCGet(1) THEN l ELSE TLCGet(1))
TraceAccepted == IF TLCGet(1) = Len(Rec) + 1 THEN TRUE
                 ELSE PrintT(<<"REJECTED at line", TLCGet(1)>>) /\ FALSE
=============================================================================
