---------------------------- MODULE Trace_BatchFly ----------------------------
(***************************************************************************)
(* C14 for a batch whose second statement the caller gave as TEXT with     *)
(* values (the driver prepares it on the fly) and which the node forgets   *)
(* between that PREPARE and the BATCH.  One record = one such step of      *)
(* `vh-driver c14 run` (frames of the step as the mock saw them):          *)
(*  * the caller sees the normal result;                                   *)
(*  * the node's UNPREPARED is followed by a PREPARE of the statement it   *)
(*    named and by the batch again - the same ids, the same values;        *)
(*  * the last frame is the batch, answered normally.                      *)
(***************************************************************************)
EXTENDS Naturals, Sequences, Json, IOUtils, TLC
Rec == ndJsonDeserialize(IOEnv.TRACE)
VARIABLE l
Batches(fr) == SelectSeq(fr, LAMBDA f : f.opcode = 13)
OK(r) ==
  LET fr == r.frames  n == Len(fr)  b == Batches(fr) IN
  /\ r.ok = 1
  /\ n >= 1 /\ fr[n].opcode = 13 /\ fr[n].reply = "void"
  /\ \A i \in 1..Len(b) : b[i].id = b[1].id /\ b[i].values = b[1].values
  /\ \A i \in 1..(n - 1) : (fr[i].opcode = 13 /\ fr[i].reply = "unprepared") =>
        \E j \in (i + 1)..n : fr[j].opcode = 9 /\ fr[j].reply = "prepared" /\ fr[j].reply_id = fr[i].reply_id
TraceInit == l = 1 /\ TLCSet(1, 1)
TraceNext == l <= Len(Rec) /\ (IF OK(Rec[l]) THEN TRUE ELSE PrintT(<<"BAD", l>>)) /\ l' = l + 1
TraceSpec == TraceInit /\ [][TraceNext]_l
Progress == TLCSet(1, IF l > TLCGet(1) THEN l ELSE TLCGet(1))
TraceAccepted == IF TLCGet(1) = Len(Rec) + 1 THEN TRUE ELSE PrintT(<<"REJECTED at line", TLCGet(1)>>) /\ FALSE
=============================================================================
