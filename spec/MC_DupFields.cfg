SPECIFICATION DSpec
CONSTANTS Six = FALSE
INVARIANTS DEmit
CHECK_DEADLOCK FALSE
