SPECIFICATION Spec
CONSTANTS
  Req = {1, 2, 3}
  Streams = {0, 1}
  AllowFault = TRUE
INVARIANTS NoCrossDelivery StreamUniqueOnWire Bookkeeping
PROPERTIES NobodyHangs
CHECK_DEADLOCK FALSE
