---------------------------- MODULE MC_TypeCompat ----------------------------
(* Column types for the carrier x type matrix (C17) and rollback histories.   *)
EXTENDS Naturals, Sequences, TLC, Json
NT(n) == [k |-> "native", n |-> n]
Natives == {"ascii", "bigint", "blob", "boolean", "counter", "date", "decimal", "double", "duration", "float", "inet", "int",
            "smallint", "text", "time", "timestamp", "timeuuid", "tinyint", "uuid", "varint"}
L(e) == [k |-> "list", e |-> e]
St(e) == [k |-> "set", e |-> e]
M(a, b) == [k |-> "map", a |-> a, b |-> b]
Tp(ts) == [k |-> "tuple", ts |-> ts]
V(e, d) == [k |-> "vector", e |-> e, d |-> d]
Ud(ns) == [k |-> "udt", fs |-> [i \in 1..Len(ns) |-> [n |-> ns[i], t |-> NT(IF ns[i] = "b" THEN "text" ELSE "int")]]]
Some == {"int", "text", "bigint", "blob", "boolean", "uuid"}
D1 == {NT(n) : n \in Natives} \cup {L(NT(n)) : n \in Natives} \cup {St(NT(n)) : n \in Natives} \cup {V(NT(n), 1) : n \in Natives}
      \cup {M(NT(a), NT(b)) : a \in {"int", "text", "uuid"}, b \in Some}
      \cup {Tp(<<NT("int"), NT("text")>>), Tp(<<NT("text"), NT("int")>>), Tp(<<NT("int")>>), Tp(<<NT("text")>>),
            Tp(<<NT("int"), NT("text"), NT("int")>>), Tp(<<NT("bigint"), NT("text")>>), Tp(<<NT("int"), NT("ascii")>>)}
      \cup {[k |-> "udt", fs |-> <<[n |-> "a", t |-> NT("int")]>>]} \cup {Ud(<<"a", "b">>), Ud(<<"b", "a">>), Ud(<<"a", "b", "c">>), Ud(<<"a", "x">>), Ud(<<"x", "b", "a">>),
            [k |-> "udt", fs |-> <<[n |-> "a", t |-> NT("text")], [n |-> "b", t |-> NT("text")]>>]}
D2 == {L(L(NT(n))) : n \in Some} \cup {L(Ud(<<"a", "b">>)), L(Ud(<<"a", "x">>)), St(Ud(<<"a", "b", "x">>))} \cup {L(St(NT("int"))), St(L(NT("int"))), L(V(NT("int"), 1)), V(L(NT("int")), 1)}
      \cup {L(Tp(<<NT("int"), NT("text")>>)), L(Tp(<<NT("text"), NT("int")>>)), L(Tp(<<NT("int"), NT("blob")>>)), St(Tp(<<NT("int"), NT("text")>>))}
      \cup {M(NT("text"), L(NT(n))) : n \in Some} \cup {M(NT("text"), St(NT("int"))), M(NT("int"), L(NT("int"))), M(NT("text"), M(NT("text"), NT("int")))}
VARIABLE c
Init == c \in D1 \cup D2
Next == UNCHANGED c
Spec == Init /\ [][Next]_c
Emit == PrintT(<<"TYPE", ToJson([t |-> c])>>)
=============================================================================
