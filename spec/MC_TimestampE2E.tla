-------------------------- MODULE MC_TimestampE2E --------------------------
(* Scripts for the end-to-end half of C18: writes through every session path   *)
(* (unprepared statement with values, prepared statement, batch of prepared,   *)
(* batch rebuilt because it holds an unprepared statement with values), with   *)
(* and without an explicit timestamp, with and without a server-side eviction  *)
(* right before (UNPREPARED -> PREPARE -> the same request again).             *)
EXTENDS Integers, Sequences, TLC, Json
Ops == {"query", "execute", "batch_prepared", "batch_mixed"}
\* a step without an explicit timestamp is written with ts = 0
Mk(ops) == {s \in [op : ops, explicit : {0, 1}, ts : {-5, 0, 2000000000}, evict : {0, 1}] : (s.explicit = 0) <=> (s.ts = 0)}
Steps == Mk(Ops)
\* more paths: an unprepared statement WITHOUT values (sent as QUERY, never prepared) unpaged / one page / through the paging
\* iterator; an unprepared statement with values through the iterator; a prepared statement by single page / through the
\* iterator; a prepared statement the node marked as LWT; a batch with an explicit timestamp whose member statements carry
\* explicit timestamps of their own (the batch's is the one of the request)
NewOps == {"query_novals", "query_page", "query_iter", "query_iter_vals", "execute_page", "execute_iter", "execute_lwt", "batch_member"}
NewSteps == {s \in Mk(NewOps) : s.op = "batch_member" => s.explicit = 1}
Canon(s) == IF s.explicit = 0 THEN [s EXCEPT !.ts = 0] ELSE s
VARIABLE c
Init == \/ \E a \in Steps : \E b \in Steps : a = Canon(a) /\ b = Canon(b) /\ (a.ts # b.ts \/ a.explicit = 0) /\ c = [steps |-> <<a, b>>]
        \/ \E a \in Steps : \E b \in Steps : \E d \in Steps :
             /\ a.explicit = 0 /\ a.ts = 0 /\ b.explicit = 1 /\ b.ts = -5 /\ d.explicit = 0 /\ d.ts = 0 /\ a.evict = 0 /\ b.evict = d.evict
             /\ c = [steps |-> <<a, b, d, a>>]
        \/ \E a \in NewSteps : \E b \in Steps \cup NewSteps :
             /\ a = Canon(a) /\ b = Canon(b) /\ (a.ts # b.ts \/ a.explicit = 0) /\ b.evict = 0 /\ b.op \in {a.op, "execute", "query_novals"}
             /\ \/ c = [steps |-> <<a, b>>]
                \/ a.explicit = 0 /\ b.explicit = 0 /\ c = [steps |-> <<b, a>>]
Next == UNCHANGED c
Spec == Init /\ [][Next]_c
Emit == PrintT(<<"SCRIPT", ToJson(c)>>)
=============================================================================
