-------------------------- MODULE MC_TimestampE2E --------------------------
(* Scripts for the end-to-end half of C18: writes through every session path   *)
(* (unprepared statement with values, prepared statement, batch of prepared,   *)
(* batch rebuilt because it holds an unprepared statement with values), with   *)
(* and without an explicit timestamp, with and without a server-side eviction  *)
(* right before (UNPREPARED -> PREPARE -> the same request again).             *)
EXTENDS Integers, Sequences, TLC, Json
Ops == {"query", "execute", "batch_prepared", "batch_mixed"}
Steps == {[op |-> o, explicit |-> e, ts |-> t, evict |-> v] : o \in Ops, e \in {0, 1}, t \in {-5, 2000000000}, v \in {0, 1}}
Canon(s) == IF s.explicit = 0 THEN [s EXCEPT !.ts = 0] ELSE s
VARIABLE c
Init == \/ \E a \in Steps : \E b \in Steps : a = Canon(a) /\ b = Canon(b) /\ (a.ts # b.ts \/ a.explicit = 0) /\ c = [steps |-> <<a, b>>]
        \/ \E a \in Steps : \E b \in Steps : \E d \in Steps :
             /\ a.explicit = 0 /\ a.ts = 0 /\ b.explicit = 1 /\ b.ts = -5 /\ d.explicit = 0 /\ d.ts = 0 /\ a.evict = 0 /\ b.evict = d.evict
             /\ c = [steps |-> <<a, b, d, a>>]
Next == UNCHANGED c
Spec == Init /\ [][Next]_c
Emit == PrintT(<<"SCRIPT", ToJson(c)>>)
=============================================================================
