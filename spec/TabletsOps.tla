----------------------------- MODULE TabletsOps -----------------------------
(* Pure operators of the tablet-map specification (C15), shared by the design *)
(* model (Tablets) and the trace judge (Trace_TabletsProp).                   *)
EXTENDS Naturals, Sequences, FiniteSets

Overlaps(t, f, l) == t.f <= l /\ f <= t.l

\* learning a tablet [f,l] with replicas reps while `known` nodes are resolvable
LearnP(L, known, f, l, reps) ==
  Append([i \in 1..Len(L) |->
            IF L[i].alive /\ Overlaps(L[i], f, l) THEN [L[i] EXCEPT !.alive = FALSE] ELSE L[i]],
         [f |-> f, l |-> l, reps |-> reps, alive |-> TRUE, res |-> known])

\* maintenance: tablets in `disc` (indices) are discarded, survivors are re-resolved
MaintP(L, disc, newKnown) ==
  [i \in 1..Len(L) |->
     IF ~L[i].alive THEN L[i]
     ELSE IF i \in disc THEN [L[i] EXCEPT !.alive = FALSE]
     ELSE [L[i] EXCEPT !.res = newKnown]]

\* the most recently learnt tablet covering position p (0 = none)
LatestCovering(L, p) ==
  LET S == {i \in 1..Len(L) : L[i].f <= p /\ p <= L[i].l}
  IN IF S = {} THEN 0 ELSE CHOOSE i \in S : \A j \in S : j <= i

\* what a lookup must answer: index of the tablet, or 0 for "nothing"
AnswerP(L, p) == LET i == LatestCovering(L, p) IN IF i # 0 /\ L[i].alive THEN i ELSE 0

\* replica list answered for a tablet: its replicas that were resolvable when last resolved
RepsOf(t) == SelectSeq(t.reps, LAMBDA r : r[1] \in t.res)

AliveIdx(L) == {i \in 1..Len(L) : L[i].alive}

\* the implementation's maintenance rule: drop iff a replica is removed or still unknown
MustDrop(t, newKnown) == \E k \in 1..Len(t.reps) : t.reps[k][1] \notin newKnown
=============================================================================
