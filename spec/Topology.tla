------------------------------ MODULE Topology ------------------------------
(***************************************************************************)
(* Growth beyond the listed properties: the Session's view of the cluster  *)
(* after membership changes.  Four node slots (addresses); slot 0 is always*)
(* a member.  A slot's node has a generation (a replaced node is a NEW     *)
(* node, with another host id, at the same address) and a datacenter.      *)
(*   Add(s) Remove(s)    the node joins / leaves                            *)
(*   Replace(s)          another node takes the address (generation + 1)   *)
(*   MoveDc(s)           the node comes back in the other datacenter        *)
(*   Check               the application refreshes the metadata            *)
(* What the application may rely on after a refresh:                       *)
(*   ViewIsTruth   the nodes the session knows are exactly the members,    *)
(*                 each with its current host id, datacenter, rack, address;*)
(*   NoGhosts      requests go only to members.                            *)
(***************************************************************************)
EXTENDS Naturals, Sequences, FiniteSets
Slots == 0..3
OtherDc(d) == IF d = "dc1" THEN "dc2" ELSE "dc1"
RackOf(s) == IF s % 2 = 0 THEN "r1" ELSE "r2"
\* state: [present, gen, dc] per slot
Init0(init) == [s \in Slots |-> [present |-> (s = 0 \/ s \in init), gen |-> 0, dc |-> "dc1"]]
Apply(t, op) ==
  CASE op.op = "add" -> [t EXCEPT ![op.n].present = TRUE]
    [] op.op = "remove" -> [t EXCEPT ![op.n].present = FALSE]
    [] op.op = "replace" -> [t EXCEPT ![op.n].gen = @ + 1]
    [] op.op = "movedc" -> [t EXCEPT ![op.n].dc = OtherDc(@)]
    [] OTHER -> t
\* an operation makes sense in a state
Enabled(t, op) ==
  CASE op.op = "add" -> ~t[op.n].present
    [] op.op = "remove" -> t[op.n].present /\ op.n # 0
    [] op.op \in {"replace", "movedc"} -> t[op.n].present /\ op.n # 0
    [] OTHER -> TRUE
Members(t) == {s \in Slots : t[s].present}
View(t) == {[slot |-> s, gen |-> t[s].gen, dc |-> t[s].dc, rack |-> RackOf(s), addr_ok |-> 1] : s \in Members(t)}
RECURSIVE StateAt(_, _, _)
StateAt(t, ops, k) == IF k = 0 THEN t ELSE Apply(StateAt(t, ops, k - 1), ops[k])
=============================================================================
